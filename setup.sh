#!/bin/sh
# Build the fact extractors from files on disk (offline) and warm the dependency cache.
set -e
cd "$(dirname "$0")"
export CARGO_NET_OFFLINE=true
(cd tools/anthem-facts && cargo +nightly build --release --offline)
(cd tools/pest-facts && cargo build --release --offline)
# one extraction warms .work/target (anthem's dependencies are checked once, ~25 s)
python3 -c "
import sys; sys.path.insert(0,'.'); sys.dont_write_bytecode=True
from rules import facts
d,h = facts.ensure(); print('facts for tree', h, 'in', d)
"
