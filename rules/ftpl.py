"""FTPL: normal form of *formula templates* — the symbolic terms (rules/sym.py) that build fol::Formula values — modulo sound
equivalences of the logic of here-and-there:

  * associativity / commutativity of `and`, `or`; `a <- b` = `b -> a`; symmetry of `<->`, `=`, `!=`; `a > b` = `b < a`, `a >= b` = `b <= a`;
    a chain `a r1 b r2 c` = `a r1 b and b r2 c`; commutativity of `+` and `*` in integer terms;
  * the order of the variables bound by one quantifier; `if vars.is_empty() { F } else { Q vars F }` = `Q vars F`;
  * `Formula::conjoin(xs)` = the conjunction of xs (its definition is checked separately).

Nothing else is identified: in particular `not not F` is not `F`, an implication is not its contrapositive, sorts are kept.

NF (hashable tuples):
  ('Q', 'Forall'|'Exists', VARS, F)     VARS: sorted tuple of ('var', NAME, SORT)
  ('and', items) ('or', items) ('imp', a, b) ('iff', (a, b)) ('not', a) ('true',) ('false',)
  ('eq', (a, b)) ('ne', (a, b)) ('lt', a, b) ('le', a, b) ('cmp', REL, a, b)
  ('atom', SYMBOL, TERMS)
  ('var', NAME, SORT) ('num', n) ('op', OP, a, b) ('inf',) ('sup',) ('sym', s) ('neg', a)
  ('loop', X)                          element pushed for every iteration (X contains ('each', src) markers)
  NAME: ('fresh', prefix, count, selector) | any other name expression;   SORT: 'General' | 'Integer' | 'Symbol' | expression
"""
from .facts import AnalysisGap
from . import hq

STRIP_CALLS = ("Clone::clone", "ToString::to_string", "ToOwned::to_owned", "Into::into", "From::from", "Box::new", "String::from", "Borrow::borrow",
               "AsRef::as_ref", "Deref::deref", "Vec::to_vec", "slice::to_vec", "Vec::into_iter", "Vec::iter", "IntoIterator::into_iter", "slice::iter",
               "Iterator::cloned", "Iterator::copied", "IndexSet::iter", "IndexSet::into_iter", "Vec::as_slice", "String::as_str", "Vec::clone", "String::clone",
               "Option::cloned")


def key(x):
    return repr(x)


ITER_STRIP = ("Vec::iter", "slice::iter", "IntoIterator::into_iter", "Vec::into_iter", "Iterator::cloned", "Iterator::copied", "IndexSet::iter", "IndexSet::into_iter",
              "Iterator::collect", "Vec::to_vec", "slice::to_vec", "Clone::clone", "Vec::clone", "Iterator::rev_not", "FromIterator::from_iter")
EMPTY_VEC = ("call", "Vec::new", ())


def _strip_iter(t):
    while isinstance(t, tuple) and t:
        if t[0] == "call" and (t[1] in ITER_STRIP or t[1].split("::")[-1] in ("iter", "into_iter", "cloned", "copied", "collect", "to_vec")) and len(t[2]) == 1:
            t = t[2][0]
        elif t[0] == "call" and t[1].endswith("::drain") and len(t[2]) == 2 and t[2][1] == ("ctor", "RangeFull", ()):
            t = t[2][0]
        elif t[0] == "acc":
            t = t[1]
        else:
            break
    return t


def _comp(t):
    """(element) if t is a canonical comprehension `upd(acc(empty), push, (X,))`, else None"""
    t = _strip_iter(t)
    if isinstance(t, tuple) and t and t[0] == "upd" and t[2] == "push" and len(t[3]) == 1:
        init = _strip_iter(t[1])
        if init in (EMPTY_VEC, ("list", ())) or (isinstance(init, tuple) and init[:2] == ("call", "Vec::with_capacity")):
            return t[3][0]
    return None


def _elem(S):
    """the element produced by iterating the sequence expression S (canonical markers: ('at', L) element of list L, ('idx', L) its position)"""
    S = _strip_iter(S)
    if isinstance(S, tuple) and S and S[0] == "call" and S[1] == "Iterator::enumerate" and len(S[2]) == 1:
        L = _strip_iter(S[2][0])
        return ("list", (("idx", L), _elem(L)))
    if isinstance(S, tuple) and S and S[0] == "call" and S[1] == "Iterator::zip" and len(S[2]) == 2:
        return ("list", (_elem(S[2][0]), _elem(S[2][1])))
    c = _comp(S)
    if c is not None:
        return c
    return ("at", S)


def _apply(F, e):
    from . import sym
    if F[0] == "closure":
        names = F[1]
        if len(names) == 1 and "/" not in names[0]:
            return canon_iter(sym.subst(F[2], {names[0]: e}))
        parts = names[0].split("/") if len(names) == 1 else list(names)
        if e[0] == "list" and len(e[1]) == len(parts):
            return canon_iter(sym.subst(F[2], dict(zip(parts, e[1]))))
        return None
    if F[0] == "fn":
        return ("call", F[1] if "::" in F[1] else F[1], (e,))
    if F[0] == "ctorfn":
        return ("ctor", F[1], (("0", e),))
    return None


def canon_iter(t):
    """Loops that push and iterator chains (map / zip / enumerate / collect) to one form: `upd(acc(Vec::new()), push, (X,))` where X refers
    to the current element of list L as ('at', L) and to its position as ('idx', L)."""
    if not isinstance(t, tuple) or not t:
        return t
    if t[0] == "closure":
        return t
    t = tuple(canon_iter(x) for x in t)
    if t[0] == "proj" and isinstance(t[1], tuple) and t[1] and t[1][0] == "list":
        e, path = t[1], t[2]
        while path and isinstance(e, tuple) and e and e[0] == "list" and path[0][0] == "tuple" and int(path[0][1]) < len(e[1]):
            e, path = e[1][int(path[0][1])], path[1:]
        return e if not path else ("proj", e, path)
    if t[0] == "each":
        return _elem(t[1])
    if t[0] == "call" and t[1] == "Iterator::map" and len(t[2]) == 2:
        body = _apply(t[2][1], _elem(t[2][0]))
        if body is not None:
            return ("upd", ("acc", EMPTY_VEC), "push", (body,))
    if t[0] == "call" and t[1] in ("Iterator::collect", "FromIterator::from_iter") and len(t[2]) == 1 and _comp(t[2][0]) is not None:
        return t[2][0]
    if t[0] == "at":
        c = _comp(t[1])
        if c is not None:
            return c
        return ("at", _strip_iter(t[1]))
    if t[0] == "call" and t[1] == "Vec::with_capacity" and len(t[2]) == 1:
        return EMPTY_VEC   # the capacity is no part of the value
    if t[0] == "upd" and t[2] in ("extend", "extend_from_slice", "append") and len(t[3]) == 1 and t[1] in (EMPTY_VEC, ("list", ())):
        return _strip_iter(t[3][0])   # an empty list extended by the elements of X is (a copy of) X
    if t[0] == "upd" and t[2] in ("reserve", "reserve_exact", "shrink_to_fit"):
        return t[1]
    return t


def canon_closures(t):
    """canon_iter also inside closure bodies (a loop element captured by a lazily evaluated closure, `x.unwrap_or_else(|| f(r))` in a loop over r,
    is the same element as outside of it)"""
    if not isinstance(t, tuple) or not t:
        return t
    if t[0] == "closure" and len(t) == 3:
        return ("closure", t[1], canon_closures(canon_iter(t[2])))
    return tuple(canon_closures(x) for x in t)


class NF:
    def __init__(self):
        self.fresh = []   # (prefix, count term, taken-set term) of every choose_fresh_variable_names call met

    # ----------------------------------------------------------------------------------- helpers
    def strip(self, t):
        while isinstance(t, tuple) and t and t[0] == "call" and (t[1] in STRIP_CALLS or t[1].split("::")[-1] in ("clone", "to_string", "to_owned", "into", "to_vec", "iter", "into_iter", "cloned", "as_ref")) and len(t[2]) == 1:
            t = t[2][0]
        if isinstance(t, tuple) and t and t[0] == "acc":
            return self.strip(t[1])
        return t

    def lit_ctor(self, t):
        t = self.strip(t)
        if isinstance(t, tuple) and t[0] == "ctor" and not t[2]:
            return t[1].split("::")[-1]
        return None

    def fields(self, t):
        return dict(t[2])

    # ----------------------------------------------------------------------------------- names / variables
    def name(self, t):
        t = self.strip(t)
        if not isinstance(t, tuple):
            return t
        if t[0] == "call" and t[1] == "Option::unwrap" and t[2][0][0] == "call" and t[2][0][1] == "Vec::pop":
            inner = self.strip(t[2][0][2][0])
            f = self._fresh(inner)
            if f:
                return ("fresh", f[0], f[1], "last")
        if t[0] == "index":
            base = self.strip(t[1])
            f = self._fresh(base)
            if f:
                i = self.strip(t[2])
                if isinstance(i, tuple) and i and i[0] == "idx" and f[1] == ("call", "Vec::len", (self.gen(i[1]),)):
                    # the i-th of as many fresh names as the list has elements, i being the position in that list
                    return ("fresh", f[0], ("len", self.gen(i[1])), "ith")
                return ("fresh", f[0], f[1], ("nth", self.gen(t[2])))
            return ("nth", self.gen(base), self.gen(t[2]))
        if t[0] == "at":
            f = self._fresh(self.strip(t[1]))
            if f:
                n = f[1]
                if isinstance(n, tuple) and n[:2] == ("call", "Vec::len") and len(n[2]) == 1:
                    return ("fresh", f[0], ("len", n[2][0]), "ith")
                return ("fresh", f[0], n, "ith")
            return ("at", self.gen(t[1]))
        if t[0] == "each":
            return ("each", self.gen(t[1]))
        if t[0] == "fieldof" and t[2] == "0":
            # asp::Variable(String) newtype
            return self.name(t[1])
        return self.gen(t)

    def _fresh(self, t):
        if isinstance(t, tuple) and t[0] == "call" and t[1].endswith("choose_fresh_variable_names"):
            taken, prefix, count = t[2]
            p = prefix[1] if prefix[0] == "lit" else self.gen(prefix)
            c = count[1] if count[0] == "lit" else self.gen(count)
            self.fresh.append((p, c, taken))
            return (p, c)
        return None

    def gen(self, t):
        """generic structural normal form of a non-formula expression (strips clones / conversions)"""
        t = self.strip(t)
        if not isinstance(t, tuple):
            return t
        if t[0] == "call":
            return ("call", t[1], tuple(self.gen(a) for a in t[2]))
        if t[0] == "ctor":
            return ("ctor", t[1], tuple((k, self.gen(v)) for k, v in t[2]))
        if t[0] in ("list",):
            return ("list", tuple(self.gen(a) for a in t[1]))
        if t[0] == "index":
            return ("nth", self.gen(t[1]), self.gen(t[2]))
        if t[0] in ("each", "acc", "at", "idx"):
            return (t[0], self.gen(t[1]))
        if t[0] == "proj":
            return ("proj", self.gen(t[1]), t[2])
        if t[0] == "upd":
            return ("upd", self.gen(t[1]), t[2], tuple(self.gen(a) for a in t[3]))
        return t

    def sort(self, t):
        c = self.lit_ctor(t)
        if c in ("General", "Integer", "Symbol"):
            return c
        return self.gen(t)

    def var(self, t):
        t = self.strip(t)
        if t[0] == "ctor" and t[1] == "Variable":
            f = self.fields(t)
            return ("var", self.name(f["name"]), self.sort(f["sort"]))
        if t[0] in ("param", "place", "free"):
            # a whole fol::Variable passed through
            root = t[1]
            return ("var", ("place", root + ".name"), ("place", root + ".sort"))
        if t[0] in ("each", "at"):
            return ("var", ("each-name", self.gen(t[1])), ("each-sort", self.gen(t[1])))
        raise AnalysisGap("not a variable template: %r" % (t,))

    def varset(self, t):
        """the set of variables of a Quantification.variables expression"""
        t = self.strip(t)
        out = []

        def go(x):
            x = self.strip(x)
            if x[0] == "list":
                for i in x[1]:
                    out.append(self.var(i))
            elif x[0] == "upd" and x[2] in ("push", "insert"):
                go(x[1])
                out.append(self.var(x[3][-1]))
            elif x[0] == "upd" and x[2] in ("sort", "sort_unstable", "dedup"):
                go(x[1])
            elif x[0] == "upd" and x[2] in ("extend", "append"):
                go(x[1])
                c = None
                try:
                    g = self.gen(x[3][0])
                    c = _comp(g)
                    if c is not None:
                        c = self.var(c)
                except AnalysisGap:
                    c = None
                # extending by `xs.map(|x| Variable {..})` adds the same variables as pushing each of them
                out.append(c if c is not None else ("vars-of", self.gen(x[3][0])))
            elif x[0] == "call" and x[1] in ("Vec::new", "Vec::with_capacity", "IndexSet::new"):
                pass
            elif x[0] == "call" and x[1] == "Iterator::chain" and len(x[2]) == 2:
                go(x[2][0])
                go(x[2][1])
            elif x[0] == "call" and x[1] == "iter::once" and len(x[2]) == 1:
                out.append(self.var(x[2][0]))
            elif x[0] == "call" and x[1] in ("Iterator::collect", "FromIterator::from_iter"):
                out.append(("vars-of", self.gen(x[2][0])))
            else:
                out.append(("vars-of", self.gen(x)))
        go(t)
        return tuple(sorted(set(out), key=key))

    def seq(self, t):
        """an ordered list expression -> tuple of items (loop-built lists become one ('loop', item))"""
        t = self.strip(t)
        if t[0] == "list":
            return tuple(("item", x) for x in t[1])
        if t[0] == "upd" and t[2] == "push":
            return self.seq(t[1]) + ((("loop" if self._has_each(t[3][0]) else "item"), t[3][0]),)
        if t[0] == "call" and t[1] in ("Vec::new", "Vec::with_capacity"):
            return ()
        if t[0] == "call" and t[1] == "Iterator::map" and t[2][1][0] == "closure":
            return (("map", t),)
        if t[0] == "call" and t[1] in ("Iterator::collect",):
            return self.seq(t[2][0])
        return (("splice", t),)

    def _has_each(self, t):
        if isinstance(t, tuple):
            if t and t[0] in ("each", "at", "idx"):
                return True
            return any(self._has_each(x) for x in t)
        return False

    # ----------------------------------------------------------------------------------- terms
    def term(self, t):
        t = self.strip(t)
        if t[0] == "ctor":
            n = t[1]
            f = self.fields(t)
            if n == "GeneralTerm::Variable":
                return ("var", self.name(f["0"]), "General")
            if n in ("GeneralTerm::IntegerTerm", "GeneralTerm::SymbolicTerm"):
                return self.term(f["0"])
            if n == "IntegerTerm::Variable":
                return ("var", self.name(f["0"]), "Integer")
            if n == "SymbolicTerm::Variable":
                return ("var", self.name(f["0"]), "Symbol")
            if n == "IntegerTerm::Numeral":
                v = self.strip(f["0"])
                return ("num", v[1] if v[0] == "lit" else self.gen(v))
            if n == "SymbolicTerm::Symbol":
                return ("sym", self.gen(f["0"]))
            if n == "GeneralTerm::Infimum":
                return ("inf",)
            if n == "GeneralTerm::Supremum":
                return ("sup",)
            if n in ("IntegerTerm::FunctionConstant", "SymbolicTerm::FunctionConstant", "GeneralTerm::FunctionConstant"):
                return ("fconst", self.gen(f["0"]), n.split("::")[0])
            if n == "IntegerTerm::BinaryOperation":
                op = self.lit_ctor(f["op"]) or self.opmap(f["op"])
                a, b = self.term(f["lhs"]), self.term(f["rhs"])
                if op in ("Add", "Multiply"):
                    a, b = sorted((a, b), key=key)
                return ("op", op, a, b)
            if n == "IntegerTerm::UnaryOperation":
                return ("neg", self.term(f["arg"]))
        if t[0] == "match":
            v = self.sort_dispatch(t)
            if v:
                return v
            sel = self.select(t)
            if sel is not None:
                return self.term(sel)
            return ("match", self.gen(t[1]), tuple((a[0], self.term(a[-1])) for a in t[2] if a[-1][0] != "panic"))
        return ("term", self.gen(t))

    def select(self, t):
        """match on a literal constructor: the arm taken"""
        c = self.strip(t[1])
        if c[0] == "ctor":
            for a in t[2]:
                if len(a) > 2:
                    return None  # guarded arm: not decided here
                for alt in a[0].split(" | "):
                    if alt == c[1] or alt.startswith(c[1] + "(") or alt.startswith(c[1] + "{") or alt == "_":
                        return a[-1]
        return None

    def sort_dispatch(self, t):
        """match X.sort { General => GeneralTerm::Variable(N), Integer => IntegerTerm::Variable(N) [, Symbol => ..] } -> variable N at the sort of X"""
        sc = self.strip(t[1])
        arms = {}
        for a in t[2]:
            if a[-1][0] == "panic":
                continue
            arms[a[0]] = self.term(a[-1])
        if sc[0] == "ctor" and sc[1].startswith("Sort::"):
            return arms.get(sc[1])
        want = {"Sort::General": "General", "Sort::Integer": "Integer", "Sort::Symbol": "Symbol"}
        names = set()
        for k_, v in arms.items():
            if k_ not in want or v[0] != "var" or v[2] != want[k_]:
                return None
            names.add(v[1])
        if len(names) != 1 or not {"Sort::General", "Sort::Integer"} <= set(arms):
            return None
        return ("var", names.pop(), self.gen(sc))

    def opmap(self, t):
        t = self.strip(t)
        if t[0] == "match":
            sel = self.select(t)
            if sel is not None:
                return self.lit_ctor(sel) or self.gen(sel)
            m = tuple(sorted((a[0].split("::")[-1], self.lit_ctor(a[-1])) for a in t[2] if a[-1][0] != "panic"))
            return ("map", self.gen(t[1]), m)
        return self.gen(t)

    # ----------------------------------------------------------------------------------- formulas
    def cmp(self, rel, a, b):
        if rel == "Equal":
            return ("eq", tuple(sorted((a, b), key=key)))
        if rel == "NotEqual":
            return ("ne", tuple(sorted((a, b), key=key)))
        if rel == "Less":
            return ("lt", a, b)
        if rel == "LessEqual":
            return ("le", a, b)
        if rel == "Greater":
            return ("lt", b, a)
        if rel == "GreaterEqual":
            return ("le", b, a)
        return ("cmp", rel, a, b)

    def conj(self, items):
        flat = []
        for i in items:
            if i[0] == "and":
                flat.extend(i[1])
            elif i == ("true",):
                continue
            else:
                flat.append(i)
        if len(flat) == 1:
            return flat[0]
        if not flat:
            return ("true",)
        return ("and", tuple(sorted(flat, key=key)))

    def disj(self, items):
        flat = []
        for i in items:
            if i[0] == "or":
                flat.extend(i[1])
            else:
                flat.append(i)
        return ("or", tuple(sorted(flat, key=key))) if len(flat) != 1 else flat[0]

    def formula(self, t):
        t = self.strip(t)
        if t[0] == "ctor":
            n = t[1]
            f = self.fields(t)
            if n == "Formula::AtomicFormula":
                return self.formula(f["0"])
            if n == "AtomicFormula::Truth":
                return ("true",)
            if n == "AtomicFormula::Falsity":
                return ("false",)
            if n == "AtomicFormula::Comparison":
                return self.formula(f["0"])
            if n == "Comparison":
                cur = self.term(f["term"])
                gs = self.strip(f["guards"])
                if gs[0] != "list":
                    return ("comparison", cur, self.gen(gs))
                out = []
                for g in gs[1]:
                    gf = self.fields(self.strip(g))
                    nxt = self.term(gf["term"])
                    rel = self.lit_ctor(gf["relation"]) or self.opmap(gf["relation"])
                    out.append(self.cmp(rel, cur, nxt))
                    cur = nxt
                return self.conj(out)
            if n == "AtomicFormula::Atom":
                return self.formula(f["0"])
            if n == "Atom":
                return ("atom", self.gen(f["predicate_symbol"]), self.termseq(f["terms"]))
            if n == "Formula::UnaryFormula":
                if self.lit_ctor(f["connective"]) == "Negation":
                    return ("not", self.formula(f["formula"]))
            if n == "Formula::BinaryFormula":
                c = self.lit_ctor(f["connective"])
                a, b = self.formula(f["lhs"]), self.formula(f["rhs"])
                if c == "Conjunction":
                    return self.conj([a, b])
                if c == "Disjunction":
                    return self.disj([a, b])
                if c == "Implication":
                    return ("imp", a, b)
                if c == "ReverseImplication":
                    return ("imp", b, a)
                if c == "Equivalence":
                    return ("iff", tuple(sorted((a, b), key=key)))
                return ("binary", self.gen(f["connective"]), a, b)
            if n == "Formula::QuantifiedFormula":
                q = self.fields(self.strip(f["quantification"])) if self.strip(f["quantification"])[0] == "ctor" else None
                if q is None:
                    return ("Q", self.gen(f["quantification"]), (), self.formula(f["formula"]))
                return ("Q", self.lit_ctor(q["quantifier"]) or self.gen(q["quantifier"]), self.varset(q["variables"]), self.formula(f["formula"]))
        if t[0] == "call":
            short = t[1]
            if short == "Formula::conjoin":
                items = []
                for kind, x in self.seq(t[2][0]):
                    if kind == "item":
                        items.append(self.formula(x))
                    elif kind == "loop":
                        items.append(("bigand", self.formula(x)))
                    elif kind == "map":
                        items.append(self.map_closure(x))
                    else:
                        items.append(("bigand-of", self.gen(x)))
                return self.conj(items)
            if short == "Formula::disjoin":
                items = []
                for kind, x in self.seq(t[2][0]):
                    items.append(self.formula(x) if kind == "item" else ("bigor", self.formula(x) if kind == "loop" else self.gen(x)))
                return self.disj(items)
            if short.endswith("::val") and len(t[2]) == 2:
                return ("val", self.gen(t[2][0]), self.var(t[2][1]))
            return ("F", short, tuple(self.arg(a) for a in t[2]))
        if t[0] == "param":
            return ("F", "param", t[1])
        if t[0] == "match":
            sel = self.select(t)
            if sel is not None:
                return self.formula(sel)
            return ("match", self.gen(t[1]), tuple((a[0], self.formula(a[-1])) for a in t[2] if a[-1][0] != "panic"))
        if t[0] == "returns" and len(t) == 2 and t[1] and t[1][-1][0] == ("fallthrough",):
            # early returns are the branches of a conditional: `if c { return A } B` is `if c { A } else { B }`
            rest = t[1][-1][1]
            for conds, val in reversed(t[1][:-1]):
                cs = [(c_[0] if c_[1] else ("op", "Not", c_[0])) for c_ in conds if len(c_) >= 2 and not (isinstance(c_[0], tuple) and c_[0][:1] == ("survived",))]
                if not cs:
                    return ("F?", self.gen(t))
                cond = cs[0]
                for c_ in cs[1:]:
                    cond = ("bin", "And", cond, c_)
                rest = ("if", cond, val, rest)
            return self.formula(rest)
        if t[0] == "if":
            a, b = self.formula(t[2]), self.formula(t[3])
            # if !vars.is_empty() { Q vars F } else { F }
            for q, plain in ((a, b), (b, a)):
                if q[0] == "Q" and q[3] == plain:
                    return q
            return ("if", self.gen(t[1]), a, b)
        return ("F?", self.gen(t))

    def map_closure(self, m):
        src, clo = m[2]
        return ("bigand-map", self.gen(src), clo[1], self.formula(clo[2]))

    def arg(self, a):
        a = self.strip(a)
        if a[0] == "ctor" and a[1] == "Variable":
            return self.var(a)
        if a[0] == "ctor" and a[1].startswith("Formula::"):
            return self.formula(a)
        return self.gen(a)

    def termseq(self, t):
        out = []
        for kind, x in self.seq(t):
            if kind == "item":
                out.append(self.term(x))
            elif kind == "loop":
                out.append(("loop", self.term(x)))
            else:
                out.append((kind, self.gen(x)))
        return tuple(out)


def show(t, ind=0):
    """compact multi-line rendering of an NF"""
    import pprint
    return pprint.pformat(t, width=150, compact=True)
