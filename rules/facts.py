"""Fact extraction and loading.

Facts are extracted from the *current* working tree of the repository (default /repo,
override with ANTHEM_REPO for the self-test's scratch copies) by the rustc_private driver
tools/anthem-facts (typed HIR + MIR) and tools/pest-facts (grammar ASTs).  They are cached
under /verif/.work/facts/<sha256 of the sources>/ so that 20 property checks on one tree
share one extraction, and a changed tree is always re-extracted.
"""
import fcntl
import re
import hashlib
import json
import os
import shutil
import subprocess
import sys
import time

VERIF = os.path.dirname(os.path.dirname(os.path.abspath(__file__)))
WORK = os.path.join(VERIF, ".work")
DRIVER_DIR = os.path.join(VERIF, "tools", "anthem-facts")
DRIVER = os.path.join(DRIVER_DIR, "target", "release", "anthem-facts")
PEST_DIR = os.path.join(VERIF, "tools", "pest-facts")
PEST = os.path.join(PEST_DIR, "target", "release", "pest-facts")

GRAMMARS = {
    "asp": "src/parsing/asp/mini_gringo/grammar.pest",
    "fol": "src/parsing/fol/sigma_0/grammar.pest",
}
PREAMBLE = "src/verifying/problem/standard_interpretation.p"


def repo_dir():
    return os.environ.get("ANTHEM_REPO", "/repo")


class AnalysisGap(Exception):
    """A named anchor is missing or a construct is outside what the analysis understands.
    Fail closed: the check reports ANALYSIS-GAP and exits non-zero."""


def source_hash(repo):
    h = hashlib.sha256()
    paths = []
    for top in ("Cargo.toml", "Cargo.lock"):
        paths.append(os.path.join(repo, top))
    for root, dirs, files in os.walk(os.path.join(repo, "src")):
        dirs.sort()
        for f in sorted(files):
            paths.append(os.path.join(root, f))
    for p in paths:
        h.update(os.path.relpath(p, repo).encode())
        h.update(b"\0")
        try:
            with open(p, "rb") as fh:
                h.update(fh.read())
        except OSError:
            h.update(b"<missing>")
        h.update(b"\0")
    # the extractor itself is part of the key
    for tool in (os.path.join(DRIVER_DIR, "src"), os.path.join(PEST_DIR, "src")):
        for root, dirs, files in os.walk(tool):
            dirs.sort()
            for f in sorted(files):
                with open(os.path.join(root, f), "rb") as fh:
                    h.update(fh.read())
    return h.hexdigest()[:24]


def _run(cmd, cwd, env=None, what=""):
    e = dict(os.environ)
    e["CARGO_NET_OFFLINE"] = "true"
    e["RUST_BACKTRACE"] = "0"
    if env:
        e.update(env)
    p = subprocess.run(cmd, cwd=cwd, env=e, stdout=subprocess.PIPE, stderr=subprocess.STDOUT, text=True)
    if p.returncode != 0:
        sys.stderr.write(p.stdout[-6000:])
        raise AnalysisGap("%s failed (exit %d): %s" % (what or cmd[0], p.returncode, " ".join(cmd)))
    return p.stdout


def build_tools():
    if not os.path.exists(DRIVER):
        _run(["cargo", "+nightly", "build", "--release", "--offline"], DRIVER_DIR, what="building anthem-facts")
    if not os.path.exists(PEST):
        _run(["cargo", "build", "--release", "--offline"], PEST_DIR, what="building pest-facts")


def nightly_sysroot():
    return subprocess.run(["rustc", "+nightly", "--print", "sysroot"], stdout=subprocess.PIPE, text=True, check=True).stdout.strip()


def extract(repo, outdir):
    """Run the driver over the repository's real cargo build (lib + bin)."""
    build_tools()
    tmp = outdir + ".tmp.%d" % os.getpid()
    shutil.rmtree(tmp, ignore_errors=True)
    os.makedirs(tmp)
    target = os.path.join(WORK, "target")
    os.makedirs(target, exist_ok=True)
    # cargo's freshness cache would silently skip the wrapper: drop anthem's fingerprints
    fp = os.path.join(target, "debug", ".fingerprint")
    if os.path.isdir(fp):
        for d in os.listdir(fp):
            if d.startswith("anthem-"):
                shutil.rmtree(os.path.join(fp, d), ignore_errors=True)
    env = {
        "LD_LIBRARY_PATH": os.path.join(nightly_sysroot(), "lib"),
        "RUSTFLAGS": "-Zmir-opt-level=0 -Awarnings",
        "RUSTC_WORKSPACE_WRAPPER": DRIVER,
        "ANTHEM_FACTS_OUT": tmp,
        "CARGO_TARGET_DIR": target,
    }
    _run(["cargo", "+nightly", "check", "--offline", "--lib", "--bins"], repo, env, what="fact extraction (cargo check with driver)")
    for k in ("lib", "bin"):
        if not os.path.exists(os.path.join(tmp, "facts-%s.json" % k)):
            raise AnalysisGap("driver did not write facts-%s.json (wrapper skipped?)" % k)
    for name, rel in GRAMMARS.items():
        out = _run([PEST, os.path.join(repo, rel)], repo, what="grammar dump " + rel)
        with open(os.path.join(tmp, "grammar-%s.json" % name), "w") as fh:
            fh.write(out)
    shutil.rmtree(outdir, ignore_errors=True)
    os.rename(tmp, outdir)


_CACHE = {}


def ensure():
    """Return the directory holding facts for the repository's current tree."""
    repo = repo_dir()
    os.makedirs(os.path.join(WORK, "facts"), exist_ok=True)
    lock = open(os.path.join(WORK, "extract.lock"), "w")
    fcntl.flock(lock, fcntl.LOCK_EX)
    try:
        h = source_hash(repo)
        outdir = os.path.join(WORK, "facts", h)
        if not os.path.exists(os.path.join(outdir, "facts-lib.json")):
            t0 = time.time()
            extract(repo, outdir)
            with open(os.path.join(outdir, "meta.json"), "w") as fh:
                json.dump({"hash": h, "repo": repo, "extract_s": round(time.time() - t0, 2)}, fh)
            # keep the cache small: at most 6 trees
            root = os.path.join(WORK, "facts")
            ds = sorted((os.path.getmtime(os.path.join(root, d)), d) for d in os.listdir(root) if os.path.isdir(os.path.join(root, d)))
            for _, d in ds[:-6]:
                shutil.rmtree(os.path.join(root, d), ignore_errors=True)
        else:
            os.utime(outdir)
        return outdir, h
    finally:
        fcntl.flock(lock, fcntl.LOCK_UN)
        lock.close()


# ---------------------------------------------------------------------------------------
# Loading and querying


def walk(n):
    """All dict nodes of a fact tree, pre-order."""
    stack = [n]
    while stack:
        x = stack.pop()
        if isinstance(x, dict):
            yield x
            for v in reversed(list(x.values())):
                if isinstance(v, (dict, list)):
                    stack.append(v)
        elif isinstance(x, list):
            for v in reversed(x):
                if isinstance(v, (dict, list)):
                    stack.append(v)


def walk_with_parents(n, parents=()):
    if isinstance(n, dict):
        yield n, parents
        p2 = parents + (n,)
        for v in n.values():
            if isinstance(v, (dict, list)):
                yield from walk_with_parents(v, p2)
    elif isinstance(n, list):
        for v in n:
            yield from walk_with_parents(v, parents)


def callee(n):
    """Resolved callee def-path of a Call / MethodCall node (None for indirect calls)."""
    k = n.get("k")
    if k == "MethodCall":
        return n.get("callee_res") or n.get("callee")
    if k == "Call":
        f = n.get("f", {})
        if f.get("k") == "Path":
            if "callee" in f:
                return f.get("callee_res") or f.get("callee")
            r = f.get("res", {})
            if r.get("r") == "ctor":
                return None
    return None


def callee_generic(n):
    k = n.get("k")
    if k == "MethodCall":
        return n.get("callee")
    if k == "Call":
        f = n.get("f", {})
        if f.get("k") == "Path":
            return f.get("callee")
    return None


def ctor_of(n):
    """(adt, variant) if the node constructs an ADT value: struct literal, tuple-variant call
    or unit-variant path."""
    k = n.get("k")
    if k == "Struct":
        r = n.get("res", {})
        if r.get("r") == "ctor":
            return (r["adt"], r.get("variant"))
    if k == "Call":
        f = n.get("f", {})
        if f.get("k") == "Path":
            r = f.get("res", {})
            if r.get("r") == "ctor":
                return (r["adt"], r.get("variant"))
    if k == "Path":
        r = n.get("res", {})
        if r.get("r") == "ctor" and not n.get("ty", "").startswith("fn("):
            return (r["adt"], r.get("variant"))
    return None


def strip(n):
    """Look through wrappers that do not change the value: DropTemps, Use, Type, Block with
    only a tail expression, references, derefs, Box::new, .into(), .clone(), .to_owned(),
    .to_string() on a String."""
    while True:
        k = n.get("k")
        if k in ("DropTemps", "Use", "Type", "Ref", "Cast"):
            n = n["e"]
            continue
        if k == "Unary" and n.get("op") == "Deref":
            n = n["e"]
            continue
        if k == "Block" and not n.get("stmts") and "expr" in n:
            n = n["expr"]
            continue
        if k == "MethodCall" and n.get("method") in ("into", "clone", "to_owned", "as_ref", "borrow", "deref", "as_str") and not n.get("args"):
            n = n["recv"]
            continue
        if k == "Call":
            c = callee_generic(n)
            if c in ("std::boxed::Box::<T>::new", "std::convert::Into::into", "std::convert::From::from") and len(n["args"]) == 1 and c != "std::convert::From::from":
                n = n["args"][0]
                continue
        return n


def local_of(n):
    """Name of the local variable a (stripped) expression denotes, else None."""
    n = strip(n)
    if n.get("k") == "Path" and n.get("res", {}).get("r") == "local":
        return n["res"]["name"]
    return None


def local_id_of(n):
    n = strip(n)
    if n.get("k") == "Path" and n.get("res", {}).get("r") == "local":
        return n["res"]["id"]
    return None


def pat_variants(p):
    """Set of (adt, variant) a pattern matches at its top level; {('*','*')} for a catch-all."""
    k = p.get("p")
    if k in ("Wild",):
        return {("*", "*")}
    if k == "Bind":
        if "sub" in p:
            return pat_variants(p["sub"])
        return {("*", "*")}
    if k in ("Ref", "Box", "Deref", "Guard"):
        return pat_variants(p["pat"])
    if k == "Or":
        s = set()
        for q in p["pats"]:
            s |= pat_variants(q)
        return s
    if k in ("Struct", "TupleStruct", "Path"):
        r = p.get("res", {})
        if r.get("r") == "ctor":
            return {(r["adt"], r.get("variant"))}
        return {("?", json.dumps(r, sort_keys=True))}
    if k == "Lit":
        return {("lit", p.get("v"))}
    if k == "Tuple":
        return {("tuple", tuple(frozenset(pat_variants(q)) for q in p["pats"]))}
    return {("?", k)}


def pat_is_catch_all(p):
    return pat_variants(p) == {("*", "*")}


def pat_bindings(p):
    for n in walk(p):
        if n.get("p") == "Bind":
            yield n


def short(path):
    """Last two segments of a def path, for messages."""
    parts = path.split("::")
    return "::".join(parts[-2:])


def _fold_positional(src, names):
    """format!("{}_outline_{}", prefix, i) with prefix = "forward" reads format!("forward_outline_{}", i): a positional argument that is a
    parameter bound to a string literal at this call site is written into the template"""
    import re as _re
    m = _re.match(r'^(\s*[A-Za-z_][A-Za-z0-9_:]*!\s*\()(.*)\)\s*$', src, _re.S)
    if not m:
        return src
    head, inner = m.group(1), m.group(2)
    # split the macro arguments at top-level commas
    parts, cur, depth, in_str, esc = [], [], 0, False, False
    for ch in inner:
        if in_str:
            cur.append(ch)
            if esc:
                esc = False
            elif ch == "\\":
                esc = True
            elif ch == '"':
                in_str = False
            continue
        if ch == '"':
            in_str = True
        elif ch in "([{":
            depth += 1
        elif ch in ")]}":
            depth -= 1
        if ch == "," and depth == 0:
            parts.append("".join(cur))
            cur = []
        else:
            cur.append(ch)
    if "".join(cur).strip():
        parts.append("".join(cur))
    ti = next((i for i, p_ in enumerate(parts) if p_.strip().startswith('"')), None)
    if ti is None:
        return src
    tpl, args = parts[ti], parts[ti + 1:]
    if not any(a.strip() in names for a in args):
        return src
    pieces = _re.split(r"(\{\{|\}\}|\{[^{}]*\})", tpl)
    k, out, keep = 0, [], []
    for pc in pieces:
        if pc.startswith("{") and pc.endswith("}") and pc not in ("{{", "}}") and (pc[1:-1] == "" or pc[1:-1].startswith(":")):
            a = args[k] if k < len(args) else None
            if a is not None and a.strip() in names and pc == "{}":
                out.append(names[a.strip()].replace("{", "{{").replace("}", "}}"))
            else:
                out.append(pc)
                if a is not None:
                    keep.append(a)
            k += 1
        else:
            out.append(pc)
    keep += args[k:]
    return head + ",".join(parts[:ti] + ["".join(out)] + keep) + ")"


class Facts:
    def __init__(self, outdir, h):
        self.dir = outdir
        self.hash = h
        self.repo = repo_dir()
        with open(os.path.join(outdir, "facts-lib.json")) as fh:
            lib_text = fh.read()
        with open(os.path.join(outdir, "facts-bin.json")) as fh:
            bin_text = fh.read()
        self.lib = json.loads(lib_text)
        self.bin = json.loads(bin_text)
        self.renamed = self._renamed_functions()
        if self.renamed:
            # a function that was renamed or moved is read under the name the rules know it by
            for new_dp, old_dp in sorted(self.renamed.items(), key=lambda kv: -len(kv[0])):
                pat = re.compile(re.escape(new_dp) + r"(?![A-Za-z0-9_])")
                lib_text = pat.sub(lambda m_: old_dp, lib_text)
                bin_text = pat.sub(lambda m_: old_dp, bin_text)
            self.lib = json.loads(lib_text)
            self.bin = json.loads(bin_text)
            back = {old: new for new, old in self.renamed.items()}
            for src in (self.lib, self.bin):
                for b in src["bodies"]:
                    if b["def_path"] in back:
                        b["renamed_from"] = back[b["def_path"]]
                        b["name"] = b["def_path"].split("::")[-1]
                    for n in walk(b.get("body")):
                        if n.get("k") == "MethodCall" and callee(n) in back and n.get("method") == back[callee(n)].split("::")[-1]:
                            n["method"] = callee(n).split("::")[-1]
        self.grammars = {}
        for name in GRAMMARS:
            with open(os.path.join(outdir, "grammar-%s.json" % name)) as fh:
                g = json.load(fh)
            self.grammars[name] = {r["name"]: r for r in g["rules"]}
            self.grammars[name + "#order"] = [r["name"] for r in g["rules"]]
        self.bodies = {}
        self.body_list = []
        for b in self.lib["bodies"]:
            self.bodies.setdefault(b["def_path"], []).append(b)
            self.body_list.append(b)
        self.mir = {}
        for m in self.lib["mir"]:
            self.mir.setdefault(m["def_path"], []).append(m)
        self.adts = {a["path"]: a for a in self.lib["adts"]}
        self.impls = self.lib["impls"]
        self.helpers = set()   # def-paths of later-extracted helper functions whose bodies are attached to their call sites
        self._graft_helpers()

    def _renamed_functions(self):
        """{current def-path: def-path at the time the rules were written} for functions that were renamed (same module or impl, same
        signature, another name) or moved (same name and signature, another module).  Only unambiguous pairs: a function of the reference
        list (rules/known_signatures.json) that no longer exists, and exactly one function that did not exist then with its signature."""
        try:
            with open(os.path.join(os.path.dirname(os.path.abspath(__file__)), "known_signatures.json")) as fh:
                known = json.load(fh)
        except OSError:
            return {}
        cur = {}
        for src in (self.lib, self.bin):
            for b in src["bodies"]:
                if b.get("kind") in ("Fn", "AssocFn") and "{" not in b["def_path"]:
                    cur[b["def_path"]] = {"params": b.get("param_tys") or [p_.get("ty") for p_ in b.get("params", [])], "ret": b.get("ret_ty"), "kind": b["kind"]}
        missing = [k for k in known if k not in cur]
        fresh = [k for k in cur if k not in known]
        if not missing or not fresh:
            return {}

        def parent(dp):
            return dp.rsplit("::", 1)[0] if "::" in dp else ""

        def same_sig(a, b, old_parent, new_parent):
            # a type that names the moved item's own module is compared after re-rooting
            def fix(t):
                return str(t).replace(new_parent + "::", old_parent + "::") if new_parent and old_parent else str(t)
            return a["kind"] == b["kind"] and [str(x) for x in a["params"]] == [fix(x) for x in b["params"]] and str(a["ret"]) == fix(b["ret"])
        cand = {}
        for m in missing:
            cs = [f for f in fresh if (parent(f) == parent(m) or f.split("::")[-1] == m.split("::")[-1]) and same_sig(known[m], cur[f], parent(m), parent(f))]
            if len(cs) == 1:
                cand[m] = cs[0]
        out = {}
        for m, f in cand.items():
            if list(cand.values()).count(f) == 1:
                out[f] = m
        return out

    def _graft_helpers(self):
        """Helper transparency for the HIR-level rules: at every call of a crate-local function that did not exist when the rules were written
        (rules/known_functions.txt) the callee's body is attached to the call node under the key `inlined`, so that every walker sees the
        helper's code where it is called.  Recursive helpers are not grafted."""
        try:
            kp = os.path.join(os.path.dirname(os.path.abspath(__file__)), "known_functions.txt")
            with open(kp) as fh:
                known = {l.strip() for l in fh if l.strip() and not l.startswith("#")}
        except OSError:
            return
        new = {dp: bs[0] for dp, bs in self.bodies.items() if dp not in known and len(bs) == 1 and bs[0].get("kind") in ("Fn", "AssocFn") and "{" not in dp}
        if not new:
            return
        # call edges among the new helpers (to refuse cycles)
        calls = {}
        for dp, b in new.items():
            calls[dp] = {callee(n) for n in walk(b["body"]) if n.get("k") in ("Call", "MethodCall")} & set(new)

        def cyclic(dp, seen=()):
            if dp in seen:
                return True
            return any(cyclic(c, seen + (dp,)) for c in calls.get(dp, ()))
        ok = {dp for dp in new if not cyclic(dp)}
        self.helpers = ok
        import copy
        counter = [0]

        def graft_into(root, owner):
            for n in list(walk(root)):
                if n.get("k") in ("Call", "MethodCall") and "inlined" not in n:
                    c = callee(n)
                    if c in ok and c != owner:
                        cp = copy.deepcopy(new[c]["body"])   # one copy per call site (parent maps are keyed by node identity)
                        ren = {}

                        def fresh(i_):
                            if i_ not in ren:
                                counter[0] += 1
                                ren[i_] = 10000000 + counter[0]
                            return ren[i_]
                        for m in walk(cp):
                            if m.get("p") == "Bind" and isinstance(m.get("id"), int):
                                m["id"] = fresh(m["id"])
                            r_ = m.get("res")
                            if isinstance(r_, dict) and r_.get("r") == "local" and isinstance(r_.get("id"), int):
                                r_["id"] = fresh(r_["id"])
                        ps_ = copy.deepcopy(new[c].get("params", []))
                        for q_ in ps_:
                            for m in walk(q_):
                                if m.get("p") == "Bind" and isinstance(m.get("id"), int):
                                    m["id"] = fresh(m["id"])
                        n["inlined_params"] = ps_     # the helper's parameter patterns, with the ids they have in this copy
                        # literal arguments and plain locals / constants (possibly cloned or borrowed) are propagated into the copy: a parameterised
                        # helper called with ("left", left.clone()) reads like the code it was extracted from
                        arg_nodes = ([n["recv"]] + list(n.get("args", []))) if n.get("k") == "MethodCall" else list(n.get("args", []))
                        lits = {}

                        names = {}

                        def field_of_local(x):
                            x = strip(x) if isinstance(x, dict) else {}
                            while x.get("k") == "Field":
                                x = strip(x["e"])
                            return x.get("k") == "Path" and x.get("res", {}).get("r") == "local"

                        def bind_lit(pat, arg):
                            a_ = strip(arg) if isinstance(arg, dict) else {}
                            simple = a_.get("k") == "Lit" or (a_.get("k") == "Path" and a_.get("res", {}).get("r") in ("local", "const", "ctor", "static")) or \
                                (a_.get("k") == "Field" and field_of_local(a_))
                            if pat.get("p") == "Bind" and "sub" not in pat and simple and isinstance(pat.get("id"), int):
                                lits[fresh(pat["id"])] = arg if a_.get("k") != "Lit" else a_
                                if a_.get("k") == "Lit" and isinstance(a_.get("v"), (str, int)) and not isinstance(a_.get("v"), bool):
                                    names[pat.get("name")] = str(a_["v"])
                            elif pat.get("p") == "Tuple" and a_.get("k") in ("Tup", "Array") and len(pat.get("pats", [])) == len(a_.get("es", [])):
                                for q_, x_ in zip(pat["pats"], a_["es"]):
                                    bind_lit(q_, x_)
                        for pat, arg in zip(new[c].get("params", []), arg_nodes):
                            bind_lit(pat, arg)
                        # a parameter bound to a local that was just built as a struct literal (`let forward = ProofDirection { name: "forward",
                        # lemmas: self.proof_outline.forward_lemmas, .. }; forward.outline_problems(..)`): reads of its fields inside the helper
                        # are reads of what the fields were initialised with
                        for pat, arg in zip(new[c].get("params", []), arg_nodes):
                            a_ = strip(arg) if isinstance(arg, dict) else {}
                            while a_.get("k") in ("AddrOf", "Ref", "Unary") and isinstance(a_.get("e"), dict):
                                a_ = strip(a_["e"])
                            if not (pat.get("p") == "Bind" and isinstance(pat.get("id"), int) and a_.get("k") == "Path" and a_.get("res", {}).get("r") == "local"):
                                continue
                            init_ = None
                            for st_ in walk(root):
                                if st_.get("k") == "LetStmt" and st_.get("pat", {}).get("p") == "Bind" and st_["pat"].get("id") == a_["res"].get("id") and "init" in st_:
                                    init_ = strip(st_["init"])
                            if not (init_ and init_.get("k") == "Struct" and "base" not in init_):
                                continue
                            finit = {f_["name"]: f_["e"] for f_ in init_.get("fields", [])}

                            def simple_(x):
                                x = strip(x) if isinstance(x, dict) else {}
                                if x.get("k") == "Lit":
                                    return True
                                while x.get("k") == "Field":
                                    x = strip(x["e"])
                                return x.get("k") == "Path" and x.get("res", {}).get("r") in ("local", "const", "static")
                            pid_ = fresh(pat["id"])
                            for m in list(walk(cp)):
                                if m.get("k") == "Field" and m.get("name") in finit and simple_(finit[m["name"]]):
                                    base_ = strip(m["e"])
                                    if base_.get("k") == "Path" and base_.get("res", {}).get("r") == "local" and base_["res"].get("id") == pid_:
                                        fe_ = strip(finit[m["name"]])
                                        if fe_.get("k") == "Lit" and isinstance(fe_.get("v"), (str, int)) and not isinstance(fe_.get("v"), bool):
                                            names["%s.%s" % (pat.get("name"), m["name"])] = str(fe_["v"])
                                        line = m.get("line")
                                        repl = copy.deepcopy(finit[m["name"]])
                                        m.clear()
                                        m.update(repl)
                                        if line is not None:
                                            m["line"] = line
                        # `let label = self.label;` with the field known to be "forward": the local names that literal in the templates below it
                        for st_ in walk(cp):
                            if st_.get("k") == "LetStmt" and st_.get("pat", {}).get("p") == "Bind" and "sub" not in st_["pat"] and "Mut" not in str(st_["pat"].get("mode", "")) \
                                    and isinstance(st_.get("init"), dict) and strip(st_["init"]).get("k") == "Lit" and isinstance(strip(st_["init"]).get("v"), str):
                                names.setdefault(st_["pat"].get("name"), strip(st_["init"])["v"])
                        if names:
                            # format!("{direction}_outline_{i}") with direction = "forward" reads format!("forward_outline_{i}")
                            import re as _re
                            for m in walk(cp):
                                if isinstance(m.get("mac_src"), str) and "{" in m["mac_src"]:
                                    for nm_, txt in names.items():
                                        m["mac_src"] = _re.sub(r"(?<!\{)\{%s\}(?!\})" % _re.escape(nm_), txt.replace("{", "{{").replace("}", "}}").replace("\\", "\\\\"), m["mac_src"])
                                    m["mac_src"] = _fold_positional(m["mac_src"], names)
                        if lits:
                            for m in list(walk(cp)):
                                r_ = m.get("res")
                                if m.get("k") == "Path" and isinstance(r_, dict) and r_.get("r") == "local" and r_.get("id") in lits:
                                    lit = copy.deepcopy(lits[r_["id"]])
                                    line = m.get("line")
                                    m.clear()
                                    m.update(lit)
                                    if line is not None:
                                        m["line"] = line
                        # local ids are per function: keep the helper's locals apart from the caller's (and from other copies)
                        n["inlined"] = cp
        # callees first, so that a copied helper body already carries the bodies of the helpers it calls
        done = set()

        def visit(dp):
            if dp in done:
                return
            done.add(dp)
            for c in calls.get(dp, ()):
                if c in ok:
                    visit(c)
            graft_into(new[dp]["body"], dp)
        for dp in sorted(ok):
            visit(dp)
        for b in self.body_list:
            if "::tests::" in b["def_path"] or b["def_path"] in ok:
                continue
            graft_into(b["body"], b["def_path"])
        # whole-crate iterations (`for b in fx.body_list`) meet a helper's code at its call sites only; the helper itself stays available by
        # def-path (self.bodies) for the symbolic evaluator, which inlines it
        self.all_bodies = list(self.body_list)
        self.body_list = [b for b in self.body_list if b["def_path"] not in ok]

    # ---- anchors (fail closed)
    def fn(self, suffix, impl_self=None, impl_trait=None):
        """The unique body whose def path ends with `suffix` (optionally inside an impl for the
        given self type / trait).  Missing or ambiguous anchor => AnalysisGap."""
        c = self.fns(suffix, impl_self, impl_trait)
        if len(c) != 1:
            raise AnalysisGap("anchor %s%s: expected exactly one body, found %d" % (
                suffix, (" in impl %s for %s" % (impl_trait, impl_self)) if (impl_self or impl_trait) else "", len(c)))
        return c[0]

    def fns(self, suffix, impl_self=None, impl_trait=None):
        out = []
        for b in self.body_list:
            dp = b["def_path"]
            if dp == suffix or dp.endswith("::" + suffix) or (suffix.startswith("<") and dp.endswith(suffix)):
                if impl_self is not None and (b.get("impl", {}).get("self_ty") != impl_self):
                    continue
                if impl_trait is not None and (b.get("impl", {}).get("trait") != impl_trait):
                    continue
                out.append(b)
        return out

    def fns_in_file(self, file, user_only=True):
        out = []
        for b in self.body_list:
            if b["file"] == file:
                if user_only and b["body"].get("mac", "").startswith("#"):
                    continue
                out.append(b)
        return out

    def adt(self, suffix):
        c = [a for p, a in self.adts.items() if p == suffix or p.endswith("::" + suffix)]
        if len(c) != 1:
            raise AnalysisGap("ADT anchor %s: expected exactly one, found %d" % (suffix, len(c)))
        return c[0]

    def variants(self, suffix):
        return [v["name"] for v in self.adt(suffix)["variants"]]

    def mir_of(self, def_path):
        c = self.mir.get(def_path, [])
        if len(c) != 1:
            raise AnalysisGap("MIR anchor %s: expected exactly one, found %d" % (def_path, len(c)))
        return c[0]

    def read_source(self, rel):
        p = os.path.join(self.repo, rel)
        try:
            with open(p) as fh:
                return fh.read()
        except OSError:
            raise AnalysisGap("source file %s missing" % rel)

    def counts(self):
        n_match = n_call = n_ctor = n_mac = 0
        for b in self.body_list:
            for n in walk(b["body"]):
                k = n.get("k")
                if k == "Match":
                    n_match += 1
                elif k in ("Call", "MethodCall"):
                    n_call += 1
                    if ctor_of(n):
                        n_ctor += 1
                elif k == "Struct":
                    n_ctor += 1
                if "mac_src" in n:
                    n_mac += 1
        return {"bodies": len(self.body_list), "mir_bodies": len(self.lib["mir"]), "matches": n_match,
                "call_sites": n_call, "adt_constructions": n_ctor, "macro_call_sites": n_mac,
                "adts": len(self.adts), "impls": len(self.impls),
                "grammar_rules_asp": len(self.grammars["asp"]), "grammar_rules_fol": len(self.grammars["fol"])}


def load():
    outdir, h = ensure()
    key = outdir
    if key not in _CACHE:
        _CACHE[key] = Facts(outdir, h)
    return _CACHE[key]
