"""Small regular-language toolkit over a finite ASCII alphabet: regex AST -> NFA, product emptiness with witness.

AST:  ('lit', 'abc') | ('cls', frozenset(chars)) | ('seq', [r..]) | ('alt', [r..]) | ('star', r) | ('plus', r) | ('opt', r) | ('eps',)
"""
import string

ALPHABET = frozenset(string.printable[:95])  # printable ASCII incl. space
LOWER = frozenset(string.ascii_lowercase)
UPPER = frozenset(string.ascii_uppercase)
DIGIT = frozenset(string.digits)
ALNUM = LOWER | UPPER | DIGIT


def lit(s):
    return ("lit", s)


def cls(chars):
    return ("cls", frozenset(chars))


def seq(*rs):
    return ("seq", list(rs))


def alt(*rs):
    return ("alt", list(rs))


def star(r):
    return ("star", r)


def plus(r):
    return ("plus", r)


def opt(r):
    return ("opt", r)


class NFA:
    def __init__(self):
        self.n = 0
        self.eps = {}
        self.trans = {}  # state -> list of (charset, target)
        self.start = None
        self.accept = None

    def new(self):
        s = self.n
        self.n += 1
        self.eps[s] = set()
        self.trans[s] = []
        return s


def build(r):
    nfa = NFA()

    def go(r):
        k = r[0]
        a, b = nfa.new(), nfa.new()
        if k == "eps":
            nfa.eps[a].add(b)
        elif k == "lit":
            cur = a
            for ch in r[1]:
                nx = nfa.new()
                nfa.trans[cur].append((frozenset([ch]), nx))
                cur = nx
            nfa.eps[cur].add(b)
        elif k == "cls":
            nfa.trans[a].append((r[1], b))
        elif k == "seq":
            cur = a
            for x in r[1]:
                s, e = go(x)
                nfa.eps[cur].add(s)
                cur = e
            nfa.eps[cur].add(b)
        elif k == "alt":
            for x in r[1]:
                s, e = go(x)
                nfa.eps[a].add(s)
                nfa.eps[e].add(b)
        elif k in ("star", "plus", "opt"):
            s, e = go(r[1])
            nfa.eps[a].add(s)
            nfa.eps[e].add(b)
            if k in ("star", "opt"):
                nfa.eps[a].add(b)
            if k in ("star", "plus"):
                nfa.eps[e].add(s)
        else:
            raise ValueError("regex node %r" % (r,))
        return a, b

    nfa.start, nfa.accept = go(r)
    return nfa


def closure(nfa, states):
    out = set(states)
    todo = list(states)
    while todo:
        s = todo.pop()
        for t in nfa.eps[s]:
            if t not in out:
                out.add(t)
                todo.append(t)
    return frozenset(out)


def intersect_witness(r1, r2, max_len=40):
    """Shortest string in L(r1) & L(r2), or None."""
    a, b = build(r1), build(r2)
    start = (closure(a, {a.start}), closure(b, {b.start}))
    seen = {start: ""}
    frontier = [start]
    while frontier:
        nxt = []
        for (sa, sb) in frontier:
            w = seen[(sa, sb)]
            if a.accept in sa and b.accept in sb:
                return w
            if len(w) >= max_len:
                continue
            # candidate characters: those with transitions on both sides
            chars_a = {}
            for s in sa:
                for cs, t in a.trans[s]:
                    for ch in cs:
                        chars_a.setdefault(ch, set()).add(t)
            chars_b = {}
            for s in sb:
                for cs, t in b.trans[s]:
                    for ch in cs:
                        chars_b.setdefault(ch, set()).add(t)
            for ch in sorted(set(chars_a) & set(chars_b)):
                st = (closure(a, chars_a[ch]), closure(b, chars_b[ch]))
                if st not in seen:
                    seen[st] = w + ch
                    nxt.append(st)
        frontier = nxt
    return None


def matches(r, s):
    n = build(r)
    cur = closure(n, {n.start})
    for ch in s:
        nx = set()
        for st in cur:
            for cs, t in n.trans[st]:
                if ch in cs:
                    nx.add(t)
        cur = closure(n, nx)
        if not cur:
            return False
    return n.accept in cur


BUILTIN = {"ASCII_ALPHA_LOWER": LOWER, "ASCII_ALPHA_UPPER": UPPER, "ASCII_ALPHANUMERIC": ALNUM, "ASCII_DIGIT": DIGIT,
           "ASCII_NONZERO_DIGIT": frozenset("123456789"), "ASCII_ALPHA": LOWER | UPPER, "ANY": ALPHABET, "NEWLINE": frozenset("\n")}


def rule_language(name, rules):
    """the strings a pair of rule `name` can span.  In a normal (non-atomic) rule pest skips WHITESPACE / COMMENT between the elements of a
    sequence and between repetitions, so blanks and comments are part of the pair's text; atomic (`@`) and compound-atomic (`$`) rules do not."""
    r = rules[name]
    if r.get("ty") in ("atomic", "compound_atomic", "compound-atomic", "CompoundAtomic", "Atomic"):
        return from_pest(r["expr"], rules)
    skip = []
    for w in ("WHITESPACE", "COMMENT"):
        if w in rules:
            try:
                skip.append(from_pest(rules[w]["expr"], rules))
            except ValueError:
                skip.append(star(cls(chr(c) for c in range(32, 127))))
    if not skip:
        return from_pest(r["expr"], rules)
    ws = star(alt(*skip) if len(skip) > 1 else skip[0])
    return from_pest(r["expr"], rules, ws=ws)


def from_pest(expr, rules, depth=0, ignore_neg=True, ws=None):
    """Regular over-approximation of a (non-recursive) pest expression: negative predicates are dropped.  ws: the implicit skip language
    inserted between sequence elements and repetitions of a non-atomic rule (nested rule references keep their own kind)."""
    if depth > 30:
        raise ValueError("recursive rule")
    k = expr["e"]
    if ws is not None:
        if k == "seq":
            return seq(from_pest(expr["a"], rules, depth + 1, ws=ws), ws, from_pest(expr["b"], rules, depth + 1, ws=ws))
        if k == "rep":
            x = from_pest(expr["x"], rules, depth + 1, ws=ws)
            return opt(seq(x, star(seq(ws, x))))
        if k == "rep1":
            x = from_pest(expr["x"], rules, depth + 1, ws=ws)
            return seq(x, star(seq(ws, x)))
        if k in ("choice", "opt"):
            if k == "choice":
                return alt(from_pest(expr["a"], rules, depth + 1, ws=ws), from_pest(expr["b"], rules, depth + 1, ws=ws))
            return opt(from_pest(expr["x"], rules, depth + 1, ws=ws))
        if k == "ident" and expr["v"] in rules and expr["v"] not in BUILTIN:
            return rule_language(expr["v"], rules)
    if k == "str":
        return lit(expr["v"])
    if k == "range":
        return cls(chr(c) for c in range(ord(expr["lo"]), ord(expr["hi"]) + 1))
    if k == "ident":
        if expr["v"] in BUILTIN:
            return cls(BUILTIN[expr["v"]])
        if expr["v"] == "EOI":
            return ("eps",)
        return from_pest(rules[expr["v"]]["expr"], rules, depth + 1)
    if k == "seq":
        return seq(from_pest(expr["a"], rules, depth + 1), from_pest(expr["b"], rules, depth + 1))
    if k == "choice":
        return alt(from_pest(expr["a"], rules, depth + 1), from_pest(expr["b"], rules, depth + 1))
    if k == "opt":
        return opt(from_pest(expr["x"], rules, depth + 1))
    if k == "rep":
        return star(from_pest(expr["x"], rules, depth + 1))
    if k == "rep1":
        return plus(from_pest(expr["x"], rules, depth + 1))
    if k in ("neg", "pos"):
        return ("eps",)
    if k == "repn":
        x = from_pest(expr["x"], rules, depth + 1)
        lo, hi = expr["min"], expr["max"]
        parts = [x] * lo
        if hi is None:
            parts.append(star(x))
        else:
            parts += [opt(x)] * (hi - lo)
        return seq(*parts) if parts else ("eps",)
    raise ValueError("pest node %s" % k)


# ---------------------------------------------------------------------------------------
# a small parser for the regex-crate syntax subset used in the repository, and language difference

def parse_regex(src):
    """-> (ast of the *whole-string* language, anchored_start, anchored_end, group names).  Unanchored ends are padded with ANY*.
    Supported: literals, escapes \\d \\w \\. etc., classes [a-z0-9_], groups (..), (?<n>..), (?P<n>..), (?:..), | * + ?"""
    pos = [0]
    groups = []

    def peek():
        return src[pos[0]] if pos[0] < len(src) else None

    def eat():
        ch = src[pos[0]]
        pos[0] += 1
        return ch

    def alt_():
        items = [seq_()]
        while peek() == "|":
            eat()
            items.append(seq_())
        return items[0] if len(items) == 1 else ("alt", items)

    def seq_():
        items = []
        while peek() is not None and peek() not in "|)":
            items.append(rep_())
        return ("seq", items) if len(items) != 1 else items[0]

    def rep_():
        a = atom_()
        while peek() in ("*", "+", "?"):
            op = eat()
            a = {"*": star, "+": plus, "?": opt}[op](a)
        return a

    def esc(ch):
        if ch == "d":
            return ("cls", DIGIT)
        if ch == "w":
            return ("cls", ALNUM | frozenset("_"))
        if ch == "s":
            return ("cls", frozenset(" \t\n\r"))
        return ("lit", ch)

    def atom_():
        ch = eat()
        if ch == "(":
            if src.startswith("?<", pos[0]) or src.startswith("?P<", pos[0]):
                pos[0] = src.index("<", pos[0]) + 1
                end = src.index(">", pos[0])
                groups.append(src[pos[0]:end])
                pos[0] = end + 1
            elif src.startswith("?:", pos[0]):
                pos[0] += 2
            r = alt_()
            if eat() != ")":
                raise ValueError("unbalanced group in %r" % src)
            return r
        if ch == "[":
            neg = False
            if peek() == "^":
                eat()
                neg = True
            chars = set()
            while peek() != "]":
                if src.startswith("[:", pos[0]) and ":]" in src[pos[0]:]:
                    end = src.index(":]", pos[0])
                    name = src[pos[0] + 2:end]
                    posix = {"word": ALNUM | frozenset("_"), "alnum": ALNUM, "digit": DIGIT, "space": frozenset(" \t\n\r"),
                             "alpha": ALNUM - DIGIT, "upper": frozenset(c_ for c_ in ALNUM if c_.isupper()), "lower": frozenset(c_ for c_ in ALNUM if c_.islower())}
                    if name not in posix:
                        raise ValueError("character class [:%s:] in %r" % (name, src))
                    chars |= set(posix[name])
                    pos[0] = end + 2
                    continue
                c = eat()
                if c == "\\":
                    e = esc(eat())
                    chars |= set(e[1]) if e[0] == "cls" else {e[1]}
                    continue
                if peek() == "-" and src[pos[0] + 1] != "]":
                    eat()
                    hi = eat()
                    chars |= {chr(x) for x in range(ord(c), ord(hi) + 1)}
                else:
                    chars.add(c)
            eat()
            return ("cls", frozenset(ALPHABET - chars if neg else chars))
        if ch == "\\":
            return esc(eat())
        if ch == ".":
            return ("cls", ALPHABET - frozenset("\n"))
        if ch in "^$":
            raise ValueError("anchor inside the expression: %r" % src)
        return ("lit", ch)

    s = src
    a_start = s.startswith("^")
    a_end = s.endswith("$") and not s.endswith("\\$")
    src = s[1 if a_start else 0: len(s) - 1 if a_end else len(s)]
    body = alt_()
    if pos[0] != len(src):
        raise ValueError("cannot parse regex %r" % s)
    parts = ([] if a_start else [star(("cls", ALPHABET))]) + [body] + ([] if a_end else [star(("cls", ALPHABET))])
    return (("seq", parts), a_start, a_end, groups)


def _dfa_step(n, cur, ch):
    nx = set()
    for st in cur:
        for cs, t in n.trans[st]:
            if ch in cs:
                nx.add(t)
    return closure(n, nx)


def difference_witness(r1, r2, alphabet=None, max_states=20000):
    """A string accepted by exactly one of r1, r2 (shortest), or None when the languages are equal over `alphabet`."""
    a, b = build(r1), build(r2)
    alphabet = sorted(alphabet or ALPHABET)
    start = (closure(a, {a.start}), closure(b, {b.start}))
    seen = {start: ""}
    frontier = [start]
    while frontier:
        nxt = []
        for st in frontier:
            sa, sb = st
            if (a.accept in sa) != (b.accept in sb):
                return seen[st]
            for ch in alphabet:
                t = (_dfa_step(a, sa, ch), _dfa_step(b, sb, ch))
                if t not in seen:
                    seen[t] = seen[st] + ch
                    nxt.append(t)
                    if len(seen) > max_states:
                        raise ValueError("state explosion")
        frontier = nxt
    return None


def subset_witness(r1, r2, alphabet=None, max_states=20000):
    """A shortest string in L(r1) \\ L(r2), or None when L(r1) is a subset of L(r2) (over `alphabet`)."""
    a, b = build(r1), build(r2)
    alphabet = sorted(alphabet or ALPHABET)
    start = (closure(a, {a.start}), closure(b, {b.start}))
    seen = {start: ""}
    frontier = [start]
    while frontier:
        nxt = []
        for st in frontier:
            sa, sb = st
            if a.accept in sa and b.accept not in sb:
                return seen[st]
            for ch in alphabet:
                ta = _dfa_step(a, sa, ch)
                if not ta:
                    continue
                t = (ta, _dfa_step(b, sb, ch))
                if t not in seen:
                    seen[t] = seen[st] + ch
                    nxt.append(t)
                    if len(seen) > max_states:
                        raise ValueError("state explosion")
        frontier = nxt
    return None
