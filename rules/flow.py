"""Summaries of expressions as callee pipelines, value pipelines of locals, and a tiny partial evaluator for
matches over finite enums (used to extract routing tables for every combination of role / direction / flag)."""
import re

from .facts import AnalysisGap, callee, callee_generic, ctor_of, local_id_of, local_of, pat_bindings, pat_variants, strip, walk
from . import hq

ADAPTORS = {"into_iter", "iter", "iter_mut", "collect", "clone", "cloned", "copied", "into", "as_ref", "to_owned", "to_vec", "by_ref",
            "collect_vec", "borrow", "as_str", "to_string", "deref", "as_slice", "as_mut_slice"}


def short(c):
    if not c:
        return "?"
    c = re.sub(r"<impl [^>]*>", "", c)
    while True:
        c2 = re.sub(r"<[^<>]*>", "", c)
        if c2 == c:
            break
        c = c2
    c = c.replace("::::", "::").strip(":")
    parts = [p for p in c.split("::") if p and p != "as"]
    return "::".join(parts[-2:])


def summ(e, keep_adaptors=False, depth=0):
    """Expression -> summary term."""
    if depth > 40:
        return ("deep",)
    e0 = e
    k = e.get("k")
    if k in ("DropTemps", "Use", "Type", "Ref", "Cast"):
        return summ(e["e"], keep_adaptors, depth + 1)
    if k == "Unary":
        if e.get("op") == "Deref":
            return summ(e["e"], keep_adaptors, depth + 1)
        return ("op", e["op"], summ(e["e"], keep_adaptors, depth + 1))
    if k == "Block":
        if "mac_src" in e and e.get("mac") in ("unreachable", "panic", "todo", "unimplemented"):
            return ("panic", e["mac"])
        if "mac_src" in e and e.get("mac") in ("format",):
            return ("format", hq.macro_template(e["mac_src"]))
        if not e.get("stmts") and "expr" in e:
            return summ(e["expr"], keep_adaptors, depth + 1)
        return ("block", tuple(summ(hq.stmt_expr(s), keep_adaptors, depth + 1) for s in hq.stmts_of(e) if hq.stmt_expr(s) is not None))
    if k == "Lit":
        return ("lit", e.get("v"))
    if k == "Path":
        r = e.get("res", {})
        if r.get("r") == "local":
            return ("local", r["name"], r["id"])
        if r.get("r") == "ctor":
            return ("ctor", "%s::%s" % (hq.last(r["adt"]), r.get("variant")) if r.get("variant") else hq.last(r["adt"]), ())
        if r.get("r") == "def":
            if r.get("kind", "").startswith(("Const", "Static", "AssocConst")):
                return ("const", hq.last(r["path"]))
            return ("fn", short(e.get("callee_res") or e.get("callee") or r["path"]))
        return ("path", str(r))
    if k == "Field":
        fp = hq.field_path(e)
        if fp:
            return ("place", fp)
        return ("field", summ(e["e"], keep_adaptors, depth + 1), e["name"])
    if k == "MethodCall":
        recv = summ(e["recv"], keep_adaptors, depth + 1)
        m = e["method"]
        if not keep_adaptors and m in ADAPTORS and not e["args"]:
            return recv
        c = short(callee_generic(e))
        return ("call", c, (recv,) + tuple(summ(a, keep_adaptors, depth + 1) for a in e["args"]))
    if k == "Call":
        c = ctor_of(e)
        if c:
            name = "%s::%s" % (hq.last(c[0]), c[1]) if c[1] else hq.last(c[0])
            return ("ctor", name, tuple(summ(a, keep_adaptors, depth + 1) for a in e["args"]))
        g = callee_generic(e)
        if g in ("std::boxed::Box::<T>::new",) or (g or "").endswith("convert::Into::into") or (g or "").endswith("IntoIterator::into_iter"):
            return summ(e["args"][0], keep_adaptors, depth + 1)
        if g is None:
            return ("callv", summ(e["f"], keep_adaptors, depth + 1), tuple(summ(a, keep_adaptors, depth + 1) for a in e["args"]))
        return ("call", short(g), tuple(summ(a, keep_adaptors, depth + 1) for a in e["args"]))
    if k == "Struct":
        r = e.get("res", {})
        name = "%s::%s" % (hq.last(r.get("adt", "?")), r.get("variant")) if r.get("variant") else hq.last(r.get("adt", "?"))
        return ("ctor", name, tuple((f["name"], summ(f["e"], keep_adaptors, depth + 1)) for f in e["fields"]))
    if k == "Closure":
        return ("closure", summ(e["body"], keep_adaptors, depth + 1))
    if k == "Match":
        if str(e.get("src", "")).startswith("TryDesugar"):
            # `x?`
            inner = e["scrut"]["args"][0] if e["scrut"].get("k") == "Call" else e["scrut"]
            return ("try", summ(inner, keep_adaptors, depth + 1))
        return ("match", summ(e["scrut"], keep_adaptors, depth + 1),
                tuple((hq.pat_key(a["pat"]), summ(a["body"], keep_adaptors, depth + 1)) for a in e["arms"]))
    if k == "If":
        return ("if", summ(e["cond"], keep_adaptors, depth + 1), summ(e["then"], keep_adaptors, depth + 1),
                summ(e["else"], keep_adaptors, depth + 1) if "else" in e else ("unit",))
    if k in ("Array", "Tup"):
        return ("list", tuple(summ(x, keep_adaptors, depth + 1) for x in e["es"]))
    if k == "Binary":
        return ("bin", e["op"], summ(e["l"], keep_adaptors, depth + 1), summ(e["r"], keep_adaptors, depth + 1))
    if k == "Index":
        return ("index", summ(e["e"], keep_adaptors, depth + 1), summ(e["idx"], keep_adaptors, depth + 1))
    if k == "Ret":
        return ("ret", summ(e["e"], keep_adaptors, depth + 1) if "e" in e else ("unit",))
    if k == "Assign":
        return ("assign", summ(e["l"], keep_adaptors, depth + 1), summ(e["r"], keep_adaptors, depth + 1))
    return ("other", k)


def sub_terms(t):
    yield t
    if isinstance(t, tuple):
        for x in t:
            if isinstance(x, tuple):
                yield from sub_terms(x)


def callees_in(t):
    return [x[1] for x in sub_terms(t) if isinstance(x, tuple) and x and x[0] in ("call",) and isinstance(x[1], str)] + \
           [x[1] for x in sub_terms(t) if isinstance(x, tuple) and x and x[0] == "fn"]


def expand_helpers(fx, callees, depth=0):
    """callee names with later-extracted helpers (facts.helpers) replaced by what those helpers call themselves (transitively)"""
    out = []
    for c in callees:
        hs = [h for h in getattr(fx, "helpers", ()) if h == c or h.endswith("::" + c)]
        if len(hs) == 1 and depth < 4 and hs[0] in fx.bodies:
            inner = callees_in(summ(fx.bodies[hs[0]][0]["body"]))
            out += expand_helpers(fx, inner, depth + 1)
        else:
            out.append(c)
    return out


def consts_in(t):
    return [x[1] for x in sub_terms(t) if isinstance(x, tuple) and len(x) == 2 and x[0] == "const"]


def places_in(t):
    return [x[1] for x in sub_terms(t) if isinstance(x, tuple) and len(x) == 2 and x[0] == "place"]


def locals_in(t):
    return [(x[1], x[2]) for x in sub_terms(t) if isinstance(x, tuple) and len(x) == 3 and x[0] == "local"]


def cond_key(c):
    """Canonical key of a branch condition: place path, negation, or matches!-pattern set."""
    c = strip(c)
    if c.get("k") == "Unary" and c.get("op") == "Not":
        return "!" + cond_key(c["e"])
    fp = hq.field_path(c)
    if fp:
        return fp
    if c.get("k") == "Match" and c.get("mac") == "matches":
        pats = sorted(hq.pat_key(p) for a in c["arms"][:1] for p in hq.or_alternatives(a["pat"]))
        return "%s in {%s}" % (hq.field_path(c["scrut"]) or hq.render(c["scrut"]), ",".join(pats))
    return hq.render(c)


def walk_cond(e, conds=()):
    """Yield (node, conds) for every node, where conds is the tuple of (cond key, branch) guarding it
    (if/else branches and match arms of `Normal` matches)."""
    if isinstance(e, list):
        for x in e:
            yield from walk_cond(x, conds)
        return
    if not isinstance(e, dict):
        return
    yield e, conds
    k = e.get("k")
    if k == "If":
        ck = cond_key(e["cond"])
        yield from walk_cond(e["cond"], conds)
        yield from walk_cond(e["then"], conds + ((ck, True),))
        if "else" in e:
            yield from walk_cond(e["else"], conds + ((ck, False),))
        return
    if k == "Match" and e.get("src") == "Normal" and e.get("mac") != "matches":
        sk = hq.field_path(e["scrut"]) or hq.render(e["scrut"])
        yield from walk_cond(e["scrut"], conds)
        for a in e["arms"]:
            yield from walk_cond(a["body"], conds + (("%s ~ %s" % (sk, hq.pat_key(a["pat"])), True),))
            if "guard" in a:
                yield from walk_cond(a["guard"], conds)
        return
    for key, v in e.items():
        if isinstance(v, (dict, list)):
            yield from walk_cond(v, conds)


MUTATING = {"retain", "retain_mut", "push", "insert", "remove", "clear", "truncate", "extend", "append", "sort", "sort_by", "sort_unstable", "drain", "pop", "dedup",
            "swap_remove", "shift_remove", "reverse", "rotate_left", "rotate_right", "swap", "split_off", "resize", "fill"}


def _root_local_id(e):
    cur = strip(e)
    while cur.get("k") in ("Field", "Index"):
        cur = strip(cur["e"])
    if cur.get("k") == "Path" and cur.get("res", {}).get("r") == "local":
        return cur["res"]["id"]
    return None


def pipeline(body, local_id, mutations=False):
    """Ordered list of (conds, summary) of the values given to a local: its initialiser and every assignment;
    in the summaries the local itself appears as ('local', name, id).  With mutations=True, in-place changes (a mutating method on the
    local or on one of its fields, an assignment to one of its fields) are steps too: ('call', 'mutate:<method>', args)."""
    steps = []
    for n, conds in walk_cond(body):
        if n.get("k") == "LetStmt" and n["pat"].get("p") == "Bind" and n["pat"]["id"] == local_id and "init" in n:
            steps.append((conds, summ(n["init"]), n))
        elif n.get("k") == "Assign" and local_id_of(n["l"]) == local_id:
            steps.append((conds, summ(n["r"]), n))
        elif mutations and n.get("k") in ("Assign", "AssignOp") and strip(n["l"]).get("k") in ("Field", "Index") and _root_local_id(n["l"]) == local_id:
            steps.append((conds, ("call", "mutate:assign-field", (summ(n["r"]),)), n))
        elif mutations and n.get("k") == "MethodCall" and n.get("method") in MUTATING and _root_local_id(n["recv"]) == local_id:
            steps.append((conds, ("call", "mutate:%s" % n["method"], tuple(summ(a) for a in n.get("args", []))), n))
    return steps


def rename_term(t, mapping):
    """Structural renaming of place / local names inside a summary (for sibling / mirror comparison)."""
    if isinstance(t, tuple):
        if len(t) == 2 and t[0] == "place":
            return ("place", mapping.get(t[1], t[1]))
        if len(t) == 3 and t[0] == "local":
            return ("local", mapping.get(t[1], t[1]), 0)
        return tuple(rename_term(x, mapping) for x in t)
    if isinstance(t, str):
        return mapping.get(t, t)
    return t


def strip_ids(t):
    if isinstance(t, tuple):
        if len(t) == 3 and t[0] == "local":
            return ("local", t[1], 0)
        return tuple(strip_ids(x) for x in t)
    return t


# ---------------------------------------------------------------------------------------
# partial evaluation over finite enums


class Unknown(Exception):
    pass


def eval_cond(c, env):
    c = strip(c)
    k = c.get("k")
    if k == "Unary" and c.get("op") == "Not":
        return not eval_cond(c["e"], env)
    if k == "Lit" and isinstance(c.get("v"), bool):
        return c["v"]
    fp = hq.field_path(c)
    if fp is not None and fp in env:
        return env[fp]
    if k == "Match" and c.get("mac") == "matches":
        sk = hq.field_path(c["scrut"])
        if sk in env:
            vs = pat_variants(c["arms"][0]["pat"])
            return any(v[1] == env[sk] or v == ("*", "*") for v in vs)
    if k == "Binary" and c.get("op") in ("And", "Or"):
        l, r = eval_cond(c["l"], env), eval_cond(c["r"], env)
        return (l and r) if c["op"] == "And" else (l or r)
    raise Unknown("condition not decidable from the enumerated values: %s" % hq.render(c))


def effects(e, env, on_effect, loop=()):
    """Execute statement-expression e under env (place path -> variant name / bool), calling on_effect(node, loop)
    for every method call statement reached (push / extend / ...), following the selected branches only."""
    if e is None:
        return
    k = e.get("k")
    if e.get("mac") in ("unreachable", "panic", "todo", "unimplemented") and e.get("ty") == "!":
        on_effect({"k": "Panic", "mac": e["mac"], "line": e.get("line")}, loop)
        return
    if k in ("DropTemps", "Use", "Type"):
        return effects(e["e"], env, on_effect, loop)
    if k == "Block":
        if "mac_src" in e and e.get("mac") in ("unreachable", "panic", "todo", "unimplemented"):
            on_effect({"k": "Panic", "mac": e["mac"], "line": e.get("line")}, loop)
            return
        for s in hq.stmts_of(e):
            x = hq.stmt_expr(s)
            if s["k"] == "LetStmt":
                if x is not None and x.get("k") in ("Match", "If", "Block"):
                    effects(x, env, on_effect, loop)
                continue
            effects(x, env, on_effect, loop)
        return
    if k == "If":
        v = eval_cond(e["cond"], env)
        if v:
            effects(e["then"], env, on_effect, loop)
        elif "else" in e:
            effects(e["else"], env, on_effect, loop)
        return
    if k == "Match":
        if e.get("src") == "ForLoopDesugar":
            for (m, iterable, pat, body) in hq.for_loops({"x": e}):
                if m is e:
                    effects(body, env, on_effect, loop + ((iterable, pat),))
            return
        if str(e.get("src", "")).startswith("TryDesugar"):
            inner = e["scrut"]["args"][0] if e["scrut"].get("k") == "Call" else e["scrut"]
            return effects(inner, env, on_effect, loop)
        sk = hq.field_path(e["scrut"])
        if sk is None or sk not in env:
            raise Unknown("match scrutinee not enumerated: %s" % hq.render(e["scrut"]))
        val = env[sk]
        for a in e["arms"]:
            vs = pat_variants(a["pat"])
            if any(v[1] == val or v == ("*", "*") for v in vs):
                effects(a["body"], env, on_effect, loop)
                return
        raise Unknown("no arm for %s = %s" % (sk, val))
    if k in ("MethodCall", "Call"):
        on_effect(e, loop)
        return
    if k == "Assign":
        on_effect(e, loop)
        return
    if k in ("Ret", "Break", "Continue", "Path", "Lit", "Tup"):
        if k == "Ret":
            on_effect(e, loop)
        return
    raise Unknown("statement kind %s" % k)
