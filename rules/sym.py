"""TPL: template extraction by forward evaluation of typed HIR over a term domain (constant propagation; no path
condition is solved, every arm of a match is kept).

Terms (hashable tuples):
  ('param', name)                              function / closure parameter
  ('lit', v) ('const', name) ('fn', callee)
  ('place', 'self.a.b')                        field path rooted in a parameter that is not rebound
  ('fieldof', T, name)
  ('ctor', 'Adt::Variant', ((field, T), ...))  struct / enum literal (tuple fields are named '0', '1', ...)
  ('call', callee, (T, ...))                   call kept symbolic (receiver first)
  ('closure', (param names), T)
  ('match', T, ((pattern key, T), ...))        every arm kept; bindings of the pattern appear as ('bind', name, T_scrut)
  ('if', Tc, Tt, Te)
  ('list', (T, ...))                           vec![..] / array / tuple
  ('upd', T_prev, method, (T, ...))            in-place update of a local (push / insert / extend / ...)
  ('each', T)                                  the element bound by `for x in T` / closure over an iterator
  ('phi', key, ((label, T), ...))              value of a local after a branching statement
  ('try', T)                                   `T?`
  ('panic', macro) ('unknown', why)
"""
import re

from .facts import AnalysisGap, callee, callee_generic, ctor_of, pat_bindings, strip
from . import hq
from .flow import ADAPTORS, short

MUTATORS = {"push", "insert", "extend", "append", "push_str", "insert_str", "sort", "sort_unstable", "retain", "dedup",
            "shift_remove", "swap_remove", "remove", "clear", "truncate", "drain", "pop", "next", "update_edge", "add_node",
            "execute", "send", "last_mut", "sort_by", "sort_by_key", "extend_from_slice", "clone_into"}


STRUCTURAL = {"Unbox::unbox", "UnboxedFormula::rebox"}
CLOSURE_LOOPS = {"map", "filter", "filter_map", "flat_map", "inspect", "for_each", "any", "all", "find", "position", "take_while", "skip_while"}


class Eval:
    def __init__(self, facts, inline_depth=2, inline=None):
        self.facts = facts
        self.inline_depth = inline_depth
        self.inline = inline  # predicate(def_path) -> bool
        self.returns = []
        self.conds = []
        self.names = {}
        self.last_env = {}
        self.bound = {}  # name -> every term ever bound to a local of that name (including branch-local lets)
        self.out = []    # output effects of printers: (conds, loops, ('write', template, args) | ('emit', callee, args))
        self.loops = []
        self._helper_depth = 0
        self._helper_stack = []
        self._prefix = []
        self._final_params = []
        self._cur_env = None
        self.loop_args = None     # optional: [element of the 1st for loop met, of the 2nd, ...] to specialise a loop body on one concrete element
        self.panics = None        # optional list: (path condition, macro) of panics met in statement position
        self.unroll_literal_lists = False   # opt-in: `for x in <literal list of 0 or 1 elements>` runs its body 0 or 1 times
        self.stateful_map_as_loop = False   # opt-in: `it.map(|x| ..)` whose closure mutates captured locals is evaluated as the loop it is
        self.breaks = None        # optional list: (path condition, environment) at every `break` met
        self._alias_root = None
        self.alias = {}           # local id bound by reference into another local -> (that local's id, path): in-place updates are written back
        self.effect_calls = None  # optional: short callee names whose calls are recorded in self.out as ('emit', name, args) with path conditions and loops
        self.closure_args = None  # optional: [args of the 1st closure met, args of the 2nd, ...] to specialise closures on concrete arguments
        self.match_arms = {}      # scrutinee term -> [(pattern key, guarded?) of every arm, in order] of each undecided match met on it
        self.ctor_types = {}      # tuple-struct constructor term -> its type as rustc printed it (e.g. which Format<'_, T> a Format(x) is)

    # ------------------------------------------------------------------ entry points
    def function(self, body, args=None, depth=0):
        """Evaluate a function body. args: list of terms for the parameters (default: ('param', name))."""
        env = {}
        prev_names = self.names
        self.names = {}   # local ids are per function: an inlined callee must not rename the caller's locals
        for i, p in enumerate(body["params"]):
            t = args[i] if args is not None and i < len(args) else None
            self.bind_pat(p, t, env, default_param=True)
        saved = self.returns
        saved_c = self.conds
        self.returns = []
        self.conds = []
        if depth == 0:
            self.out = []
            self.loops = []
            self._prefix = []
        # output effects inside an inlined callee happen under the caller's path condition as well
        self._prefix.append(tuple(saved_c))
        v = self.expr(body["body"], env, depth)
        self._prefix.pop()
        rets = self.returns
        self.returns = saved
        self.conds = saved_c
        # the final values of the parameters (a helper that mutates a `&mut` argument)
        self._final_params = [env.get(p["id"]) if p.get("p") == "Bind" else None for p in body["params"]]
        if depth == 0:
            self.last_env = {}
            for i, t in env.items():
                self.last_env.setdefault(self.names.get(i, str(i)), []).append(t)
        self.names = prev_names
        if rets:
            return ("returns", tuple(rets) + ((("fallthrough",), v),))
        return v

    # ------------------------------------------------------------------ patterns
    def bind_pat(self, p, term, env, default_param=False, path=()):
        k = p.get("p")
        if k == "Bind":
            self.names[p["id"]] = p["name"]
            if self._alias_root is not None:
                self.alias[p["id"]] = (self._alias_root, path)
            if term is None and default_param:
                env[p["id"]] = ("param", p["name"])
            else:
                env[p["id"]] = term if not path else proj_reduce(term, path)
                self.bound.setdefault(p["name"], []).append(env[p["id"]])
            if "sub" in p:
                self.bind_pat(p["sub"], term, env, default_param, path)
            return
        if k in ("Ref", "Box", "Deref", "Guard"):
            return self.bind_pat(p["pat"], term, env, default_param, path)
        if k == "Struct":
            r = p.get("res", {})
            head = "%s::%s" % (hq.last(r.get("adt", "?")), r.get("variant")) if r.get("variant") else hq.last(r.get("adt", "?"))
            for f in p["fields"]:
                self.bind_pat(f["pat"], term, env, default_param, path + ((head, f["name"]),))
            return
        if k == "TupleStruct":
            r = p.get("res", {})
            head = "%s::%s" % (hq.last(r.get("adt", "?")), r.get("variant")) if r.get("variant") else hq.last(r.get("adt", "?"))
            for i, q in enumerate(p["pats"]):
                self.bind_pat(q, term, env, default_param, path + ((head, str(i)),))
            return
        if k == "Tuple":
            for i, q in enumerate(p["pats"]):
                self.bind_pat(q, term, env, default_param, path + (("tuple", str(i)),))
            return
        if k == "Or":
            if isinstance(term, tuple) and term[:1] in (("ctor",), ("lit",)) and not path:
                hit = [q for q in p["pats"] if pat_vs_term(q, term) is True]
                if hit:
                    return self.bind_pat(hit[0], term, env, default_param, path)
            alts = []
            for q in p["pats"]:
                ea = {}
                self.bind_pat(q, term, ea, default_param, path)
                alts.append((hq.pat_key(q), ea))
            ids = set()
            for _, ea in alts:
                ids |= set(ea)
            for i in ids:
                vals = [(k_, ea[i]) for k_, ea in alts if i in ea]
                if all(v == vals[0][1] for _, v in vals):
                    env[i] = vals[0][1]
                else:
                    env[i] = ("orbind", tuple(vals))
            return
        if k == "Slice":
            base = term if not path else (proj_reduce(term, path) if isinstance(term, tuple) else None)
            if isinstance(base, tuple) and base[:1] == ("list",):
                # a literal list: `[a, b, .., z]` binds by position
                n_ = len(base[1])
                for i, q in enumerate(p.get("before", [])):
                    self.bind_pat(q, term, env, default_param, path + (("tuple", str(i)),))
                na = len(p.get("after", []))
                for j, q in enumerate(p.get("after", [])):
                    self.bind_pat(q, term, env, default_param, path + (("tuple", str(n_ - na + j)),))
                return
            for q in p.get("before", []) + p.get("after", []):
                self.bind_pat(q, term, env, default_param, path + (("slice", "?"),))
            return

    # ------------------------------------------------------------------ blocks / statements
    def block(self, b, env, depth):
        return self.seq(b.get("stmts", []), b.get("expr"), env, depth, True)

    def seq(self, stmts, tail, env, depth, value):
        """statements then the tail expression; `let PAT = INIT else { ELSE };` is `match INIT { PAT => rest of the block, _ => ELSE }`"""
        for i, s in enumerate(stmts):
            if s["k"] == "LetStmt" and "else" in s and "init" in s:
                init = self.expr(s["init"], env, depth)
                els = s["else"] if s["else"].get("k") else {"k": "Block", **s["else"]}
                r = pat_vs_term(s["pat"], init)
                if r is True:
                    self.bind_pat(s["pat"], init, env)
                    continue
                if r is False:
                    ve = self.expr(els, env, depth)
                    return ve if isinstance(ve, tuple) and ve[:1] == ("panic",) else ("never",)
                key = hq.pat_key(s["pat"])
                e_else = dict(env)
                self.conds.append((("arm", init, key), False))     # the else block runs exactly when the pattern did not match
                self.conds.append((("arm", init, "_"), True))
                ve = self.expr(els, e_else, depth)
                self.conds.pop()
                self.conds.pop()
                e_then = dict(env)
                self.bind_pat(s["pat"], init, e_then)
                self.conds.append((("arm", init, key), True))
                v = self.seq(stmts[i + 1:], tail, e_then, depth, value)
                self.conds.pop()
                self.merge(env, ("match", init), [(key, e_then), ("_", e_else)])
                for i_, t_ in e_then.items():
                    env.setdefault(i_, t_)
                if value and isinstance(ve, tuple) and ve[:1] == ("panic",):
                    return ("match", init, ((key, v), ("_", ve)))   # the refusal is a value of the block, like a panicking match arm
                return v
            # `let P = match X { A => v, B => continue / return .. };`: the rest of the block runs under arm A
            if s["k"] == "LetStmt" and "init" in s and "else" not in s:
                mi = s["init"]
                while isinstance(mi, dict) and mi.get("k") in ("DropTemps", "Use"):
                    mi = mi["e"]
                if isinstance(mi, dict) and mi.get("k") == "Match" and mi.get("src") == "Normal":
                    live = [a for a in mi["arms"] if not diverges(a["body"], panics=False)]
                    dead = [a for a in mi["arms"] if diverges(a["body"], panics=False)]
                    if dead and len(live) == 1:
                        sc = self.expr(mi["scrut"], env, depth)
                        if self.decide_arm(mi, sc, env, depth) is None:
                            envs = []
                            for d in dead:
                                ed = dict(env)
                                self.bind_pat(d["pat"], sc, ed)
                                # an arm is reached when the (unguarded) arms written before it did not match
                                before = [(("arm", sc, hq.pat_key(p_["pat"])), False) for p_ in mi["arms"][:mi["arms"].index(d)] if "guard" not in p_]
                                for c_ in before:
                                    self.conds.append(c_)
                                self.conds.append((("arm", sc, hq.pat_key(d["pat"])), True))
                                self.effect(d["body"], ed, depth)
                                for _ in range(len(before) + 1):
                                    self.conds.pop()
                                envs.append((hq.pat_key(d["pat"]), ed))
                            a = live[0]
                            e_live = dict(env)
                            self.bind_pat(a["pat"], sc, e_live)
                            # these conditions are implied by the order of the exits: kept for effects, dropped from later `returns`
                            self.conds.append((("arm", sc, hq.pat_key(a["pat"])), True, "implied"))
                            npush = 1
                            if "guard" in a:
                                self.conds.append((self.expr(a["guard"], e_live, depth), True, "implied"))
                                npush = 2
                            val = self.expr(a["body"], e_live, depth)
                            self.bind_pat(s["pat"], val, e_live)
                            v = self.seq(stmts[i + 1:], tail, e_live, depth, value)
                            for _ in range(npush):
                                self.conds.pop()
                            self.merge(env, ("match", sc), [(hq.pat_key(a["pat"]), e_live)] + envs)
                            for i_, t_ in e_live.items():
                                env.setdefault(i_, t_)
                            return v
            # `if C { ...; continue / break / return }` (no else): the rest of the block runs under not C
            x = s.get("e") if s["k"] not in ("LetStmt", "ItemStmt") else None
            xs = strip(x) if isinstance(x, dict) and x.get("k") in ("DropTemps", "Use") else x
            if isinstance(xs, dict) and xs.get("k") == "If" and "mac_src" not in xs and diverges(xs["then"]) and not ("else" in xs and diverges(xs["else"])):
                c = self.expr(xs["cond"], env, depth)
                dv = decide_bool(c)
                if dv is True:
                    self.effect(xs["then"], env, depth)
                    return ("never",)
                if dv is None:
                    e_then = dict(env)
                    self.conds.append((c, True))
                    self.effect(xs["then"], e_then, depth)
                    self.conds.pop()
                    e_rest = dict(env)
                    if _leaves_loop_only(xs["then"]):
                        # `if c { continue }` / `{ break }`: the rest of this iteration runs under not c - a fact of every later exit as well
                        self.conds.append((c, False))
                    else:
                        self.conds.append((("survived", c), False))   # the earlier exit was not taken (implied by the order of `returns`)
                    if "else" in xs:
                        self.effect(xs["else"], e_rest, depth)
                    v = self.seq(stmts[i + 1:], tail, e_rest, depth, value)
                    self.conds.pop()
                    self.merge(env, ("if", c), [("then", e_then), ("else", e_rest)])
                    for i_, t_ in e_rest.items():
                        env.setdefault(i_, t_)   # locals declared in the rest of the block stay visible (last_env)
                    return v
                if "else" in xs:
                    self.effect(xs["else"], env, depth)
                continue
            self.stmt(s, env, depth)
        if tail is not None:
            if value:
                return self.expr(tail, env, depth)
            self.effect(tail, env, depth)
        return ("unit",)

    def stmt(self, s, env, depth):
        k = s["k"]
        if k == "LetStmt":
            t = self.expr(s["init"], env, depth) if "init" in s else ("uninit",)
            self.bind_pat(s["pat"], t, env)
            return
        if k == "ItemStmt":
            return
        e = s["e"]
        self.effect(e, env, depth)

    def effect(self, e, env, depth):
        """Evaluate an expression for its effects on locals."""
        k = e.get("k")
        if k in ("DropTemps", "Use", "Type"):
            return self.effect(e["e"], env, depth)
        if k == "Assign":
            l = strip(e["l"])
            if l.get("k") == "Path" and l.get("res", {}).get("r") == "local":
                env[l["res"]["id"]] = self.expr(e["r"], env, depth)
            else:
                root = self.root_local(e["l"])
                if root is not None:
                    env[root] = ("upd", env.get(root, ("unknown", "unbound")), "assign-field:" + (hq.field_path(e["l"]) or "?"), (self.expr(e["r"], env, depth),))
                    self.write_back(root, env)
            return
        if k == "AssignOp":
            l = strip(e["l"])
            if l.get("k") == "Path" and l.get("res", {}).get("r") == "local":
                env[l["res"]["id"]] = ("bin", e["op"], env.get(l["res"]["id"]), self.expr(e["r"], env, depth))
            return
        if k == "If":
            c = self.expr(e["cond"], env, depth)
            dv = decide_bool(c)
            if dv is True:
                return self.effect(e["then"], env, depth)
            if dv is False:
                if "else" in e:
                    self.effect(e["else"], env, depth)
                return
            e1 = dict(env)
            self.conds.append((c, True))
            self.effect(e["then"], e1, depth)
            self.conds.pop()
            e2 = dict(env)
            if "else" in e:
                self.conds.append((c, False))
                self.effect(e["else"], e2, depth)
                self.conds.pop()
            self.merge(env, ("if", c), [("then", e1), ("else", e2)])
            return
        if k == "Match":
            if e.get("src") == "ForLoopDesugar":
                loops = [l for l in hq.for_loops({"x": e}) if l[0] is e]
                if loops:
                    _, iterable, pat, body = loops[0]
                    it = self.expr(iterable, env, depth)
                    if isinstance(it, tuple) and it[:1] == ("list",) and len(it[1]) <= 1 and self.unroll_literal_lists:
                        # a literal list of at most one element: the body runs exactly that often (specialisation on a singleton input)
                        for x_ in it[1]:
                            self.bind_pat(pat, x_, env)
                            if body is not None:
                                self.effect(body, env, depth)
                        return
                    elem = self.loop_args.pop(0) if self.loop_args else ("each", it)
                    self.bind_pat(pat, elem, env)
                    if body is not None:
                        # loop-carried locals: their value at the loop head is "initial value plus earlier iterations"
                        for lid in self.mutated_locals(body):
                            if lid in env and not (isinstance(env[lid], tuple) and env[lid][:1] == ("acc",)):
                                env[lid] = ("acc", env[lid])
                        # `for x in xs.iter_mut()` (possibly enumerated): what the body does to x in place, it does to every element of xs
                        mroot = self.iter_mut_root(iterable)
                        ids_ = [b_["id"] for b_ in pat_bindings(pat)] if mroot is not None else []
                        before_ = {i_: env.get(i_) for i_ in ids_}
                        self.loops.append(it)
                        self.effect(body, env, depth)
                        self.loops.pop()
                        for i_ in ids_:
                            t_ = env.get(i_)
                            ops_ = []
                            while isinstance(t_, tuple) and t_[:1] == ("upd",) and t_ != before_[i_]:
                                ops_.append(t_)
                                t_ = t_[1]
                            if ops_ and t_ == before_[i_]:
                                base_ = env.get(mroot[0], ("unknown", "unbound"))
                                if not (isinstance(base_, tuple) and base_[:1] == ("acc",)):
                                    base_ = ("acc", base_)
                                for o_ in reversed(ops_):
                                    base_ = ("upd", base_, "each-%s%s" % (o_[2], ("@" + mroot[1]) if mroot[1] else ""), o_[3])
                                env[mroot[0]] = base_
                                self.write_back(mroot[0], env)
                    return
            if str(e.get("src", "")).startswith("TryDesugar"):
                self.expr(e, env, depth)
                return
            sc = self.expr(e["scrut"], env, depth)
            sn = strip(e["scrut"])
            if sn.get("k") == "MethodCall" and sn["method"] == "entry" and self.root_local(sn["recv"]) is not None:
                root = self.root_local(sn["recv"])
                arms = []
                for a in e["arms"]:
                    ea = dict(env)
                    self.bind_pat(a["pat"], ("entry",), ea)
                    ab = a["body"]
                    if ab.get("k") == "Block" and "mac_src" not in ab:
                        vals = tuple(self.expr(hq.stmt_expr(st), ea, depth) for st in hq.stmts_of(ab) if hq.stmt_expr(st) is not None)
                    else:
                        vals = (self.expr(ab, ea, depth),)
                    arms.append((hq.pat_key(a["pat"]), vals))
                env[root] = ("upd", env.get(root, ("unknown", "unbound")), "entry", (self.expr(sn["args"][0], env, depth), ("arms", tuple(arms))))
                return
            decided = self.decide_arm(e, sc, env, depth)
            if decided is not None:
                self.bind_pat(decided["pat"], sc, env)
                self.effect(decided["body"], env, depth)
                return
            envs = []
            self.match_arms.setdefault(sc, []).append(tuple((hq.pat_key(a_["pat"]), "guard" in a_) for a_ in e["arms"]))
            for a in e["arms"]:
                ea = dict(env)
                self.bind_pat(a["pat"], sc, ea)
                self.conds.append((("arm", sc, hq.pat_key(a["pat"])), True))
                npush = 1
                if "guard" in a:
                    g_ = self.expr(a["guard"], ea, depth)
                    self.conds.append((g_, True))
                    npush = 2
                    # the phi of a statement-level match names a guarded arm `<pattern> if ..`: what the guard is, is kept here
                    PHI_GUARDS.setdefault((("match", sc), hq.pat_key(a["pat"]) + " if .."), set()).add(g_)
                self.effect(a["body"], ea, depth)
                for _ in range(npush):
                    self.conds.pop()
                envs.append((hq.pat_key(a["pat"]) + (" if .." if "guard" in a else ""), ea))
            self.merge(env, ("match", sc), envs)
            return
        if k == "Block":
            if "mac_src" in e:
                if e.get("mac") in ("panic", "unreachable", "todo", "unimplemented") and self.panics is not None:
                    self.panics.append((self.full_conds(), e.get("mac")))
                return
            self.seq(e.get("stmts", []), e.get("expr"), env, depth, False)
            return
        if k == "Loop":
            self.effect({"k": "Block", **e["body"]}, env, depth)
            return
        if k == "Ret":
            self.returns.append((tuple(x for x in self.conds if x[0][:1] != ("survived",) and len(x) == 2), self.expr(e["e"], env, depth) if "e" in e else ("unit",)))
            return
        # any other expression: evaluate for nested effects (e.g. closures are ignored)
        self.expr(e, env, depth)

    def full_conds(self):
        out = ()
        for pfx in self._prefix[1:]:
            out += tuple(pfx)
        return tuple(x[:2] for x in out + tuple(self.conds))

    def decide_arm(self, e, sc, env, depth):
        """the arm of match `e` taken for the scrutinee value sc, when sc is a literal constructor / literal / tuple of those; else None"""
        if not (isinstance(sc, tuple) and sc and (sc[0] == "ctor" or (sc[0] == "lit" and len(sc) == 2) or
                                                  (sc[0] == "list" and sc[1] and all(isinstance(x, tuple) and x and x[0] in ("ctor", "lit") for x in sc[1])))):
            return None
        for a in e["arms"]:
            r = pat_vs_term(a["pat"], sc)
            if r is False:
                continue
            if r is None:
                return None
            if "guard" in a:
                eg = dict(env)
                self.bind_pat(a["pat"], sc, eg)
                gv = decide_bool(self.expr(a["guard"], eg, depth))
                if gv is False:
                    continue
                if gv is None:
                    return None
            return a
        return None

    def merge(self, env, key, envs):
        ids = set()
        for _, ea in envs:
            ids |= set(ea)
        for i in ids:
            if i not in env:
                continue  # binding local to a branch
            vals = [(lab, ea.get(i, env.get(i))) for lab, ea in envs]
            if all(v == env[i] for _, v in vals):
                continue
            if all(v == vals[0][1] for _, v in vals):
                env[i] = vals[0][1]
            else:
                env[i] = ("phi", key, tuple(vals))

    def mutated_locals(self, body):
        out = []
        for n in hq.walk(body):
            k = n.get("k")
            if k in ("Assign", "AssignOp"):
                r = self.root_local(n["l"])
                if r is not None:
                    out.append(r)
            elif k == "MethodCall" and (n["method"] in MUTATORS or n["method"] == "entry") and "&mut" in (n["recv"].get("ty_adj", "") + n["recv"].get("ty", "")):
                r = self.root_local(n["recv"])
                if r is not None:
                    out.append(r)
                elif n["method"] in MUTATORS and self.entry_chain(n["recv"]) is not None:
                    out.append(self.entry_chain(n["recv"])[0])
        return out

    def entry_chain(self, e):
        """(local id, key expression) when e is `L.entry(KEY).or_default()` / `.or_insert_with(..)` / `.or_insert(..)`"""
        cur = strip(e)
        if cur.get("k") == "MethodCall" and cur.get("method") in ("or_default", "or_insert_with", "or_insert"):
            inner = strip(cur["recv"])
            if inner.get("k") == "MethodCall" and inner.get("method") == "entry" and len(inner.get("args", [])) == 1:
                root = self.root_local(inner["recv"])
                if root is not None:
                    if cur["method"] != "or_default":
                        # the bucket must start empty for this to be the grouping idiom
                        a = strip(cur["args"][0]) if cur.get("args") else {}
                        src = hq.render(a) if a else ""
                        if not any(x in src for x in ("::new", "vec![]", "default")):
                            return None
                    return root, inner["args"][0]
        return None

    def mut_ref_root(self, e):
        """local id L when e is `&mut L` (or L of type &mut T): bindings of a pattern matched against it alias parts of L"""
        cur = e
        while isinstance(cur, dict) and cur.get("k") in ("DropTemps", "Use", "Type"):
            cur = cur["e"]
        if isinstance(cur, dict) and cur.get("k") == "Ref" and cur.get("mut"):
            inner = strip(cur["e"])
            if inner.get("k") == "Path" and inner.get("res", {}).get("r") == "local":
                return inner["res"]["id"]
        if isinstance(cur, dict) and cur.get("k") == "Path" and cur.get("res", {}).get("r") == "local" and str(cur.get("ty", "")).startswith("&mut "):
            return cur["res"]["id"]
        if isinstance(cur, dict) and cur.get("k") == "MethodCall" and cur.get("method") in ("last_mut", "first_mut", "get_mut", "as_mut", "iter_mut", "as_deref_mut"):
            return self.root_local(cur["recv"])
        return None

    def iter_mut_root(self, iterable):
        """(local id, field path) when the for-loop iterable is `L.iter_mut()` / `L.f.iter_mut()` / `&mut L.f`, possibly under enumerate()"""
        cur = strip(iterable)
        while isinstance(cur, dict) and cur.get("k") == "MethodCall" and cur.get("method") in ("enumerate", "into_iter", "by_ref"):
            cur = strip(cur["recv"])
        if isinstance(cur, dict) and cur.get("k") == "Call" and cur.get("args") and len(cur["args"]) == 1 and callee(cur).endswith("into_iter"):
            cur = strip(cur["args"][0])
        target = None
        if isinstance(cur, dict) and cur.get("k") == "MethodCall" and cur.get("method") == "iter_mut":
            target = cur["recv"]
        elif isinstance(cur, dict) and cur.get("k") == "Ref" and cur.get("mut"):
            target = cur["e"]
        if target is None:
            return None
        root = self.root_local(target)
        if root is None:
            return None
        fp = hq.field_path(target)
        return root, (fp.split(".", 1)[1] if fp and "." in fp else "")

    def write_back(self, root, env):
        """root was updated in place; if it aliases a part of another local, that local now holds the updated part"""
        seen = 0
        while root in self.alias and seen < 4:
            seen += 1
            owner, path = self.alias[root]
            if owner not in env:
                return
            env[owner] = set_at(env[owner], path, env[root])
            root = owner

    def root_local(self, e):
        cur = strip(e)
        while cur.get("k") in ("Field", "Index"):
            cur = strip(cur["e"])
        if cur.get("k") == "MethodCall" and cur["method"] in ("get_mut", "iter_mut", "as_mut", "last_mut"):
            return self.root_local(cur["recv"])
        if cur.get("k") == "Path" and cur.get("res", {}).get("r") == "local":
            return cur["res"]["id"]
        return None

    # ------------------------------------------------------------------ expressions
    def expr(self, e, env, depth):
        k = e.get("k")
        if "mac_src" in e:
            mac = e.get("mac")
            if mac == "vec":
                return self.vec_macro(e, env, depth)
            if mac == "format":
                a_ = tuple(self.fmt_args(e, env, depth))
                return ("format", anon_names(hq.macro_template(e["mac_src"]), len(a_)), a_)
            if mac in ("write", "writeln"):
                t = hq.macro_template(e["mac_src"])
                if t is None:
                    # write!(f, include_str!(..)) and friends: keep the raw first argument
                    t = "<" + (hq.macro_args(e["mac_src"])[1] if len(hq.macro_args(e["mac_src"])) > 1 else "?") + ">"
                a_ = tuple(self.fmt_args(e, env, depth))
                w = ("write", anon_names(t, len(a_)) + ("\n" if mac == "writeln" else ""), a_)
                helpers_ = [self._display_helper(x) for x in a_]
                # `xs.iter().map(..).format(", ")` printed through a `{}`: every element, a separator before all but the first (a `join`ed String is a
                # value and is folded by printers.flat)
                joined_ = [isinstance(x, tuple) and x[:1] == ("call",) and x[1] == "Itertools::format" and len(x[2]) == 2
                           and isinstance(x[2][1], tuple) and x[2][1][:1] == ("lit",) and isinstance(x[2][1][1], str) for x in a_]
                if any(joined_):
                    helpers_ = [("joined",) if j_ else h_ for j_, h_ in zip(joined_, helpers_)]
                if any(h_ is not None for h_ in helpers_) and re.fullmatch(r"(?:[^{}]|\{\})*", w[1]) and w[1].count("{}") == len(a_):
                    # an argument whose type got its own Display impl after the rules were written: that impl is a helper of this printer and
                    # its writes happen here, between the literal pieces of the template
                    args_ = list(zip(a_, helpers_))
                    for piece in re.split(r"(\{\})", w[1]):
                        if piece == "":
                            continue
                        if piece != "{}":
                            self.out.append((self.full_conds(), tuple(self.loops), ("write", piece, ())))
                            continue
                        x_, h_ = args_.pop(0)
                        if h_ is None:
                            self.out.append((self.full_conds(), tuple(self.loops), ("write", "{}", (x_,))))
                            continue
                        if h_ == ("joined",):
                            src_, sep_ = x_[2][0], x_[2][1][1].replace("{", "{{").replace("}", "}}")
                            self.loops.append(src_)
                            if sep_:
                                self.conds.append((("bin", "Gt", ("idx", src_), ("lit", 0)), True))
                                self.out.append((self.full_conds(), tuple(self.loops), ("write", sep_, ())))
                                self.conds.pop()
                            self.out.append((self.full_conds(), tuple(self.loops), ("write", "{}", (("each", src_),))))
                            self.loops.pop()
                            continue
                        self._helper_depth += 1
                        self._helper_stack.append(h_["def_path"])
                        try:
                            saved_ret, saved_c, caller_env = self.returns, self.conds, self._cur_env
                            self.function(h_, [x_, ("param", "f")], depth + 1)
                            self.returns, self.conds, self._cur_env = saved_ret, saved_c, caller_env
                        finally:
                            self._helper_stack.pop()
                            self._helper_depth -= 1
                    return w
                self.out.append((self.full_conds(), tuple(self.loops), w))
                return w
            if mac in ("unreachable", "panic", "todo", "unimplemented"):
                if self.panics is not None:
                    self.panics.append((self.full_conds(), mac))
                return ("panic", mac)
            if mac == "matches":
                m = strip(e)
                if m.get("k") == "Match" and "guard" in m["arms"][0]:
                    # `matches!(x, P if G)`: the expansion `match x { P if G => true, _ => false }` keeps the guard
                    return self.expr({k_: v_ for k_, v_ in m.items() if k_ not in ("mac", "mac_src")}, env, depth)
                if m.get("k") == "Match":
                    pats = tuple(sorted(hq.pat_key(q) for q in hq.or_alternatives(m["arms"][0]["pat"])))
                    return ("matches", self.expr(m["scrut"], env, depth), pats)
        if k in ("DropTemps", "Use", "Type", "Ref", "Cast"):
            return self.expr(e["e"], env, depth)
        if k == "Unary":
            if e.get("op") == "Deref":
                return self.expr(e["e"], env, depth)
            return ("op", e["op"], self.expr(e["e"], env, depth))
        if k == "Lit":
            return ("lit", e.get("v"))
        if k == "Path":
            r = e.get("res", {})
            if r.get("r") == "local":
                if r["id"] in env:
                    return env[r["id"]]
                return ("free", r["name"])
            if r.get("r") == "ctor":
                name = "%s::%s" % (hq.last(r["adt"]), r.get("variant")) if r.get("variant") else hq.last(r["adt"])
                if e.get("ty", "").startswith(("fn(", "for<")):
                    return ("ctorfn", name)
                return ("ctor", name, ())
            if r.get("r") == "def":
                if r.get("kind", "").startswith(("Const", "Static", "AssocConst")):
                    # a constant introduced after the rules were written that names a literal is that literal (`const GENERAL: &str = "general"`)
                    cb = self.facts.bodies.get(r["path"], ())
                    if r.get("kind", "").startswith("Const") and len(cb) == 1 and r["path"] not in known_functions() and isinstance(cb[0].get("body"), dict) \
                            and strip(cb[0]["body"]).get("k") == "Lit":
                        return ("lit", strip(cb[0]["body"]).get("v"))
                    return ("const", hq.last(r["path"]))
                return ("fn", short(e.get("callee_res") or e.get("callee") or r["path"]))
            return ("unknown", "path")
        if k == "Field":
            base = self.expr(e["e"], env, depth)
            return self.field(base, e["name"])
        if k == "Block":
            if "mac_src" in e and e.get("mac") in ("unreachable", "panic", "todo", "unimplemented"):
                if self.panics is not None:
                    self.panics.append((self.full_conds(), e["mac"]))
                return ("panic", e["mac"])
            if "mac_src" in e and e.get("mac") in ("format",):
                a_ = tuple(self.fmt_args(e, env, depth))
                return ("format", anon_names(hq.macro_template(e["mac_src"]), len(a_)), a_)
            if "mac_src" in e and e.get("mac") == "vec":
                return self.vec_macro(e, env, depth)
            env2 = env  # blocks share the environment (shadowing is by HirId, so this is safe)
            return self.block(e, env2, depth)
        if k == "Call":
            return self.call(e, env, depth)
        if k == "MethodCall" and e.get("method") in ("write_str", "write_char") and len(e.get("args", [])) == 1 and "Formatter" in (e["recv"].get("ty", "") + e["recv"].get("ty_adj", "")):
            # `f.write_str("text")` writes what `write!(f, "text")` writes; a non-literal argument is one hole
            a_ = self.expr(e["args"][0], env, depth)
            if isinstance(a_, tuple) and a_[:1] == ("lit",) and isinstance(a_[1], str):
                w = ("write", a_[1].replace("{", "{{").replace("}", "}}"), ())
            else:
                w = ("write", "{}", (a_,))
            self.out.append((self.full_conds(), tuple(self.loops), w))
            return w
        if k == "MethodCall":
            return self.method(e, env, depth)
        if k == "Struct":
            r = e.get("res", {})
            name = "%s::%s" % (hq.last(r.get("adt", "?")), r.get("variant")) if r.get("variant") else hq.last(r.get("adt", "?"))
            fields = tuple(sorted((f["name"], self.expr(f["e"], env, depth)) for f in e["fields"]))
            if "base" in e:
                fields = fields + (("..", self.expr(e["base"], env, depth)),)
            if e.get("ty"):
                self.ctor_types[("ctor", name, fields)] = e["ty"]
            return ("ctor", name, fields)
        if k == "Closure":
            env2 = dict(env)
            names = []
            override = self.closure_args.pop(0) if self.closure_args else None
            for i_, p in enumerate(e["params"]):
                bs = list(pat_bindings(p))
                q = p
                while q.get("p") in ("Ref", "Box", "Deref"):
                    q = q["pat"]
                plain = q.get("p") == "Bind" and "sub" not in q
                if override is not None and i_ < len(override):
                    # the caller wants this closure specialised on concrete arguments
                    names.append("/".join(b["name"] for b in bs) or "_")
                    self.bind_pat(p, override[i_], env2)
                elif plain or not bs:
                    names.append("/".join(b["name"] for b in bs) or "_")
                    self.bind_pat(p, None, env2, default_param=True)
                else:
                    # a destructuring parameter `|(i, _)|`: one parameter, every binding the projection it names (so that applying the
                    # closure to an element puts each component where the pattern takes it from)
                    pn = "~" + "+".join(b["name"] for b in bs)
                    names.append(pn)
                    self.bind_pat(p, ("param", pn), env2)
            saved = self.returns
            self.returns = []
            body = self.expr(e["body"], env2, depth)
            if self.returns:
                body = ("returns", tuple(self.returns) + ((("fallthrough",), body),))
            self.returns = saved
            return ("closure", tuple(names), body)
        if k == "Match":
            if str(e.get("src", "")).startswith("TryDesugar"):
                inner = e["scrut"]["args"][0] if e["scrut"].get("k") == "Call" else e["scrut"]
                return ("try", self.expr(inner, env, depth))
            if e.get("src") == "ForLoopDesugar":
                self.effect(e, env, depth)
                return ("unit",)
            sc = self.expr(e["scrut"], env, depth)
            arms = []
            envs = []
            live = e["arms"]
            if isinstance(sc, tuple) and sc and (sc[0] == "ctor" or (sc[0] == "lit" and len(sc) == 2) or (sc[0] == "list" and sc[1] and all(isinstance(x, tuple) and x and x[0] in ("ctor", "lit") for x in sc[1]))):
                # the scrutinee is a literal constructor: drop the arms it cannot take, stop at the first it must take
                live = []
                decided = None
                for a in e["arms"]:
                    r = pat_vs_term(a["pat"], sc)
                    if r is False:
                        continue
                    if r is True and "guard" in a:
                        # a guard over literal values (matches!(..), comparisons of literals) is decided as well
                        eg = dict(env)
                        self.bind_pat(a["pat"], sc, eg)
                        gv = decide_bool(self.expr(a["guard"], eg, depth))
                        if gv is False:
                            continue
                        if gv is True and not live:
                            decided = a
                            break
                    live.append(a)
                    if r is True and "guard" not in a:
                        break
                if decided is None and len(live) == 1 and pat_vs_term(live[0]["pat"], sc) is True and "guard" not in live[0]:
                    decided = live[0]
                if decided is not None:
                    self.bind_pat(decided["pat"], sc, env)
                    return self.expr(decided["body"], env, depth)
            self.match_arms.setdefault(sc, []).append(tuple((hq.pat_key(a_["pat"]), "guard" in a_) for a_ in live))
            for a in live:
                ea = dict(env)
                self.bind_pat(a["pat"], sc, ea)
                g = None
                if "guard" in a:
                    g = self.expr(a["guard"], ea, depth)
                # an arm that leaves the function is taken only when the (unguarded) arms written before it did not match: its exit says so
                before = [(("arm", sc, hq.pat_key(p_["pat"])), False) for p_ in live[:live.index(a)] if "guard" not in p_] if diverges(a["body"], panics=False) else []
                for c_ in before:
                    self.conds.append(c_)
                self.conds.append((("arm", sc, hq.pat_key(a["pat"])), True))
                v = self.expr(a["body"], ea, depth)
                for _ in range(len(before) + 1):
                    self.conds.pop()
                key = hq.pat_key(a["pat"])
                arms.append((key, v) if g is None else (key, ("guard", g), v))
                envs.append((key, ea))
            self.merge(env, ("match", sc), envs)
            return ("match", sc, tuple(arms))
        if k == "If":
            cond_e = strip(e["cond"])
            if cond_e.get("k") == "Let":
                # `if let P = <literal constructor>`: decided here (the same partial evaluation as for `match`)
                init0 = self.expr(cond_e["init"], dict(env), depth)
                if isinstance(init0, tuple) and init0 and init0[0] == "ctor":
                    r0 = pat_vs_term(cond_e["pat"], init0)
                    if r0 is True:
                        self.bind_pat(cond_e["pat"], init0, env)
                        return self.expr(e["then"], env, depth)
                    if r0 is False:
                        return self.expr(e["else"], env, depth) if "else" in e else ("unit",)
            c = self.expr(e["cond"], env, depth)
            dv = decide_bool(c)
            if dv is True:
                return self.expr(e["then"], env, depth)
            if dv is False:
                return self.expr(e["else"], env, depth) if "else" in e else ("unit",)
            e1 = dict(env)
            self.conds.append((c, True))
            t = self.expr(e["then"], e1, depth)
            self.conds.pop()
            e2 = dict(env)
            self.conds.append((c, False))
            f = self.expr(e["else"], e2, depth) if "else" in e else ("unit",)
            self.conds.pop()
            self.merge(env, ("if", c), [("then", e1), ("else", e2)])
            return ("if", c, t, f)
        if k == "Let":
            init = self.expr(e["init"], env, depth)
            self._alias_root = self.mut_ref_root(e["init"])
            self.bind_pat(e["pat"], init, env)
            self._alias_root = None
            r = pat_vs_term(e["pat"], init) if isinstance(init, tuple) and init[:1] in (("ctor",), ("lit",)) else None
            if r is not None:
                return ("lit", r)
            return ("iflet", hq.pat_key(e["pat"]), init)
        if k in ("Array", "Tup"):
            return ("list", tuple(self.expr(x, env, depth) for x in e["es"]))
        if k == "Binary":
            return ("bin", e["op"], self.expr(e["l"], env, depth), self.expr(e["r"], env, depth))
        if k == "Index":
            base_, idx_ = self.expr(e["e"], env, depth), self.expr(e["idx"], env, depth)
            if isinstance(base_, tuple) and base_[:1] == ("list",) and isinstance(idx_, tuple) and idx_[:1] == ("lit",) and isinstance(idx_[1], int) and 0 <= idx_[1] < len(base_[1]):
                return base_[1][idx_[1]]   # an element of a literal list
            return ("index", base_, idx_)
        if k == "Ret":
            v = self.expr(e["e"], env, depth) if "e" in e else ("unit",)
            self.returns.append((tuple(x for x in self.conds if x[0][:1] != ("survived",) and len(x) == 2), v))
            return ("never",)
        if k in ("Assign", "AssignOp", "Loop"):
            self.effect(e, env, depth)
            return ("unit",)
        if k in ("Break", "Continue"):
            if k == "Break" and self.breaks is not None:
                self.breaks.append((tuple(x[:2] for x in self.conds if len(x) == 2 or True), dict(env)))
            return ("never",)
        if k == "Repeat":
            return ("repeat", self.expr(e["e"], env, depth))
        return ("unknown", k)

    def _display_helper(self, x):
        """the Display impl of the type of constructor term x, when that impl did not exist when the rules were written"""
        ty = self.ctor_types.get(x) if isinstance(x, tuple) and x[:1] == ("ctor",) else None
        if not ty or self._helper_depth >= 6:
            return None
        dp = "<%s as std::fmt::Display>::fmt" % ty
        bs = self.facts.bodies.get(dp, ())
        if len(bs) != 1 or dp in known_functions() or dp in self._helper_stack:
            return None
        return bs[0]

    def fmt_args(self, e, env, depth):
        """Arguments of a format!-like macro in placeholder order.  The expansion is
        `match (&a, &b) { args => [Argument::new_display(args.0), ..] }` (or inline for a single argument)."""
        tup = None
        for n in hq.walk(e):
            if n.get("k") == "Tup" and "FormatLiteral" in n.get("desugar", ""):
                tup = [self.expr(x, env, depth) for x in n["es"]]
                break
        out = []
        for n in hq.walk(e):
            if n.get("k") == "Call" and "fmt::rt::Argument" in (callee_generic(n) or "") and n.get("args"):
                a = strip(n["args"][0])
                if tup is not None and a.get("k") == "Field" and a["name"].isdigit() and int(a["name"]) < len(tup):
                    out.append(tup[int(a["name"])])
                else:
                    out.append(self.expr(n["args"][0], env, depth))
        return out

    def vec_macro(self, e, env, depth):
        for n in hq.walk(e):
            if n.get("k") == "Array":
                return ("list", tuple(self.expr(x, env, depth) for x in n["es"]))
            if n.get("k") == "Repeat":
                return ("repeat", self.expr(n["e"], env, depth))
        return ("list", ())

    def field(self, base, name):
        if base[0] == "param":
            return ("place", "%s.%s" % (base[1], name))
        if base[0] == "place":
            return ("place", "%s.%s" % (base[1], name))
        if base[0] == "ctor":
            for f, v in base[2]:
                if f == name:
                    return v
        if base[0] == "list" and name.isdigit() and int(name) < len(base[1]):
            return base[1][int(name)]
        return ("fieldof", base, name)

    def call(self, e, env, depth):
        c = ctor_of(e)
        if c:
            name = "%s::%s" % (hq.last(c[0]), c[1]) if c[1] else hq.last(c[0])
            r_ = ("ctor", name, tuple((str(i), self.expr(a, env, depth)) for i, a in enumerate(e["args"])))
            if e.get("ty"):
                self.ctor_types[r_] = e["ty"]
            return r_
        g = callee_generic(e)
        args = [self.expr(a, env, depth) for a in e["args"]]
        self._cur_env = env
        if g in ("std::boxed::Box::<T>::new",) or (g or "").endswith("IntoIterator::into_iter"):
            return args[0]
        if (g or "").endswith("convert::Into::into") or (g or "").endswith("convert::From::from"):
            return self.conv(e, args[0], depth)
        if g is None:
            f = self.expr(e["f"], env, depth)
            return self.apply(f, args, depth)
        return self.named_call(e, g, callee(e), args, depth)

    def method(self, e, env, depth):
        m = e["method"]
        recv = self.expr(e["recv"], env, depth)
        if m in ADAPTORS and not e["args"]:
            if m == "into":
                return self.conv(e, recv, depth)
            return recv
        if m in ("for_each", "try_for_each") and len(e["args"]) == 1 and strip(e["args"][0]).get("k") == "Closure" and ("Iterator::for_each" in (callee_generic(e) or "") or "Iterator::try_for_each" in (callee_generic(e) or "")):
            # `it.for_each(|x| BODY)` is `for x in it { BODY }`
            cl = strip(e["args"][0])
            elem = self.loop_args.pop(0) if self.loop_args else ("each", recv)
            for p in cl["params"]:
                self.bind_pat(p, elem, env)
            for lid in self.mutated_locals(cl["body"]):
                if lid in env and not (isinstance(env[lid], tuple) and env[lid][:1] == ("acc",)):
                    env[lid] = ("acc", env[lid])
            self.loops.append(recv)
            saved = self.returns
            self.returns = []
            self.effect(cl["body"], env, depth)
            self.returns = saved
            self.loops.pop()
            return ("unit",) if m == "for_each" else ("ctor", "Result::Ok", (("0", ("unit",)),))
        if self.stateful_map_as_loop and m == "map" and len(e["args"]) == 1 and strip(e["args"][0]).get("k") == "Closure" and "Iterator::map" in (callee_generic(e) or "") \
                and any(l_ in env for l_ in self.mutated_locals(strip(e["args"][0])["body"])):
            # `it.map(|x| { ..mutates captured locals..; V })` is `for x in it { ..; out.push(V) }`: the closure runs once per element, in order
            cl = strip(e["args"][0])
            elem = self.loop_args.pop(0) if self.loop_args else ("each", recv)
            if len(cl["params"]) == 1:
                self.bind_pat(cl["params"][0], elem, env)
                for lid in self.mutated_locals(cl["body"]):
                    if lid in env and not (isinstance(env[lid], tuple) and env[lid][:1] == ("acc",)):
                        env[lid] = ("acc", env[lid])
                self.loops.append(recv)
                saved = self.returns
                self.returns = []
                val = self.expr(cl["body"], env, depth)
                self.returns = saved
                self.loops.pop()
                return ("upd", ("acc", ("call", "Vec::new", ())), "push", (val,))
        if m in ("fold", "try_fold") and self.effect_calls and len(e["args"]) == 2 and strip(e["args"][1]).get("k") == "Closure" and "Iterator::" in (callee_generic(e) or ""):
            # effects recorded inside `it.fold(init, |acc, x| ..)` / try_fold happen once per element of `it`, on the accumulator so far
            mark = len(self.out)
            self.loops.append(recv)
            args = [recv] + [self.expr(a, env, depth) for a in e["args"]]
            self.loops.pop()
            cl = args[2]
            if cl[0] == "closure" and len(cl[1]) == 2 and all("/" not in n_ for n_ in cl[1]):
                for i_ in range(mark, len(self.out)):
                    self.out[i_] = subst(self.out[i_], {cl[1][1]: ("each", recv), cl[1][0]: ("acc", args[1])})
        elif m in CLOSURE_LOOPS and self.effect_calls and e["args"] and all(strip(a).get("k") == "Closure" for a in e["args"]) and "Iterator::" in (callee_generic(e) or ""):
            # effects recorded inside `it.map(|x| ..)` / filter / flat_map / inspect happen once per element of `it`
            mark = len(self.out)
            self.loops.append(recv)
            args = [recv] + [self.expr(a, env, depth) for a in e["args"]]
            self.loops.pop()
            cl = args[1]
            if cl[0] == "closure" and len(cl[1]) == 1 and "/" not in cl[1][0]:
                for i_ in range(mark, len(self.out)):
                    self.out[i_] = subst(self.out[i_], {cl[1][0]: ("each", recv)})
        else:
            args = [recv] + [self.expr(a, env, depth) for a in e["args"]]
        self._cur_env = env
        ch = self.entry_chain(e["recv"]) if m in MUTATORS else None
        if ch is not None:
            # `map.entry(k).or_default().push(v)`: the bucket of k (created when missing) is updated in place
            root, key_e = ch
            env[root] = ("upd", env.get(root, ("unknown", "unbound")), "bucket", (self.expr(key_e, env, depth), m, tuple(args[1:])))
            self.write_back(root, env)
            return ("unit",)
        if m in MUTATORS:
            root = self.root_local(e["recv"])
            if root is not None and "&mut" in (e["recv"].get("ty_adj", "") + e["recv"].get("ty", "")):
                fp = hq.field_path(e["recv"])
                mm = m if (fp is None or "." not in fp) else "%s@%s" % (m, fp.split(".", 1)[1])
                env[root] = ("upd", env.get(root, ("unknown", "unbound")), mm, tuple(args[1:]))
                self.write_back(root, env)
        return self.named_call(e, callee_generic(e), callee(e), args, depth)

    def conv(self, e, arg, depth):
        src = strip(e["recv"] if e.get("k") == "MethodCall" else e["args"][0]).get("ty", "").lstrip("&")
        dst = e.get("ty", "")
        if dst == src or dst == "std::boxed::Box<%s>" % src:
            return arg
        # a From impl defined in the crate: inline it
        for b in getattr(self.facts, "all_bodies", self.facts.body_list):
            imp = b.get("impl", {})
            if b["name"] == "from" and imp.get("self_ty") == dst and imp.get("trait", "").endswith("From<%s>" % src):
                if depth < self.inline_depth:
                    return self.function(b, [arg], depth + 1)
                if b["def_path"] in getattr(self.facts, "helpers", ()) and self._helper_depth < 6:
                    # a conversion introduced after the rules were written is a helper of its callers: evaluated in place
                    self._helper_depth += 1
                    try:
                        saved_ret, saved_c, caller_env = self.returns, self.conds, self._cur_env
                        v_ = self.function(b, [arg], depth + 1)
                        self.returns, self.conds, self._cur_env = saved_ret, saved_c, caller_env
                        return v_
                    finally:
                        self._helper_depth -= 1
                return ("call", "From::from[%s<-%s]" % (hq.last(dst), hq.last(src)), (arg,))
        return ("conv", hq.last(dst), arg)

    def apply(self, f, args, depth):
        if f[0] == "ctorfn":
            return ("ctor", f[1], tuple((str(i), a) for i, a in enumerate(args)))
        if f[0] == "closure" and len(f[1]) == len(args) and all("/" not in n for n in f[1]):
            return subst(f[2], dict(zip(f[1], args)))
        if f[0] == "closure":
            return ("apply", f, tuple(args))
        if f[0] == "fn" and len(f) == 2 and isinstance(f[1], str):
            return ("call", f[1], tuple(args))      # a function passed by name and called: the call itself
        return ("callv", f, tuple(args))

    def named_call(self, e, generic, resolved, args, depth):
        name = short(generic)
        if name == "iter::zip":
            name = "Iterator::zip"      # `std::iter::zip(a, b)` is `a.into_iter().zip(b)`
        target = resolved or generic
        if self.effect_calls and name in self.effect_calls:
            self.out.append((self.full_conds(), tuple(self.loops), ("emit", name, tuple(args))))
        if name in ("Display::fmt", "Precedence::fmt_unary", "Precedence::fmt_binary", "Precedence::fmt_operator", "Debug::fmt"):
            self.out.append((self.full_conds(), tuple(self.loops), ("emit", name, tuple(args[:-1]))))
        if name == "mem::take" and len(args) == 1:
            return args[0]      # the value taken out of the place (the place is left empty; the callers that matter assign it again)
        if name in ("Clone::clone", "ToOwned::to_owned") and len(args) == 1 and e.get("k") == "Call":
            return args[0]      # `T::clone(&x)`: the path spelling of `x.clone()`, a copy has the value of the original
        # iterator combinators over closures: keep symbolic but apply ctor functions
        if name in ("Iterator::map", "Option::map", "Iterator::flat_map", "Iterator::filter_map") and len(args) == 2:
            f = args[1]
            if f[0] == "ctorfn":
                return ("call", name, (args[0], ("closure", ("x",), ("ctor", f[1], (("0", ("param", "x")),)))))
        if self.inline is not None and target in self.facts.bodies and depth < self.inline_depth and self.inline(target):
            bs = self.facts.bodies[target]
            if len(bs) == 1:
                return self.function(bs[0], args, depth + 1)
        # structural conversions applied to a literal constructor are evaluated (Formula <-> UnboxedFormula)
        if name in STRUCTURAL and len(args) == 1 and isinstance(args[0], tuple) and args[0][:1] == ("ctor",) and target in self.facts.bodies and len(self.facts.bodies[target]) == 1 \
                and self._helper_depth < 6:
            self._helper_depth += 1
            try:
                saved_ret, saved_c, caller_env = self.returns, self.conds, self._cur_env
                v = self.function(self.facts.bodies[target][0], args, depth + 1)
                self.returns, self.conds, self._cur_env = saved_ret, saved_c, caller_env
                if isinstance(v, tuple) and v[:1] == ("ctor",):
                    return v
            finally:
                self._helper_depth -= 1
        if name in ("Vec::len", "slice::len") and len(args) == 1 and isinstance(args[0], tuple) and args[0] and args[0][0] == "list":
            return ("lit", len(args[0][1]))
        if name in ("Vec::is_empty", "slice::is_empty") and len(args) == 1 and isinstance(args[0], tuple) and args[0] and args[0][0] == "list":
            return ("lit", len(args[0][1]) == 0)
        # a crate-local function that did not exist when the rules were written (rules/known_functions.txt) is a helper extracted later:
        # it is transparent (inlined), so that extracting a helper leaves the templates unchanged
        if target in self.facts.bodies and target not in known_functions() and self._helper_depth < 6 and target not in self._helper_stack \
                and target not in getattr(self, "opaque_helpers", ()):
            bs = self.facts.bodies[target]
            if len(bs) == 1 and len(bs[0].get("params", [])) == len(args):
                self._helper_depth += 1
                self._helper_stack.append(target)
                try:
                    saved_ret, saved_c = self.returns, self.conds
                    caller_env = self._cur_env
                    v = self.function(bs[0], args, depth + 1)
                    self.returns, self.conds = saved_ret, saved_c
                    self._cur_env = caller_env
                    finals = list(self._final_params)
                    arg_nodes = ([e["recv"]] + list(e.get("args", []))) if e.get("k") == "MethodCall" else list(e.get("args", []))
                    if self._cur_env is not None:
                        for i_, an in enumerate(arg_nodes):
                            if i_ < len(finals) and finals[i_] is not None and finals[i_] != args[i_] and "&mut" in (an.get("ty", "") + an.get("ty_adj", "")):
                                root = self.root_local(an.get("e", an)) if an.get("k") in ("AddrOf", "Ref") else self.root_local(an)
                                if root is not None:
                                    self._cur_env[root] = finals[i_]
                    return v
                finally:
                    self._helper_stack.pop()
                    self._helper_depth -= 1
        return ("call", name, tuple(args))


def _leaves_loop_only(e):
    """does the diverging block e end in `continue` / `break` (and nowhere in a `return` or a panic)?"""
    kinds = {n.get("k") for n in hq.walk(e) if isinstance(n, dict)}
    if "Ret" in kinds or any(isinstance(n, dict) and n.get("mac") in ("panic", "unreachable", "todo", "unimplemented") for n in hq.walk(e)):
        return False
    return bool(kinds & {"Continue", "Break"})


PHI_GUARDS = {}    # (("match", scrutinee), "<pattern> if ..") -> {guard term}: see Eval.effect


def diverges(e, panics=True):
    """does control never fall out of the end of expression / block e (it ends in return / break / continue - or a panic - on every path)?"""
    if not isinstance(e, dict):
        return False
    k = e.get("k")
    if k in ("DropTemps", "Use", "Type"):
        return diverges(e["e"], panics)
    if k in ("Ret", "Break", "Continue"):
        return True
    if k == "Block":
        if "mac_src" in e:
            return panics and e.get("mac") in ("panic", "unreachable", "todo", "unimplemented")
        for st in e.get("stmts", []):
            x = st.get("e")
            if st.get("k") != "LetStmt" and isinstance(x, dict) and diverges(x, panics):
                return True
        return "expr" in e and diverges(e["expr"], panics)
    if k == "If":
        return "else" in e and diverges(e["then"], panics) and diverges(e["else"], panics)
    if k == "Match" and e.get("src") == "Normal":
        return bool(e["arms"]) and all(diverges(a["body"], panics) for a in e["arms"])
    return False


_KNOWN = None


def known_functions():
    global _KNOWN
    if _KNOWN is None:
        import os
        p = os.path.join(os.path.dirname(os.path.abspath(__file__)), "known_functions.txt")
        with open(p) as fh:
            _KNOWN = {l.strip() for l in fh if l.strip() and not l.startswith("#")}
    return _KNOWN


def decide_bool(t):
    """truth value of a condition term over literal values, or None"""
    if not isinstance(t, tuple) or not t:
        return None
    if t[0] == "lit" and isinstance(t[1], bool):
        return t[1]
    if t[0] == "matches" and isinstance(t[1], tuple) and t[1] and t[1][0] == "ctor":
        name = t[1][1]
        hits = [p for p in t[2] if p == name or p.startswith(name + "(") or p.startswith(name + "{") or p == "_"]
        if hits:
            return True
        if all(p.split("(")[0].split("{")[0].split("::")[0] == name.split("::")[0] for p in t[2]):
            return False
        return None
    if t[0] == "matches" and isinstance(t[1], tuple) and t[1] and t[1][0] == "list" and t[1][1] and all(isinstance(x, tuple) and x[:1] == ("ctor",) and not x[2] for x in t[1][1]):
        # `matches!((a, b), (P, Q | R) | ..)` on a pair of literal constants: decided by the pattern trees
        from .leaves import pat_tests, parse_pat
        rs = [pat_tests(t[1], parse_pat(p)) for p in t[2]]
        if any(r == [] for r in rs):
            return True
        if all(r is False for r in rs):
            return False
        return None
    if t[0] == "call" and len(t) == 3 and len(t[2]) == 1 and isinstance(t[2][0], tuple) and t[2][0][:1] == ("ctor",) \
            and t[1] in ("Option::is_none", "Option::is_some", "Result::is_ok", "Result::is_err"):
        side = {"Option::is_none": "Option::None", "Option::is_some": "Option::Some", "Result::is_ok": "Result::Ok", "Result::is_err": "Result::Err"}[t[1]]
        if t[2][0][1].split("::")[0] == side.split("::")[0]:
            return t[2][0][1] == side
        return None
    if t[0] == "op" and t[1] == "Not":
        v = decide_bool(t[2])
        return None if v is None else (not v)
    if t[0] == "bin" and t[1] in ("And", "Or"):
        a, b = decide_bool(t[2]), decide_bool(t[3])
        if t[1] == "And":
            if a is False or b is False:
                return False
            return True if (a and b) else None
        if a is True or b is True:
            return True
        return False if (a is False and b is False) else None
    if t[0] == "bin" and t[1] in ("Eq", "Ne", "Lt", "Le", "Gt", "Ge") and all(isinstance(x, tuple) and x and x[0] == "lit" and isinstance(x[1], (int, float)) and not isinstance(x[1], bool) for x in (t[2], t[3])):
        a, b = t[2][1], t[3][1]
        return {"Eq": a == b, "Ne": a != b, "Lt": a < b, "Le": a <= b, "Gt": a > b, "Ge": a >= b}[t[1]]
    if t[0] == "bin" and t[1] in ("Eq", "Ne") and all(isinstance(x, tuple) and x and x[0] == "ctor" and not x[2] for x in (t[2], t[3])):
        same = t[2][1] == t[3][1]
        return same if t[1] == "Eq" else not same
    return None


def proj_reduce(term, path):
    """('proj', term, path) with leading steps through literal constructors / tuples resolved"""
    while path and isinstance(term, tuple) and term:
        head, f = path[0]
        if term[0] == "ctor" and (head == term[1]):
            hit = [v for k, v in term[2] if k == f]
            if not hit:
                break
            term, path = hit[0], path[1:]
        elif term[0] == "list" and head == "tuple" and f.isdigit() and int(f) < len(term[1]):
            term, path = term[1][int(f)], path[1:]
        else:
            break
    return term if not path else ("proj", term, path)


def pat_vs_term(p, t):
    """Does HIR pattern p match the term t?  True / False / None (cannot tell)."""
    k = p.get("p")
    if k in ("Wild",):
        return True
    if k == "Bind":
        return pat_vs_term(p["sub"], t) if "sub" in p else True
    if k in ("Ref", "Box", "Deref"):
        return pat_vs_term(p["pat"], t)
    if k == "Or":
        rs = [pat_vs_term(q, t) for q in p["pats"]]
        if any(r is True for r in rs):
            return True
        if all(r is False for r in rs):
            return False
        return None
    if not (isinstance(t, tuple) and t):
        return None
    if k == "Lit":
        if t[0] == "lit":
            v = p.get("v")
            if p.get("neg") and isinstance(v, (int, float)):
                v = -v
            return v == t[1]
        return None
    if k == "Range":
        if t[0] == "lit" and isinstance(t[1], int) and not isinstance(t[1], bool):
            from . import peval
            lo, hi = peval._bound(p, "lo"), peval._bound(p, "hi")
            if lo is peval.UNKNOWN or hi is peval.UNKNOWN:
                return None
            if lo is not None and t[1] < lo:
                return False
            if hi is not None and (t[1] > hi or (t[1] == hi and p.get("end") != "Included")):
                return False
            return True
        return None
    if k in ("Path", "TupleStruct", "Struct"):
        r = p.get("res", {})
        if r.get("r") != "ctor" or t[0] != "ctor":
            return None
        head = "%s::%s" % (hq.last(r.get("adt", "?")), r.get("variant")) if r.get("variant") else hq.last(r.get("adt", "?"))
        if t[1] != head:
            # different variant of the same enum (or a different type altogether: cannot tell)
            return False if t[1].split("::")[0] == head.split("::")[0] else None
        fields = dict(t[2])
        res = True
        subs = []
        if k == "TupleStruct":
            subs = [(str(i), q) for i, q in enumerate(p["pats"])]
        elif k == "Struct":
            subs = [(f["name"], f["pat"]) for f in p["fields"]]
        for name, q in subs:
            if name not in fields:
                if pat_vs_term(q, ("unknown",)) is not True:
                    res = None
                continue
            m = pat_vs_term(q, fields[name])
            if m is False:
                return False
            if m is None:
                res = None
        return res
    if k == "Slice" and t[0] == "list":
        nb, na, n_ = len(p.get("before", [])), len(p.get("after", [])), len(t[1])
        if ("mid" in p and n_ < nb + na) or ("mid" not in p and n_ != nb + na):
            return False
        res = True
        for q, x in list(zip(p.get("before", []), t[1])) + list(zip(p.get("after", []), t[1][n_ - na:] if na else ())):
            m = pat_vs_term(q, x)
            if m is False:
                return False
            if m is None:
                res = None
        return res
    if k == "Tuple" and t[0] == "list" and len(t[1]) == len(p["pats"]):
        res = True
        for q, x in zip(p["pats"], t[1]):
            m = pat_vs_term(q, x)
            if m is False:
                return False
            if m is None:
                res = None
        return res
    return None


def subst(t, mapping):
    """Replace ('param', name) by mapping[name]; nested closures that rebind a name shadow it.
    ('place', 'name.a.b') rooted in a substituted parameter is re-rooted."""
    if not isinstance(t, tuple):
        return t
    if len(t) == 2 and t[0] == "param" and t[1] in mapping:
        return mapping[t[1]]
    if len(t) == 2 and t[0] == "place":
        root, _, rest = t[1].partition(".")
        if root in mapping:
            base = mapping[root]
            for name in rest.split("."):
                if base[0] in ("place",):
                    base = ("place", base[1] + "." + name)
                elif base[0] == "param":
                    base = ("place", base[1] + "." + name)
                elif base[0] == "ctor" and any(f == name for f, _ in base[2]):
                    base = [v for f, v in base[2] if f == name][0]
                else:
                    base = ("fieldof", base, name)
            return base
        return t
    if len(t) == 3 and t[0] == "closure":
        inner = {k: v for k, v in mapping.items() if k not in t[1] and not any(k in n.split("/") for n in t[1])}
        return ("closure", t[1], subst(t[2], inner))
    r = tuple(subst(x, mapping) for x in t)
    if len(r) == 3 and r[0] == "proj" and isinstance(r[2], tuple):
        return proj_reduce(r[1], r[2])
    return r


def set_at(term, path, value):
    """term with the part at `path` (as in ('proj', term, path)) replaced by value; literal constructors / tuples are rebuilt"""
    if not path:
        return value
    head, f = path[0]
    if isinstance(term, tuple) and term[:1] == ("ctor",) and term[1] == head:
        return ("ctor", term[1], tuple((k, set_at(v, path[1:], value) if k == f else v) for k, v in term[2]))
    if isinstance(term, tuple) and term[:1] == ("list",) and head == "tuple" and f.isdigit() and int(f) < len(term[1]):
        i = int(f)
        return ("list", tuple(set_at(v, path[1:], value) if j == i else v for j, v in enumerate(term[1])))
    return ("upd", term, "set@" + ".".join("%s.%s" % hf for hf in path), (value,))


def anon_names(t, nargs):
    """a format template with its named placeholders made positional (`{v}_g` -> `{}_g`): the name is a local's, not output.  Only when every
    placeholder has its own argument (the arguments are in placeholder order then); `{x}{x}` / `{0}{0}` share one and are left as written"""
    import re as _re
    if not isinstance(t, str):
        return t
    parts = _re.split(r"(\{\{|\}\}|\{[^{}]*\})", t)
    ph = [p_ for p_ in parts if p_.startswith("{") and p_.endswith("}") and p_ not in ("{{", "}}")]
    names = [p_[1:-1].split(":")[0] for p_ in ph]
    named = [n for n in names if n]
    if len(ph) != nargs or len(set(named)) != len(named) or any(n.isdigit() for n in named):
        return t
    return "".join("{" + p_[1:-1][len(p_[1:-1].split(":")[0]):] + "}" if p_ in ph else p_ for p_ in parts)


def anon_format(t):
    """format / write templates in one spelling: named placeholders made positional (`{i}` -> `{}`; the arguments are already in placeholder
    order), literal string / integer arguments folded into the text"""
    import re as _re
    if not isinstance(t, tuple):
        return t
    t = tuple(anon_format(x) for x in t)
    if t[:1] in (("format",), ("write",)) and len(t) == 3 and isinstance(t[1], str) and isinstance(t[2], tuple):
        parts = _re.split(r"(\{\{|\}\}|\{[^{}]*\})", t[1])
        out, args, k = [], [], 0
        for p_ in parts:
            if p_.startswith("{") and p_.endswith("}") and p_ not in ("{{", "}}"):
                spec = p_[1:-1]
                fmt = spec[spec.index(":"):] if ":" in spec else ""
                a = t[2][k] if k < len(t[2]) else None
                k += 1
                if not fmt and isinstance(a, tuple) and a[:1] == ("lit",) and isinstance(a[1], (str, int)) and not isinstance(a[1], bool):
                    out.append(str(a[1]).replace("{", "{{").replace("}", "}}"))
                else:
                    out.append("{%s}" % fmt)
                    args.append(a)
            else:
                out.append(p_)
        if k == len(t[2]):
            return (t[0], "".join(out), tuple(args))
    return t


def drop_never(t):
    """a match of which exactly one arm yields a value (the others leave the function) is that value"""
    if not isinstance(t, tuple):
        return t
    t = tuple(drop_never(x) for x in t)
    if t[:1] == ("match",) and len(t) == 3 and isinstance(t[2], tuple) and t[2] and all(isinstance(a, tuple) and len(a) == 2 for a in t[2]):
        live = [a for a in t[2] if a[1] != ("never",)]
        if len(live) == 1 and len(t[2]) > 1:
            return live[0][1]
    return t


def subterms(t):
    yield t
    if isinstance(t, tuple):
        for x in t:
            if isinstance(x, tuple):
                yield from subterms(x)


def pretty(t, ind=0, width=110):
    import pprint
    return pprint.pformat(t, width=width, compact=True)
