"""Collections built by loops or by iterator chains, in one canonical form (a comprehension).

`let mut out = Vec::new(); for x in L { if T(x) { out.push(G(x)) } }`, `L.iter().filter(|x| T(x)).map(|x| G(x)).collect()` and
`L.iter().filter_map(|x| if T(x) { Some(G(x)) } else { None }).collect()` build the same collection.  `coll` turns the term sym.Eval
produced for any of them into a tuple of groups (loops), in the order they run:

    (sources, ((tests, element), ...))

sources  the collections iterated, outermost first (normalised, themselves canonical); () for additions made outside any loop
tests    frozenset of facts (rules/leaves.py) under which the element is added, over ('at', source) for the current element of a source
element  what is added, over ('at', source)

The alternatives of one group are what one pass of the loop body adds, in program order (sorted when no two can happen together, so that
`if c { push(a) } else { push(b) }` and `if !c { push(b) } else { push(a) }` agree); two loops one after the other stay two groups.

A collection that is itself built from another one is flattened: iterating `A ++ [f(x) | x in B]` with a filter and a map is the filtered,
mapped A followed by the filtered, mapped f-images of B.  Whatever is not recognised stays an opaque source, so two spellings that this module
does not relate simply compare unequal - never equal by accident.
"""
from . import sym
from .leaves import (norm, replace, strip_acc, cond_tests, pat_tests, parse_pat, negate, leaves as _decision_leaves, _apply, lift_proj, stable_key)

ADD_ONE = {"push", "insert", "push_back", "insert_full"}
ADD_MANY = {"extend", "append", "extend_from_slice"}
KEYS = {"IndexMap::keys": "0", "IndexMap::into_keys": "0", "HashMap::keys": "0", "BTreeMap::keys": "0", "HashMap::into_keys": "0", "BTreeMap::into_keys": "0",
        "IndexMap::values": "1", "IndexMap::into_values": "1", "HashMap::values": "1", "BTreeMap::values": "1", "HashMap::into_values": "1", "BTreeMap::into_values": "1"}
PASS = {"Iterator::inspect", "Iterator::peekable", "Iterator::by_ref", "Iterator::fuse", "Iterator::cloned", "Iterator::copied", "Iterator::collect", "IntoIterator::into_iter"}


class NotAComprehension(Exception):
    pass


FACTS = None      # set by use(fx): lets a helper passed as a function value (`.filter_map(head_predicate)`) be seen through like a closure


def use(fx):
    global FACTS
    FACTS = fx


def _app(f, arg):
    if isinstance(f, tuple) and f and f[0] == "fn":
        from .flow import short
        if FACTS is not None:
            hs = [dp for dp in getattr(FACTS, "helpers", ()) if dp == f[1] or dp.endswith("::" + f[1])]
            if len(hs) == 1 and len(FACTS.bodies.get(hs[0], ())) == 1:
                return sym.Eval(FACTS, inline_depth=0).function(FACTS.bodies[hs[0]][0], [arg])
        return ("call", short(f[1]), (arg,))
    return _apply(f, arg)


def _on_option(o, some_fn, none_val):
    """`match o { Some(x) => some_fn(x), None => none_val }`, decided on the leaves of o where they are literal"""
    if _is_cond(o):
        return _rebuild(o, lambda v: v if (isinstance(v, tuple) and v[:1] in (("never",), ("panic",))) else _on_option(v, some_fn, none_val))
    if isinstance(o, tuple) and o[:2] == ("ctor", "Option::Some"):
        return some_fn(dict(o[2])["0"])
    if isinstance(o, tuple) and o[:2] == ("ctor", "Option::None"):
        return none_val
    return ("match", o, (("Option::Some(_)", some_fn(("proj", o, (("Option::Some", "0"),)))), ("Option::None", none_val)))


def is_empty_ctor(t):
    return isinstance(t, tuple) and t[:1] == ("call",) and isinstance(t[1], str) and t[1].endswith(("::new", "::default", "::with_capacity")) and len(t[2]) <= 1 \
        and not (t[1].endswith(("::new", "::default")) and t[2])


def case_of_case(t):
    """`match (match s { p => A, q => B }) { arms }` = `match s { p => match A { arms }, q => match B { arms } }`, and the same for
    `Option::is_some_and(o, f)` / `is_none_or` / `map_or(d, f)` written as matches: decisions on a decision are decisions on its leaves"""
    if not isinstance(t, tuple) or not t:
        return t
    if t[0] == "closure":
        return t
    t = tuple(case_of_case(x) if isinstance(x, tuple) else x for x in t)
    if t[:1] == ("call",) and len(t) == 3 and isinstance(t[2], tuple):
        n, a = t[1], t[2]
        if n == "Option::is_some_and" and len(a) == 2:
            return case_of_case(_on_option(a[0], lambda x: _app(a[1], x), ("lit", False)))
        if n == "Option::is_none_or" and len(a) == 2:
            return case_of_case(_on_option(a[0], lambda x: _app(a[1], x), ("lit", True)))
        if n == "Option::map_or" and len(a) == 3:
            return case_of_case(_on_option(a[0], lambda x: _app(a[2], x), a[1]))
        lit_opt = bool(a) and isinstance(a[0], tuple) and (a[0][:2] in (("ctor", "Option::Some"), ("ctor", "Option::None")) or _is_cond(a[0]))
        if n == "Option::map" and len(a) == 2 and lit_opt:
            return case_of_case(_on_option(a[0], lambda x: ("ctor", "Option::Some", (("0", _app(a[1], x)),)), ("ctor", "Option::None", ())))
        if n == "Option::unwrap_or" and len(a) == 2 and lit_opt:
            return case_of_case(_on_option(a[0], lambda x: x, a[1]))
        if n == "Option::unwrap_or_else" and len(a) == 2 and lit_opt and isinstance(a[1], tuple) and a[1][:1] == ("closure",) and not a[1][1]:
            return case_of_case(_on_option(a[0], lambda x: x, a[1][2]))
        lit_res = bool(a) and isinstance(a[0], tuple) and a[0][:2] in (("ctor", "Result::Ok"), ("ctor", "Result::Err"))
        if lit_res and n in ("Result::map", "Result::and_then", "Result::map_err", "Result::or_else") and len(a) == 2:
            ok_side = a[0][1] == "Result::Ok"
            inner = dict(a[0][2]).get("0")
            if n == "Result::map":
                return case_of_case(("ctor", "Result::Ok", (("0", _app(a[1], inner)),))) if ok_side else a[0]
            if n == "Result::and_then":
                return case_of_case(_app(a[1], inner)) if ok_side else a[0]
            if n == "Result::map_err":
                return a[0] if ok_side else case_of_case(("ctor", "Result::Err", (("0", _app(a[1], inner)),)))
            if n == "Result::or_else":
                return a[0] if ok_side else case_of_case(_app(a[1], inner))
        if n == "Option::is_some" and len(a) == 1 and _is_cond(a[0]):
            return case_of_case(_on_option(a[0], lambda x: ("lit", True), ("lit", False)))
        if n == "Option::is_none" and len(a) == 1 and _is_cond(a[0]):
            return case_of_case(_on_option(a[0], lambda x: ("lit", False), ("lit", True)))
    if t[0] == "match" and len(t) == 3 and isinstance(t[2], tuple) and _is_cond(t[1]):
        inner = t[1]

        def outer(v):
            if isinstance(v, tuple) and v[:1] in (("never",), ("panic",)):
                return v
            return _match_on(v, _subst_scrutinee(t[2], inner, v))
        return _rebuild(inner, outer)
    if t[0] == "proj" and len(t) == 3 and _is_cond(t[1]):
        return case_of_case(lift_proj(t))
    return t


def decide_literals(t, depth=0):
    """decisions on literal constructors taken (bottom-up): `match <ctor> { .. }` is its matching arm, `if let P = <ctor>` is decided, a
    projection through the decided value is reduced.  For terms specialised on a concrete input after they were evaluated on a parameter."""
    if not isinstance(t, tuple) or not t or depth > 60:
        return t
    if t[0] == "closure":
        return t
    t = tuple(decide_literals(x, depth + 1) if isinstance(x, tuple) else x for x in t)
    if t[0] == "match" and len(t) == 3 and isinstance(t[2], tuple) and isinstance(t[1], tuple) and t[1][:1] == ("ctor",):
        for arm in t[2]:
            r = pat_tests(t[1], parse_pat(arm[0]))
            if r is False:
                continue
            if r == [] and len(arm) == 2:
                return decide_literals(norm(arm[-1]), depth + 1)
            break
        return t
    if t[0] == "iflet" and len(t) == 3 and isinstance(t[2], tuple) and t[2][:1] == ("ctor",):
        r = pat_tests(t[2], parse_pat(t[1]))
        if r == []:
            return ("lit", True)
        if r is False:
            return ("lit", False)
        return t
    if t[0] == "if" and len(t) == 4:
        dv = sym.decide_bool(t[1])
        if dv is not None:
            return t[2] if dv else t[3]
        return t
    if t[0] == "phi" and len(t) == 3 and t[1][:1] == ("if",):
        dv = sym.decide_bool(t[1][1])
        if dv is not None:
            for lab, v in t[2]:
                if (lab == "then") == dv:
                    return v
        return t
    if t[0] == "returns" and len(t) == 2:
        # early exits whose conditions are decided: the first one taken is the value
        keep = []
        for conds, val in t[1]:
            if conds == ("fallthrough",):
                if not keep:
                    return val
                keep.append((conds, val))
                break
            ds = [sym.decide_bool(c_[0]) if not (isinstance(c_[0], tuple) and c_[0][:1] == ("arm",)) else None for c_ in conds]
            if any(d is not None and d is not c_[1] for d, c_ in zip(ds, conds)):
                continue          # an exit that is not taken
            if all(d is not None for d in ds) and not keep:
                return val
            keep.append((conds, val))
        return ("returns", tuple(keep))
    if t[0] == "proj":
        return norm(t)
    if t[0] == "try" and len(t) == 2 and isinstance(t[1], tuple) and t[1][:2] in (("ctor", "Option::Some"), ("ctor", "Result::Ok")) and dict(t[1][2]).get("0") is not None:
        return dict(t[1][2])["0"]       # `Some(x)?` is x
    if t[0] == "fieldof" and len(t) == 3 and isinstance(t[1], tuple) and t[1][:1] == ("ctor",) and t[2] in dict(t[1][2]):
        return dict(t[1][2])[t[2]]
    return t


def early_exit(t):
    """the value a function leaves with when a `?` inside the (decided) term meets a literal None / Err: that literal; else None"""
    for x in sym.subterms(t):
        if isinstance(x, tuple) and x[:1] == ("try",) and len(x) == 2 and isinstance(x[1], tuple) and x[1][:2] in (("ctor", "Option::None"), ("ctor", "Result::Err")):
            return x[1]
    return None


def _is_cond(x):
    return isinstance(x, tuple) and x and ((x[0] == "if" and len(x) == 4) or (x[0] == "match" and len(x) == 3 and isinstance(x[2], tuple)) or (x[0] == "phi" and len(x) == 3))


def _rebuild(c, f):
    if c[0] == "if":
        return ("if", c[1], f(c[2]), f(c[3]))
    if c[0] == "match":
        return ("match", c[1], tuple(a[:-1] + (f(a[-1]),) for a in c[2]))
    return ("phi", c[1], tuple((lab, f(v)) for lab, v in c[2]))


def _match_on(v, arms):
    """`match v { arms }` with the projections of the scrutinee in the arm bodies re-rooted at v; decided at once when v is a literal constructor"""
    if isinstance(v, tuple) and v[:1] == ("ctor",):
        for arm in arms:
            r = pat_tests(v, parse_pat(arm[0]))
            if r is False:
                continue
            if r == [] and len(arm) == 2:
                return arm[-1]
            break
    return ("match", v, arms)


def _subst_scrutinee(arms, old, new):
    return tuple(a[:-1] + (norm(replace(a[-1], {old: new})),) for a in arms)


# ------------------------------------------------------------------ raw guarded additions
def _adds(t, conds, out):
    """flatten an accumulator term into its base and the guarded additions made to it, in order.
    Returns the base term (what the accumulator was before any of these additions)."""
    if not isinstance(t, tuple) or not t:
        raise NotAComprehension(repr(t)[:80])
    if t[0] == "acc" and len(t) == 2:
        return t[1]
    if t[0] == "upd" and len(t) == 4 and "@" not in t[2]:
        if t[2] in ADD_ONE:
            base = _adds(t[1], conds, out)
            out.append((conds, "one", t[3][0] if len(t[3]) == 1 else ("list", tuple(t[3]))))
            return base
        if t[2] in ADD_MANY and len(t[3]) == 1:
            base = _adds(t[1], conds, out)
            out.append((conds, "many", t[3][0]))
            return base
        if t[2] == "bucket" and len(t[3]) == 3:
            base = _adds(t[1], conds, out)
            out.append((conds, "one", ("bucket", t[3][0], t[3][1], t[3][2])))
            return base
        if t[2] == "entry" and len(t[3]) == 2:
            b = _entry_idiom(t[3][1])
            if b is not None:
                base = _adds(t[1], conds, out)
                out.append((conds, "one", ("bucket", t[3][0]) + b))
                return base
        raise NotAComprehension("update %s" % t[2])
    if t[0] == "phi" and len(t) == 3:
        key, arms = t[1], t[2]
        bases = []
        if key[0] == "if":
            for lab, v in arms:
                bases.append(_adds(v, conds + ((("c", key[1]), lab == "then"),), out))
        elif key[0] == "match":
            earlier = ()
            for arm in arms:
                pk, v = arm[0], arm[-1]
                own = (("arm", key[1], pk), True)
                g = ()
                if len(arm) == 3 and isinstance(arm[1], tuple) and arm[1][:1] == ("guard",):
                    g = ((("c", arm[1][1]), True),)
                elif len(arm) == 2 and isinstance(pk, str) and pk.endswith(" if .."):
                    gs = sym.PHI_GUARDS.get((key, pk), ())
                    if len(gs) != 1:
                        raise NotAComprehension("guard of arm `%s` not known" % pk)
                    pk = pk[:-len(" if ..")]
                    own = (("arm", key[1], pk), True)
                    g = ((("c", next(iter(gs))), True),)
                bases.append(_adds(v, conds + earlier + (own,) + g, out))
                earlier = earlier + ((("armg", key[1], pk, g[0][0][1] if g else None), False),)
        else:
            raise NotAComprehension("phi %s" % (key[0],))
        bases = [b for b in bases]
        if any(b != bases[0] for b in bases[1:]):
            raise NotAComprehension("branches do not extend one accumulator")
        return bases[0]
    if t[0] in ("upd", "phi"):
        raise NotAComprehension("update %s" % (t[2] if t[0] == "upd" else "phi"))
    return t      # anything else is what the accumulator was before: an iterator chain collected, a parameter, ...


def _entry_idiom(arms):
    """`match m.entry(k) { Occupied(e) => e.get_mut().push(v), Vacant(e) => e.insert(vec![v]) }` is `m.entry(k).or_default().push(v)`:
    (method, args) of the update made to the bucket, or None for any other pair of arms"""
    if not (isinstance(arms, tuple) and arms[:1] == ("arms",) and len(arms[1]) == 2):
        return None
    d = {a[0]: a[1] for a in arms[1]}
    occ, vac = d.get("Entry::Occupied(_)"), d.get("Entry::Vacant(_)")
    if not (occ and vac and len(occ) == 1 and len(vac) == 1):
        return None
    o, v = occ[0], vac[0]
    E = ("entry",)
    if not (o[:1] == ("call",) and o[1] in ("Vec::push", "Vec::extend", "IndexSet::insert", "HashSet::insert", "BTreeSet::insert") and len(o[2]) == 2
            and o[2][0] in (("call", "OccupiedEntry::get_mut", (("proj", E, (("Entry::Occupied", "0"),)),)), ("call", "OccupiedEntry::into_mut", (("proj", E, (("Entry::Occupied", "0"),)),)))):
        return None
    m, x = o[1].split("::")[1], o[2][1]
    if m == "push" and v == ("call", "VacantEntry::insert", (("proj", E, (("Entry::Vacant", "0"),)), ("list", (x,)))):
        return ("push", (x,))
    return None


def _raw_tests(c, pol):
    """facts for one raw condition of _adds; False when it cannot hold"""
    k = c[0]
    if k == "c":
        return _bool_tests(c[1], pol)
    if k == "arm":
        r = pat_tests(c[1], parse_pat(c[2]))
        if pol:
            return r
        if r == []:
            return False
        return [] if r is False else [negate(r)]
    if k == "armg":
        r = pat_tests(c[1], parse_pat(c[2]))
        if r is False:
            return [] if not pol else False
        g = _bool_tests(c[3], True) if c[3] is not None else []
        if g is False:
            return [] if not pol else False
        both = r + g
        if pol:
            return both
        if not both:
            return False
        return [negate(both)]
    raise NotAComprehension(k)


def _bool_tests(c, pol):
    """facts under which the boolean term c is pol: through its decision tree when it has one"""
    c = case_of_case(norm(c))
    if _is_cond(c) or (isinstance(c, tuple) and c[:1] in (("returns",), ("bin",), ("op",))):
        from .leaves import bool_leaves
        try:
            paths = [tuple(ts) for ts, v in bool_leaves(c) if v == ("lit", pol)]
        except Exception:
            return cond_tests(c, pol)
        if not paths:
            return False
        if any(p == () for p in paths):
            return []
        if len(paths) == 1:
            return list(paths[0])
        return [("or", tuple(sorted(set(paths), key=stable_key)))]
    return cond_tests(c, pol)


def _top_eachs(ts):
    """the ('each', ITER) sub-terms of the given terms that are not inside the iterable of another one"""
    found = []

    def go(x):
        if not isinstance(x, tuple):
            return
        if len(x) == 2 and x[0] == "each":
            if x not in found:
                found.append(x)
            return
        if x[:1] == ("closure",):
            return
        if x[:1] in (("upd",), ("phi",)):
            b = _loop_base(x)
            if b is not None:
                # an accumulation of a finished loop: its loop variable is bound there; only what it started from can mention ours
                go(b)
                return
        for y in x:
            go(y)
    for t in ts:
        go(t)
    return found


def _loop_base(x):
    """for a term that extends ('acc', B) - the value a loop accumulates into - the B it started from; None for anything else"""
    while isinstance(x, tuple) and x:
        if x[0] == "acc" and len(x) == 2:
            return x[1]
        if x[0] == "upd" and len(x) == 4:
            x = x[1]
        elif x[0] == "phi" and len(x) == 3 and x[2]:
            x = x[2][0][-1]
        else:
            return None
    return None


def _finish_tests(tests):
    seen, clean = set(), []
    for x in tests:
        x = sym.anon_format(x)     # the same spelling of format terms as in elements (literal arguments folded into the text)
        if x in seen:
            continue
        seen.add(x)
        clean.append(x)
    for x in clean:
        if x[0] == "cond" and ("cond", x[1], not x[2]) in seen:
            return None
        if x[0] == "is" and any(y[0] == "is" and y[1] == x[1] and y[2] != x[2] and y[2].split("::")[0] == x[2].split("::")[0] for y in clean):
            return None
        if x[0] == "not" and len(x[1]) == 1 and x[1][0] in seen:
            return None
    # `s is not V` says nothing once `s is W` (another variant of the same enum) is known
    clean = [x for x in clean if not (x[0] == "not" and len(x[1]) == 1 and x[1][0][0] == "is" and any(
        y[0] == "is" and y[1] == x[1][0][1] and y[2] != x[1][0][2] and y[2].split("::")[0] == x[1][0][2].split("::")[0] for y in clean))]
    return frozenset(clean)


def _exclusive(a, b):
    """can the fact sets a and b not hold together? (a test of one is the negation of a test of the other, or they name two variants of one value)"""
    for x in a:
        for y in b:
            if x[0] == "cond" and y[0] == "cond" and x[1] == y[1] and x[2] != y[2]:
                return True
            if x[0] == "is" and y[0] == "is" and x[1] == y[1] and x[2] != y[2] and x[2].split("::")[0] == y[2].split("::")[0]:
                return True
            if (x[0] == "not" and len(x[1]) == 1 and x[1][0] == y) or (y[0] == "not" and len(y[1]) == 1 and y[1][0] == x):
                return True
    return False


def _group(src, alts):
    """one loop over src: per element, the guarded additions in program order - in one fixed order when no two of them can happen together"""
    alts = list(alts)
    if len(alts) > 1 and all(_exclusive(a[0], b[0]) for i, a in enumerate(alts) for b in alts[i + 1:]):
        alts.sort(key=stable_key)
    return (tuple(src), tuple(alts))


def _merge(groups):
    """consecutive groups over the same sources that stem from one loop body are one loop"""
    out = []
    for g in groups:
        if out and out[-1][0] == g[0] and g[0]:
            out[-1] = (g[0], out[-1][1] + tuple(g[1]))
        else:
            out.append((g[0], tuple(g[1])))
    return [_group(s_, a_) for s_, a_ in out]


def _split_decision(tests, elem):
    """an element that is itself a decision (`if c { a } else { b }`, an early `return` in the mapped helper) is one alternative per outcome"""
    e = case_of_case(elem) if isinstance(elem, tuple) else elem
    if _is_cond(e) or (isinstance(e, tuple) and e[:1] == ("returns",)):
        out = []
        from . import leaves as _L
        with _L.self_contained():
            lvs = _decision_leaves(e)
        for lts, lv in lvs:
            if isinstance(lv, tuple) and lv[:1] in (("never",), ("panic",)):
                continue
            if lv == ("unit",) and e[:1] == ("returns",):
                continue      # the fall-through of a helper whose every path returned
            ft = _finish_tests(list(tests) + list(lts))
            if ft is not None:
                out.append((ft, canon(lv)))
        return out
    return [(frozenset(tests), canon(elem))]


def _expand_batch(adds, ctx_src, ctx_tests, depth):
    """groups of one batch of guarded additions (one loop body, or straight-line code): loops resolved outermost first"""
    if depth > 10:
        raise NotAComprehension("nesting")
    eachs = _top_eachs([c[0] for conds, _, _ in adds for c in conds] + [term for _, _, term in adds])
    if eachs:
        eachs.sort(key=lambda e: (len(_top_eachs([e[1]])), len(repr(e))))
        e = eachs[0]
        groups = []
        for src_i, alts_i in coll_src(e[1], depth + 1):
            here = []
            for t_i, e_i in alts_i:
                m = {e: e_i}
                sub = _finish_tests(list(ctx_tests) + list(t_i))
                if sub is None:
                    continue
                adds2 = [(tuple((replace(c, m), pol) for c, pol in conds), kind, replace(term, m)) for conds, kind, term in adds]
                here += _expand_batch(adds2, ctx_src + tuple(x for x in src_i if x not in ctx_src), sub, depth + 1)
            groups += _merge(here)
        return groups
    alts = []
    groups = []
    for conds, kind, term in adds:
        tests = list(ctx_tests)
        dead = False
        for c, pol in conds:
            r = _raw_tests(c, pol)
            if r is False:
                dead = True
                break
            tests += r
        ft = None if dead else _finish_tests(tests)
        if ft is None:
            continue
        if kind == "one":
            alts += _split_decision(ft, term)
        elif ctx_src:
            # `for x in L { out.extend(F(x)) }` is `L.flat_map(F)`: a nested loop over F(x)
            if alts:
                groups.append(_group(ctx_src, alts))
                alts = []
            for s2, a2 in coll_src(term, depth + 1):
                a3 = []
                for t2, e2 in a2:
                    f2 = _finish_tests(list(ft) + list(t2))
                    if f2 is not None:
                        a3.append((f2, e2))
                groups.append(_group(ctx_src + tuple(x for x in s2 if x not in ctx_src), a3))
        else:
            # a whole collection appended outside any loop: its groups follow, each under the conditions of the append
            if alts:
                groups.append(_group(ctx_src, alts))
                alts = []
            for s2, a2 in coll_src(term, depth + 1):
                a3 = []
                for t2, e2 in a2:
                    f2 = _finish_tests(list(ft) + list(t2))
                    if f2 is not None:
                        a3.append((f2, e2))
                groups.append(_group(s2, a3))
    if alts:
        groups.append(_group(ctx_src, alts))
    return groups


# ------------------------------------------------------------------ the canonical form
def coll(t, depth=0):
    """groups of the collection-valued term t; raises NotAComprehension when t is not a recognised way of building a collection"""
    if depth > 10:
        raise NotAComprehension("nesting")
    if not isinstance(t, tuple) or not t:
        raise NotAComprehension("atom")
    if t[0] == "acc" and len(t) == 2:
        # the value an accumulator has at the head of a loop, read inside the loop: what it started from plus whatever earlier passes added -
        # not a collection this term builds
        raise NotAComprehension("loop-head value")
    if is_empty_ctor(t):
        return []
    if t[0] == "list" and len(t) == 2:
        return [_group((), [(frozenset(), canon(x))]) for x in t[1]]
    if t[0] == "upd" and len(t) == 4 and t[2] == "retain" and len(t[3]) == 1 and isinstance(t[3][0], tuple) and t[3][0][:1] == ("closure",) and len(t[3][0]) == 3:
        # `xs.retain(|x| keep(x))` is xs filtered by keep, in order; a map hands its closure the key and the value of an entry
        cl = t[3][0]
        if len(cl[1]) == 2 and all("/" not in n_ for n_ in cl[1]):
            pair = ("param", "$entry")
            cl = ("closure", ("$entry",), sym.subst(cl[2], {cl[1][0]: ("proj", pair, (("tuple", "0"),)), cl[1][1]: ("proj", pair, (("tuple", "1"),))}))
        if len(cl[1]) == 1:
            return coll(("call", "Iterator::filter", (t[1], cl)), depth)
    if t[0] in ("upd", "phi"):
        adds = []
        base = _adds(t, (), adds)
        return list(coll_src(base, depth + 1)) + _expand_batch(adds, (), frozenset(), depth + 1)
    if (t[0] == "match" and len(t) == 3 and isinstance(t[2], tuple)) or (t[0] == "if" and len(t) == 4):
        # a decision between collections (`match x { A => vec![a], B => vec![b, c], _ => vec![] }`): each outcome's elements under its facts
        from . import leaves as _L
        with _L.self_contained():
            lvs = _decision_leaves(case_of_case(t))
        groups = []
        for lts, lv in lvs:
            if isinstance(lv, tuple) and lv[:1] in (("never",), ("panic",)):
                continue
            for s2, a2 in coll_src(lv, depth + 1):
                a3 = []
                for t2, e2 in a2:
                    ft = _finish_tests(list(lts) + list(t2))
                    if ft is not None:
                        a3.append((ft, e2))
                if a3:
                    groups.append(_group(s2, a3))
        return _merge(groups)
    if t[0] == "call" and len(t) == 3:
        n, a = t[1], t[2]
        if n in PASS and len(a) >= 1:
            return coll(a[0], depth)
        if n == "iter::once" and len(a) == 1:
            return [_group((), [(frozenset(), canon(a[0]))])]
        if n == "iter::empty" and not a:
            return []
        if n in ("Option::into_iter", "Option::iter") and len(a) == 1:
            o = canon(a[0])
            return [_group((), [(frozenset({("is", o, "Option::Some")}), canon(("proj", o, (("Option::Some", "0"),))))])]
        if n == "Iterator::chain" and len(a) == 2:
            return list(coll_src(a[0], depth + 1)) + list(coll_src(a[1], depth + 1))
        if n in KEYS and len(a) == 1:
            return [_group(s, [(ts, canon(sym.proj_reduce(e, (("tuple", KEYS[n]),)))) for ts, e in alts]) for s, alts in coll_src(a[0], depth + 1)]
        if n == "Iterator::enumerate" and len(a) == 1:
            src = coll_src(a[0], depth + 1)
            if len(src) == 1 and len(src[0][1]) == 1 and not src[0][1][0][0]:
                s, ((ts, e),) = src[0]
                return [_group(s, [(ts, ("list", (("idx", s), e)))])]
            raise NotAComprehension("enumerate of a filtered or composite source")
        if n == "Iterator::map" and len(a) == 2:
            return [_group(s, [x for ts, e in alts for x in _split_decision(ts, _app(a[1], e))]) for s, alts in coll_src(a[0], depth + 1)]
        if n == "Iterator::filter" and len(a) == 2:
            out = []
            for s, alts in coll_src(a[0], depth + 1):
                keep = []
                for ts, e in alts:
                    r = _bool_tests(_app(a[1], e), True)
                    if r is False:
                        continue
                    ft = _finish_tests(list(ts) + r)
                    if ft is not None:
                        keep.append((ft, e))
                out.append(_group(s, keep))
            return out
        if n == "Iterator::flatten" and len(a) == 1:
            # a collection of literal Options flattened: the values of the Some elements, in order
            out = []
            for s, alts in coll_src(a[0], depth + 1):
                keep = []
                for ts, e in alts:
                    if isinstance(e, tuple) and e[:2] == ("ctor", "Option::None"):
                        continue
                    if isinstance(e, tuple) and e[:2] == ("ctor", "Option::Some"):
                        keep.append((ts, canon(dict(e[2])["0"])))
                        continue
                    raise NotAComprehension("flatten of an element that is no literal Option")
                out.append(_group(s, keep))
            return out
        if n == "Iterator::filter_map" and len(a) == 2:
            out = []
            for s, alts in coll_src(a[0], depth + 1):
                keep = []
                for ts, e in alts:
                    for lts, lv in _split_decision(ts, _app(a[1], e)):
                        if isinstance(lv, tuple) and lv[:2] == ("ctor", "Option::None"):
                            continue
                        if isinstance(lv, tuple) and lv[:2] == ("ctor", "Option::Some"):
                            keep.append((lts, canon(dict(lv[2])["0"])))
                            continue
                        ft = _finish_tests(list(lts) + [("is", lv, "Option::Some")])
                        if ft is not None:
                            keep.append((ft, canon(("proj", lv, (("Option::Some", "0"),)))))
                out.append(_group(s, keep))
            return out
        if n == "Iterator::flat_map" and len(a) == 2:
            out = []
            for s, alts in coll_src(a[0], depth + 1):
                for ts, e in alts:
                    for s2, alts2 in coll_src(_app(a[1], e), depth + 1):
                        a3 = []
                        for t2, e2 in alts2:
                            ft = _finish_tests(list(ts) + list(t2))
                            if ft is not None:
                                a3.append((ft, e2))
                        out.append(_group(s + tuple(x for x in s2 if x not in s), a3))
            return _merge(out)
    raise NotAComprehension(t[0])


def coll_src(t, depth=0):
    """groups of t, an unrecognised t being one opaque source iterated as it is"""
    try:
        return coll(t, depth)
    except NotAComprehension:
        s = canon(t)
        if _returns_option(s):
            # an Option iterated (`opt.into_iter().chain(..)`): its value when it is Some, nothing otherwise
            return [((), ((frozenset({("is", s, "Option::Some")}), ("proj", s, (("Option::Some", "0"),))),))]
        return [((s,), ((frozenset(), ("at", s)),))]


def _returns_option(s):
    """s is a call of a function of the crate whose declared result is an Option"""
    if FACTS is None or not (isinstance(s, tuple) and s[:1] == ("call",) and len(s) == 3 and isinstance(s[1], str)):
        return False
    from .flow import short
    hits = [bs[0] for dp, bs in FACTS.bodies.items() if len(bs) == 1 and short(dp) == s[1]]
    return len(hits) == 1 and str(hits[0].get("ret_ty", "")).startswith("std::option::Option<")


def canon(t):
    """t normalised, with every collection-building sub-term replaced by ('coll', groups)"""
    if not isinstance(t, tuple) or not t:
        return t
    if t[0] == "closure":
        return ("closure", t[1], canon(t[2])) if len(t) == 3 else t
    if t[0] == "coll":
        return t
    if t[0] in ("upd", "phi") or (t[0] == "call" and len(t) == 3 and t[1] in ("Iterator::map", "Iterator::filter", "Iterator::filter_map", "Iterator::chain", "Iterator::flat_map", "Iterator::flatten")):
        try:
            return ("coll", tuple(coll(t)))
        except NotAComprehension:
            pass
    if t[0] == "acc" and len(t) == 2:
        return ("loop-head", canon(t[1]))
    if t[0] == "try" and len(t) == 2:
        inner = canon(t[1])
        if isinstance(inner, tuple) and inner[:1] == ("coll",):
            # `iter.map(f).collect::<Option<Vec<_>>>()?`: a `?` on a collection of Options is a `?` on every element
            return ("coll", tuple((src, tuple((ts, ("try", e)) for ts, e in alts)) for src, alts in inner[1]))
        return ("try", inner)
    r = norm(tuple(canon(x) if isinstance(x, tuple) else x for x in t))
    if isinstance(r, tuple) and r[:1] in (("format",), ("write",)) and len(r) == 3:
        r = sym.anon_format(r)      # a literal argument is part of the text: `format!("{}_x", "a")` is "a_x"
    return r


def exits_as_try(v):
    """`match x { Some(y) => .. y .., None => return None }` (also as if-let / let-else) is `.. x? ..`: an early exit with None taken exactly
    when the Option x is None is dropped, and the content of x is read as ('try', x) in what remains"""
    if not (isinstance(v, tuple) and v[:1] == ("returns",)):
        return v
    none = ("ctor", "Option::None", ())
    keep, opts = [], []
    for conds, val in v[1]:
        if conds != ("fallthrough",) and val == none and len(conds) == 2 and conds[1][0][:1] == ("arm",) and conds[1][0][2] == "_" and conds[1][1] is True \
                and conds[0][0][:1] == ("arm",) and conds[0][0][2] == "Option::Some(_)" and conds[0][1] is False and conds[0][0][1] == conds[1][0][1]:
            opts.append(conds[0][0][1])       # `let Some(x) = o else { return None }`
            continue
        if conds != ("fallthrough",) and val == none and len(conds) == 1:
            c, pol = conds[0][0], conds[0][1]
            if isinstance(c, tuple) and c[:2] == ("iflet", "Option::Some(_)") and pol is False:
                opts.append(c[2])
                continue
            if isinstance(c, tuple) and c[:1] == ("arm",) and c[2] in ("Option::None",) and pol is True:
                opts.append(c[1])
                continue
        keep.append((conds, val))
    if not opts:
        return v

    def go(x):
        if not isinstance(x, tuple):
            return x
        if x[:2] == ("iflet", "Option::Some(_)") and len(x) == 3 and x[2] in opts:
            return ("lit", True)
        if x[:1] == ("arm",) and len(x) == 3 and x[1] in opts and x[2] == "Option::Some(_)":
            return ("lit", True)
        if x[:1] == ("proj",) and len(x) == 3 and x[1] in opts and x[2][:1] == (("Option::Some", "0"),):
            rest = x[2][1:]
            return ("proj", ("try", x[1]), rest) if rest else ("try", x[1])
        return tuple(go(y) for y in x)
    keep = [(conds if conds == ("fallthrough",) else tuple((go(c[0]),) + tuple(c[1:]) for c in conds), go(val)) for conds, val in keep]
    if len(keep) == 1 and keep[0][0] == ("fallthrough",):
        return keep[0][1]
    return ("returns", tuple(keep))


def show(groups, indent="  "):
    out = []
    for s, alts in groups:
        out.append("%sfor %s" % (indent, " x ".join(sym.pretty(x, width=200) for x in s) or "(one)"))
        for ts, e in alts:
            for t in sorted(ts, key=stable_key):
                out.append("%s  if %s" % (indent, sym.pretty(t, width=200)))
            out.append("%s  -> %s" % (indent, sym.pretty(e, width=200)))
    return "\n".join(out)
