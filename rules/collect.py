"""COLLECT: completeness of structural collectors / transformers over the syntax tree.

For a method M defined on a family of ADTs (Formula::symbols, AtomicFormula::symbols, ...), every match arm must pass every
field of its variant that can (transitively, through the ADT definitions) contain the collected class on to a call of M (or
to a named delegate); a field that can contain the class and is dropped is a violation naming variant and field."""
import re

from .facts import AnalysisGap
from . import hq, sym


def adt_names_in(ty):
    return set(re.findall(r"[A-Za-z_][A-Za-z0-9_:]*", ty))


def reachable_types(fx, leaf_adts):
    """ADT paths from which one of `leaf_adts` is reachable through field types (reflexive)."""
    reach = set(leaf_adts)
    changed = True
    while changed:
        changed = False
        for path, adt in fx.adts.items():
            if path in reach:
                continue
            for v in adt["variants"]:
                for f in v["fields"]:
                    if adt_names_in(f["ty"]) & reach:
                        reach.add(path)
                        changed = True
                        break
                if path in reach:
                    break
    return reach


def fields_required(fx, adt_path, reach, leaf_fields=()):
    """{variant name (None for structs): set of field names whose type reaches the class}"""
    adt = fx.adts[adt_path]
    out = {}
    for v in adt["variants"]:
        need = set()
        for f in v["fields"]:
            if adt_names_in(f["ty"]) & reach:
                need.add(f["name"])
        out[v["name"] if adt["is_enum"] else None] = need
    return out


def visited_fields(term, method_names):
    """Fields of `self` that flow into a call of one of method_names inside `term`:
    set of (variant-or-None, field)."""
    out = set()

    def fields_of(x):
        # projections and field accesses rooted in self
        res = set()
        for s in sym.subterms(x):
            if not isinstance(s, tuple):
                continue
            if s[:1] == ("proj",) and _rooted_in_self(s[1]):
                for (head, f) in s[2][:1]:
                    res.add((head.split("::")[-1] if "::" in head else None, f))
                if len(s[2]) > 1 and s[2][0][1] == "0":
                    # tuple variant wrapping a struct: Variant(inner).field
                    pass
            if s[:1] == ("place",) and s[1].startswith("self."):
                parts = s[1].split(".")
                if parts[1] == "0" and len(parts) > 2:
                    res.add((None, parts[2]))
                else:
                    res.add((None, parts[1]))
            if s[:1] == ("fieldof",) and s[1][:1] == ("proj",) and _rooted_in_self(s[1][1]):
                res.add((s[1][2][0][0].split("::")[-1], "%s.%s" % (s[1][2][0][1], s[2])))
        return res

    for s in sym.subterms(term):
        if isinstance(s, tuple) and s[:1] == ("call",) and s[1].split("::")[-1] in method_names:
            for a in s[2]:
                out |= fields_of(a)
    return out


def _rooted_in_self(t):
    return t == ("param", "self") or t == ("place", "self.0") or (isinstance(t, tuple) and t[:1] == ("place",) and t[1].startswith("self"))


def check_method(ctx, rule, fx, adt_suffix, method, reach, delegates=(), impl_self=None, exempt=()):
    """One obligation per (variant, required field)."""
    adt = fx.adt(adt_suffix)
    path = adt["path"]
    bodies = [b for b in fx.body_list if b["name"] == method and b.get("impl", {}).get("self_ty") == path and (impl_self is None or True)]
    if len(bodies) != 1:
        raise AnalysisGap("collector %s::%s: found %d bodies" % (adt_suffix, method, len(bodies)))
    b = bodies[0]
    v = sym.Eval(fx, inline_depth=0).function(b)
    names = {method} | set(delegates)
    req = fields_required(fx, path, reach)
    n = 0
    # the partial results must be combined by union: an intersection / difference drops members found in one part only
    bad_ops = sorted({s_[1] for s_ in sym.subterms(v) if isinstance(s_, tuple) and s_[:1] == ("call",) and isinstance(s_[1], str) and
                      s_[1].split("::")[-1] in ("bitand", "intersection", "difference", "symmetric_difference", "bitxor", "sub", "retain")} |
                     {"operator " + s_[1] for s_ in sym.subterms(v) if isinstance(s_, tuple) and s_[:1] == ("bin",) and s_[1] in ("BitAnd", "BitXor", "Sub")} |
                     {s_[2] for s_ in sym.subterms(v) if isinstance(s_, tuple) and s_[:1] == ("upd",) and len(s_) > 2 and str(s_[2]).split("@")[0] in ("retain", "shift_remove", "swap_remove", "remove", "clear")})
    if method != "free_variables":
        ctx.add(rule, "%s::%s:union" % (hq.last(path), method), not bad_ops, ctx.site(b),
                "%s::%s combines the results of its parts by union only (found: %s)" % (hq.last(path), method, bad_ops or "extend / chain / collect"))
    if adt["is_enum"]:
        # find the match on self
        m = None
        for s in sym.subterms(v):
            if isinstance(s, tuple) and s[:1] == ("match",) and s[1] in (("param", "self"), ("place", "self.0")):
                m = s
                break
        if m is None:
            raise AnalysisGap("collector %s::%s is not a match on self" % (adt_suffix, method))
        arms = []
        for a in m[2]:
            arms.append((a[0], a[-1]))
        # effects on locals inside arms are part of the arm value only if returned; use the whole term restricted by arm pattern
        for vname, need in req.items():
            if not need:
                continue
            hit = [val for key, val in arms if re.search(r"\b%s\b" % re.escape("%s::%s" % (hq.last(path), vname)), key)]
            # expand payloads that are plain structs without their own collector (Atom, Comparison): their fields are required
            expanded = set()
            vdef = [x for x in adt["variants"] if x["name"] == vname][0]
            for f in need:
                fty = [x["ty"] for x in vdef["fields"] if x["name"] == f][0]
                inner = [p_ for p_ in adt_names_in(fty) if p_ in fx.adts and not fx.adts[p_]["is_enum"]]
                has_own = inner and any(b2["name"] == method and b2.get("impl", {}).get("self_ty") == inner[0] for b2 in fx.body_list)
                if inner and not has_own:
                    for g in fields_required(fx, inner[0], reach).get(None, set()):
                        expanded.add("%s.%s" % (f, g))
                else:
                    expanded.add(f)
            for f in sorted(expanded):
                if "%s.%s" % (vname, f) in exempt:
                    continue
                n += 1
                got = set()
                for val in hit:
                    got |= visited_fields(val, names)
                if "." in f:
                    ok = any(fv == (vname, f) for fv in got)
                else:
                    ok = any(fv == (vname, f) or (fv[0] == vname and fv[1].split(".")[0] == f) for fv in got)
                ctx.add(rule, "%s::%s:%s.%s" % (hq.last(path), method, vname, f), ok, ctx.site(b),
                        "field `%s` of %s::%s can contain the class and %s passed on to %s" % (f, hq.last(path), vname, "is" if ok else "is NOT", sorted(names)))
    else:
        need = req.get(None, set())
        got = visited_fields(v, names)
        # loops over self.field
        r = repr(v)
        for f in sorted(need):
            n += 1
            ok = any(fv[1] == f for fv in got) or ("('place', 'self.%s')" % f) in r
            ctx.add(rule, "%s::%s:%s" % (hq.last(path), method, f), ok, ctx.site(b), "field `%s` of %s %s visited by %s" % (f, hq.last(path), "is" if ok else "is NOT", method))
    return n
