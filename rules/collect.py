"""COLLECT: completeness of structural collectors / transformers over the syntax tree.

For a method M defined on a family of ADTs (Formula::symbols, AtomicFormula::symbols, ...), every match arm must pass every
field of its variant that can (transitively, through the ADT definitions) contain the collected class on to a call of M (or
to a named delegate); a field that can contain the class and is dropped is a violation naming variant and field."""
import re

from .facts import AnalysisGap
from . import hq, sym


def adt_names_in(ty):
    return set(re.findall(r"[A-Za-z_][A-Za-z0-9_:]*", ty))


def reachable_types(fx, leaf_adts):
    """ADT paths from which one of `leaf_adts` is reachable through field types (reflexive)."""
    reach = set(leaf_adts)
    changed = True
    while changed:
        changed = False
        for path, adt in fx.adts.items():
            if path in reach:
                continue
            for v in adt["variants"]:
                for f in v["fields"]:
                    if adt_names_in(f["ty"]) & reach:
                        reach.add(path)
                        changed = True
                        break
                if path in reach:
                    break
    return reach


def fields_required(fx, adt_path, reach, leaf_fields=()):
    """{variant name (None for structs): set of field names whose type reaches the class}"""
    adt = fx.adts[adt_path]
    out = {}
    for v in adt["variants"]:
        need = set()
        for f in v["fields"]:
            if adt_names_in(f["ty"]) & reach:
                need.add(f["name"])
        out[v["name"] if adt["is_enum"] else None] = need
    return out


def visited_fields(term, method_names):
    """Fields of `self` that flow into a call of one of method_names inside `term`:
    set of (variant-or-None, field)."""
    out = set()

    def fields_of(x):
        # projections and field accesses rooted in self
        res = set()
        for s in sym.subterms(x):
            if not isinstance(s, tuple):
                continue
            if s[:1] == ("proj",) and _rooted_in_self(s[1]):
                for (head, f) in s[2][:1]:
                    res.add((head.split("::")[-1] if "::" in head else None, f))
                if len(s[2]) > 1 and s[2][0][1] == "0":
                    # tuple variant wrapping a struct: Variant(inner).field
                    pass
            if s[:1] == ("place",) and s[1].startswith("self."):
                parts = s[1].split(".")
                if parts[1] == "0" and len(parts) > 2:
                    res.add((None, parts[2]))
                else:
                    res.add((None, parts[1]))
            if s[:1] == ("fieldof",) and s[1][:1] == ("proj",) and _rooted_in_self(s[1][1]):
                res.add((s[1][2][0][0].split("::")[-1], "%s.%s" % (s[1][2][0][1], s[2])))
        return res

    for s in sym.subterms(term):
        if isinstance(s, tuple) and s[:1] == ("call",) and s[1].split("::")[-1] in method_names:
            for a in s[2]:
                out |= fields_of(a)
        # the collector handed over as a function value: `self.terms.iter().flat_map(GeneralTerm::symbols)`
        if isinstance(s, tuple) and s[:1] == ("call",) and len(s) == 3 and s[1] in ("Iterator::map", "Iterator::flat_map", "Iterator::for_each", "Iterator::filter_map") and len(s[2]) == 2 \
                and isinstance(s[2][1], tuple) and s[2][1][:1] == ("fn",) and str(s[2][1][1]).split("::")[-1] in method_names:
            out |= fields_of(s[2][0])
        # .. or called inside a closure on the element: `self.terms.iter().flat_map(|t| t.symbols())`, `guards.iter().fold(init, |acc, g| { acc.extend(g.symbols()); acc })`
        if isinstance(s, tuple) and s[:1] == ("call",) and len(s) == 3 and s[1] in ("Iterator::map", "Iterator::flat_map", "Iterator::for_each", "Iterator::filter_map", "Iterator::fold") \
                and len(s[2]) in (2, 3) and isinstance(s[2][-1], tuple) and s[2][-1][:1] == ("closure",):
            clo = s[2][-1]
            elems = set(clo[1][-1:]) if s[1] == "Iterator::fold" else set(clo[1])
            elems = {q_ for n_ in elems for q_ in str(n_).replace("~", "").replace("+", "/").split("/")}
            hit = False
            for c_ in sym.subterms(clo[2]):
                if isinstance(c_, tuple) and c_[:1] == ("call",) and isinstance(c_[1], str) and c_[1].split("::")[-1] in method_names:
                    for x_ in sym.subterms(c_[2]):
                        if isinstance(x_, tuple) and ((x_[:1] == ("param",) and x_[1] in elems) or (x_[:1] == ("place",) and str(x_[1]).split(".")[0] in elems)):
                            hit = True
            if hit:
                out |= fields_of(s[2][0])
    return out


def _rooted_in_self(t):
    return t == ("param", "self") or t == ("place", "self.0") or (isinstance(t, tuple) and t[:1] == ("place",) and t[1].startswith("self"))


def check_method(ctx, rule, fx, adt_suffix, method, reach, delegates=(), impl_self=None, exempt=()):
    """One obligation per (variant, required field)."""
    adt = fx.adt(adt_suffix)
    path = adt["path"]
    bodies = [b for b in fx.body_list if b["name"] == method and b.get("impl", {}).get("self_ty") == path and (impl_self is None or True)]
    if len(bodies) != 1:
        raise AnalysisGap("collector %s::%s: found %d bodies" % (adt_suffix, method, len(bodies)))
    b = bodies[0]
    v = sym.Eval(fx, inline_depth=0).function(b)
    names = {method} | set(delegates)
    req = fields_required(fx, path, reach)
    n = 0
    # the partial results must be combined by union: an intersection / difference drops members found in one part only
    bad_ops = sorted({s_[1] for s_ in sym.subterms(v) if isinstance(s_, tuple) and s_[:1] == ("call",) and isinstance(s_[1], str) and
                      s_[1].split("::")[-1] in ("bitand", "intersection", "difference", "symmetric_difference", "bitxor", "sub", "retain")} |
                     {"operator " + s_[1] for s_ in sym.subterms(v) if isinstance(s_, tuple) and s_[:1] == ("bin",) and s_[1] in ("BitAnd", "BitXor", "Sub")} |
                     {s_[2] for s_ in sym.subterms(v) if isinstance(s_, tuple) and s_[:1] == ("upd",) and len(s_) > 2 and str(s_[2]).split("@")[0] in ("retain", "shift_remove", "swap_remove", "remove", "clear")})
    if method != "free_variables":
        ctx.add(rule, "%s::%s:union" % (hq.last(path), method), not bad_ops, ctx.site(b),
                "%s::%s combines the results of its parts by union only (found: %s)" % (hq.last(path), method, bad_ops or "extend / chain / collect"))
    if adt["is_enum"]:
        # find the match on self
        m = None
        for s in sym.subterms(v):
            if isinstance(s, tuple) and s[:1] == ("match",) and s[1] in (("param", "self"), ("place", "self.0")):
                m = s
                break
        if m is None:
            raise AnalysisGap("collector %s::%s is not a match on self" % (adt_suffix, method))
        arms = []
        for a in m[2]:
            arms.append((a[0], a[-1]))
        # effects on locals inside arms are part of the arm value only if returned; use the whole term restricted by arm pattern
        for vname, need in req.items():
            if not need:
                continue
            hit = [val for key, val in arms if re.search(r"\b%s\b" % re.escape("%s::%s" % (hq.last(path), vname)), key)]
            # expand payloads that are plain structs without their own collector (Atom, Comparison): their fields are required
            expanded = set()
            vdef = [x for x in adt["variants"] if x["name"] == vname][0]
            for f in need:
                fty = [x["ty"] for x in vdef["fields"] if x["name"] == f][0]
                inner = [p_ for p_ in adt_names_in(fty) if p_ in fx.adts and not fx.adts[p_]["is_enum"]]
                has_own = inner and any(b2["name"] == method and b2.get("impl", {}).get("self_ty") == inner[0] for b2 in fx.body_list)
                if inner and not has_own:
                    for g in fields_required(fx, inner[0], reach).get(None, set()):
                        expanded.add("%s.%s" % (f, g))
                else:
                    expanded.add(f)
            for f in sorted(expanded):
                if "%s.%s" % (vname, f) in exempt:
                    continue
                n += 1
                got = set()
                for val in hit:
                    got |= visited_fields(val, names)
                if "." in f:
                    ok = any(fv == (vname, f) for fv in got)
                else:
                    ok = any(fv == (vname, f) or (fv[0] == vname and fv[1].split(".")[0] == f) for fv in got)
                ctx.add(rule, "%s::%s:%s.%s" % (hq.last(path), method, vname, f), ok, ctx.site(b),
                        "field `%s` of %s::%s can contain the class and %s passed on to %s" % (f, hq.last(path), vname, "is" if ok else "is NOT", sorted(names)))
    else:
        need = req.get(None, set())
        got = visited_fields(v, names)
        # loops over self.field
        r = repr(v)
        for f in sorted(need):
            n += 1
            ok = any(fv[1] == f for fv in got) or ("('place', 'self.%s')" % f) in r
            ctx.add(rule, "%s::%s:%s" % (hq.last(path), method, f), ok, ctx.site(b), "field `%s` of %s %s visited by %s" % (f, hq.last(path), "is" if ok else "is NOT", method))
    return n


def check_variable_leaves(ctx, rule, fx):
    """the leaves of the `variables` collectors: a variable occurrence of each term sort is reported as the variable (its name, that sort) and
    nothing else; a constant or a numeral reports nothing.  Evaluated on one literal node per constructor, so the spelling of the match is free."""
    from . import sym
    from .leaves import norm
    S = "syntax_tree::fol::sigma_0::"
    V = ("param", "$v")
    n = 0
    for adt, sort in (("GeneralTerm", "General"), ("IntegerTerm", "Integer"), ("SymbolicTerm", "Symbol")):
        bs = [b for b in fx.body_list if b["name"] == "variables" and b.get("impl", {}).get("self_ty") == S + adt and "trait" not in b.get("impl", {})]
        if len(bs) != 1:
            ctx.gap(rule, "leaf:variable:" + adt, "", "%s::variables not found" % adt)
            continue
        b = bs[0]
        site = ctx.site(b)
        node = ("ctor", "%s::Variable" % adt, (("0", V),))
        v = norm(sym.Eval(fx, inline_depth=0).function(b, [node]))
        found = [x for x in sym.subterms(v) if isinstance(x, tuple) and x[:2] == ("ctor", "Variable")]
        want = ("ctor", "Variable", (("name", V), ("sort", ("ctor", "Sort::" + sort, ()))))
        ok = len(found) == 1 and found[0] == want and not [x for x in sym.subterms(v) if isinstance(x, tuple) and x[:1] in (("match",), ("if",), ("phi",))]
        ctx.add(rule, "leaf:variable:" + adt, ok, site, "a %s variable occurrence is collected as the variable (name, %s) - the sort it is bound and substituted at" % (adt, sort), construct=v)
        n += 1
        # constants of that sort report no variable
        others = {"GeneralTerm": ("Infimum", "Supremum", "FunctionConstant"), "IntegerTerm": ("Numeral", "FunctionConstant"), "SymbolicTerm": ("Symbol", "FunctionConstant")}[adt]
        bad = []
        for o in others:
            node = ("ctor", "%s::%s" % (adt, o), (("0", ("param", "$x")),) if o not in ("Infimum", "Supremum") else ())
            vo = norm(sym.Eval(fx, inline_depth=0).function(b, [node]))
            if [x for x in sym.subterms(vo) if isinstance(x, tuple) and x[:2] == ("ctor", "Variable")] or "$x" in repr(vo):
                bad.append(o)
        ctx.add(rule, "leaf:non-variable:" + adt, not bad, site, "constants and numerals of sort %s contribute no variable" % sort, construct=bad or None)
        n += 1
    return n


def check_function_constant_leaves(ctx, rule, fx):
    """a placeholder occurrence inside a term of sort s is collected as a function constant of sort s (the sort its occurrence is printed at and
    its declaration is generated from)"""
    from . import sym
    from .leaves import norm
    S = "syntax_tree::fol::sigma_0::"
    C_ = ("param", "$c")
    for adt, sort in (("GeneralTerm", "General"), ("IntegerTerm", "Integer"), ("SymbolicTerm", "Symbol")):
        bs = [b for b in fx.body_list if b["name"] == "function_constants" and b.get("impl", {}).get("self_ty") == S + adt and "trait" not in b.get("impl", {})]
        if len(bs) != 1:
            ctx.gap(rule, "leaf:function-constant:" + adt, "", "%s::function_constants not found" % adt)
            continue
        node = ("ctor", "%s::FunctionConstant" % adt, (("0", C_),))
        v = norm(sym.Eval(fx, inline_depth=0).function(bs[0], [node]))
        found = [x for x in sym.subterms(v) if isinstance(x, tuple) and x[:2] == ("ctor", "FunctionConstant")]
        want = ("ctor", "FunctionConstant", (("name", C_), ("sort", ("ctor", "Sort::" + sort, ()))))
        ctx.add(rule, "leaf:function-constant:" + adt, len(found) == 1 and found[0] == want, ctx.site(bs[0]),
                "a %s function constant is collected with sort %s (the sort its occurrence is printed at)" % (adt, sort), construct=v)


def check_variable_conversions(ctx, rule, fx, which=("from", "try_from")):
    """`GeneralTerm::from(Variable)` and `Variable::try_from(GeneralTerm)`: a variable of sort s is the variable occurrence of the term sort s
    and back (name kept); anything that is not a variable occurrence is handed back as the error.  One evaluation per sort / constructor."""
    from . import sym
    from .leaves import norm
    S = "syntax_tree::fol::sigma_0::"
    N = ("param", "$n")
    occ = {"General": ("ctor", "GeneralTerm::Variable", (("0", N),)),
           "Integer": ("ctor", "GeneralTerm::IntegerTerm", (("0", ("ctor", "IntegerTerm::Variable", (("0", N),))),)),
           "Symbol": ("ctor", "GeneralTerm::SymbolicTerm", (("0", ("ctor", "SymbolicTerm::Variable", (("0", N),))),))}

    def impl_fn(name, self_ty, trait_part):
        bs = [b for b in fx.body_list if b["name"] == name and b.get("impl", {}).get("self_ty") == S + self_ty and trait_part in b.get("impl", {}).get("trait", "")]
        return bs[0] if len(bs) == 1 else None
    if "from" in which:
        b = impl_fn("from", "GeneralTerm", "From<" + S + "Variable>")
        if b is None:
            ctx.gap(rule, "conv:variable-to-term", "", "impl From<Variable> for GeneralTerm not found")
        else:
            for sort, want in occ.items():
                var = ("ctor", "Variable", (("name", N), ("sort", ("ctor", "Sort::" + sort, ()))))
                v = norm(sym.Eval(fx, inline_depth=0).function(b, [var]))
                ctx.add(rule, "conv:variable-to-term:" + sort, v == want, ctx.site(b), "a %s variable becomes a variable occurrence of the %s term sort (what a renamed binder is replaced by)" % (sort, sort),
                        construct=v)
    if "try_from" in which:
        b = impl_fn("try_from", "Variable", "TryFrom<" + S + "GeneralTerm>")
        if b is None:
            ctx.gap(rule, "conv:term-to-variable", "", "impl TryFrom<GeneralTerm> for Variable not found")
        else:
            for sort, node in occ.items():
                want = ("ctor", "Result::Ok", (("0", ("ctor", "Variable", (("name", N), ("sort", ("ctor", "Sort::" + sort, ()))))),))
                v = norm(sym.Eval(fx, inline_depth=0).function(b, [node]))
                ctx.add(rule, "conv:term-to-variable:" + sort, v == want, ctx.site(b), "a %s variable occurrence is the variable (name, %s); sorts are not merged" % (sort, sort), construct=v)
            others = {"Infimum": ("ctor", "GeneralTerm::Infimum", ()), "FunctionConstant": ("ctor", "GeneralTerm::FunctionConstant", (("0", ("param", "$c")),)),
                      "Numeral": ("ctor", "GeneralTerm::IntegerTerm", (("0", ("ctor", "IntegerTerm::Numeral", (("0", ("param", "$k")),))),)),
                      "Symbol": ("ctor", "GeneralTerm::SymbolicTerm", (("0", ("ctor", "SymbolicTerm::Symbol", (("0", ("param", "$s")),))),))}
            bad = [k for k, node in others.items() if norm(sym.Eval(fx, inline_depth=0).function(b, [node]))[:2] != ("ctor", "Result::Err")]
            ctx.add(rule, "conv:term-to-variable:others", not bad, ctx.site(b), "a term that is not a variable occurrence is not a variable: %s" % (bad or "all refused"))


def check_asp_predicate_collectors(ctx, rule, fx):
    """the predicates of a program: every rule contributes the predicate of its head (if it has one) and the predicates of every body literal,
    whatever the head is; compared in comprehension form (a loop with extend and a flat_map chain are the same)"""
    from . import sym, comp
    from .leaves import norm
    comp.use(fx)
    A = "syntax_tree::asp::mini_gringo::"
    SELF = ("param", "$self")

    def body_of(ty, m):
        bs = [b for b in fx.body_list if b["name"] == m and b.get("impl", {}).get("self_ty") == A + ty and "trait" not in b.get("impl", {})]
        return bs[0] if len(bs) == 1 else None

    def union_over(field, elem_call):
        src = ("fieldof", SELF, field)
        inner = ("call", elem_call, (("at", src),))
        return ("coll", (((src, inner), ((frozenset(), ("at", inner)),)),))
    for ty, m, field, elem in (("Program", "predicates", "rules", "Rule::predicates"), ("Body", "predicates", "formulas", "AtomicFormula::predicates"),
                               ("Body", "positive_predicates", "formulas", "AtomicFormula::positive_predicates")):
        b = body_of(ty, m)
        if b is None:
            ctx.gap(rule, "asp:%s::%s" % (ty, m), "", "collector not found")
            continue
        v = comp.canon(sym.Eval(fx, inline_depth=0).function(b, [SELF]))
        ctx.add(rule, "asp:%s::%s" % (ty, m), v == union_over(field, elem), ctx.site(b), "%s::%s is the union of %s over every element of self.%s" % (ty, m, elem, field), construct=v)
    b = body_of("Rule", "predicates")
    if b is None:
        ctx.gap(rule, "asp:Rule::predicates", "", "collector not found")
    else:
        v = comp.canon(sym.Eval(fx, inline_depth=0).function(b, [SELF]))
        hp = ("call", "Head::predicate", (("fieldof", SELF, "head"),))
        bp = ("call", "Body::predicates", (("fieldof", SELF, "body"),))
        ref = ("coll", (((), ((frozenset({("is", hp, "Option::Some")}), ("proj", hp, (("Option::Some", "0"),))),)), ((bp,), ((frozenset(), ("at", bp)),))))
        ctx.add(rule, "asp:Rule::predicates", v == ref, ctx.site(b), "a rule contributes its head predicate when it has one, and the predicates of its body in every case (a constraint too)", construct=v)
    b = body_of("Program", "head_predicates")
    if b is not None:
        v = comp.canon(sym.Eval(fx, inline_depth=0).function(b, [SELF]))
        src = ("fieldof", SELF, "rules")
        hp = ("call", "Head::predicate", (("fieldof", ("at", src), "head"),))
        ref = ("coll", (((src,), ((frozenset({("is", hp, "Option::Some")}), ("proj", hp, (("Option::Some", "0"),))),)),))
        ctx.add(rule, "asp:Program::head_predicates", v == ref, ctx.site(b), "the head predicates are the predicates of the heads of all rules", construct=v)
    # leaves: per constructor
    b = body_of("AtomicFormula", "predicates")
    if b is not None:
        lit = norm(sym.Eval(fx, inline_depth=0).function(b, [("ctor", "AtomicFormula::Literal", (("0", ("param", "$l")),))]))
        cmp_ = norm(sym.Eval(fx, inline_depth=0).function(b, [("ctor", "AtomicFormula::Comparison", (("0", ("param", "$c")),))]))
        ok = ("call", "Literal::predicate", (("param", "$l"),)) in list(sym.subterms(lit)) and "$c" not in repr(cmp_) and "Literal::predicate" not in repr(cmp_)
        ctx.add(rule, "asp:AtomicFormula::predicates", ok, ctx.site(b), "a literal (of any sign) contributes its predicate, a comparison none", construct=[lit, cmp_])
    b = body_of("Head", "predicate")
    if b is not None:
        outs = {}
        for k_, node in (("Basic", ("ctor", "Head::Basic", (("0", ("param", "$a")),))), ("Choice", ("ctor", "Head::Choice", (("0", ("param", "$a")),))), ("Falsity", ("ctor", "Head::Falsity", ()))):
            outs[k_] = norm(sym.Eval(fx, inline_depth=0).function(b, [node]))
        some = ("ctor", "Option::Some", (("0", ("call", "Atom::predicate", (("param", "$a"),))),))
        ctx.add(rule, "asp:Head::predicate", outs["Basic"] == some and outs["Choice"] == some and outs["Falsity"] == ("ctor", "Option::None", ()), ctx.site(b),
                "basic and choice heads have the predicate of their atom, #false none", construct=outs)
    b = body_of("Literal", "predicate")
    if b is not None:
        v = norm(sym.Eval(fx, inline_depth=0).function(b, [SELF]))
        ctx.add(rule, "asp:Literal::predicate", v == ("call", "Atom::predicate", (("fieldof", SELF, "atom"),)), ctx.site(b), "the predicate of a literal is that of its atom", construct=v)
    b = body_of("Atom", "predicate")
    if b is not None:
        v = norm(sym.Eval(fx, inline_depth=0).function(b, [SELF]))
        ref = ("ctor", "Predicate", (("arity", ("call", "Vec::len", (("fieldof", SELF, "terms"),))), ("symbol", ("fieldof", SELF, "predicate_symbol"))))
        ctx.add(rule, "asp:Atom::predicate", v == ref, ctx.site(b), "predicate = (symbol, number of terms)", construct=v)


def check_replace_placeholders(ctx, rule, fx):
    """replace_placeholders reaches every term of a formula: Atom (every term), Guard, Comparison (the term and every guard), AtomicFormula, Formula
    (every atomic node, through Apply), Theory / Specification (every formula), AnnotatedFormula (the formula); at a symbolic constant that is a
    placeholder name it puts the placeholder of the declared sort.  Compared in comprehension form / per constructor, not by spelling."""
    from . import sym, comp, leaves
    comp.use(fx)
    S = "syntax_tree::fol::sigma_0::"
    SELF, M = ("param", "$self"), ("param", "$m")

    def body(ty):
        bs = [b for b in fx.body_list if b["name"] == "replace_placeholders" and b.get("impl", {}).get("self_ty") == S + ty and "trait" not in b.get("impl", {})]
        return bs[0] if len(bs) == 1 else None

    def rp(ty, x):
        return ("call", ty + "::replace_placeholders", (x, M))

    def each(src, f):
        return ("coll", (((src,), ((frozenset(), f(("at", src))),)),))

    def F(x, f):
        return ("fieldof", x, f)
    refs = {
        "Atom": ("ctor", "Atom", (("predicate_symbol", F(SELF, "predicate_symbol")), ("terms", each(F(SELF, "terms"), lambda e: rp("GeneralTerm", e))))),
        "Guard": ("ctor", "Guard", (("relation", F(SELF, "relation")), ("term", rp("GeneralTerm", F(SELF, "term"))))),
        "Comparison": ("ctor", "Comparison", (("guards", each(F(SELF, "guards"), lambda e: rp("Guard", e))), ("term", rp("GeneralTerm", F(SELF, "term"))))),
        "Theory": each(SELF, lambda e: rp("Formula", e)),
        "Specification": each(SELF, lambda e: rp("AnnotatedFormula", e)),
    }
    for ty, ref in refs.items():
        b = body(ty)
        if b is None:
            ctx.gap(rule, "placeholders:" + ty, "", "%s::replace_placeholders not found" % ty)
            continue
        v = comp.canon(sym.Eval(fx, inline_depth=0).function(b, [SELF, M]))
        if ty in ("Theory", "Specification") and isinstance(v, tuple) and v[:1] == ("ctor",):
            v = dict(v[2]).get("formulas")      # written as a struct literal instead of through FromIterator
            ref = each(F(SELF, "formulas"), (lambda e: rp("Formula", e)) if ty == "Theory" else (lambda e: rp("AnnotatedFormula", e)))
        ctx.add(rule, "placeholders:" + ty, v == ref, ctx.site(b), "%s::replace_placeholders rewrites every part that can hold a term and keeps the rest" % ty, construct=v)
    b = body("AnnotatedFormula")
    if b is not None:
        v = comp.canon(sym.Eval(fx, inline_depth=0).function(b, [SELF, M]))
        want = rp("Formula", F(SELF, "formula"))
        ok = (v[:1] == ("upd",) and v[1] == SELF and v[2].startswith("assign-field") and v[2].endswith(".formula") and v[3] == (want,)) or \
            (v[:2] == ("ctor", "AnnotatedFormula") and dict(v[2]).get("formula") == want and all(val == F(SELF, k_) for k_, val in v[2] if k_ not in ("formula", "..")))
        ctx.add(rule, "placeholders:AnnotatedFormula", ok, ctx.site(b), "the formula of an annotated formula is rewritten, name / role / direction kept", construct=v)
    b = body("AtomicFormula")
    if b is not None:
        outs = {}
        for k_, node in (("Atom", ("ctor", "AtomicFormula::Atom", (("0", ("param", "$a")),))), ("Comparison", ("ctor", "AtomicFormula::Comparison", (("0", ("param", "$c")),))),
                         ("Truth", ("ctor", "AtomicFormula::Truth", ())), ("Falsity", ("ctor", "AtomicFormula::Falsity", ()))):
            outs[k_] = leaves.norm(sym.Eval(fx, inline_depth=0).function(b, [node, M]))
        ok = outs["Atom"] == ("ctor", "AtomicFormula::Atom", (("0", rp("Atom", ("param", "$a"))),)) and outs["Comparison"] == ("ctor", "AtomicFormula::Comparison", (("0", rp("Comparison", ("param", "$c"))),)) \
            and outs["Truth"] == ("ctor", "AtomicFormula::Truth", ()) and outs["Falsity"] == ("ctor", "AtomicFormula::Falsity", ())
        ctx.add(rule, "placeholders:AtomicFormula", ok, ctx.site(b), "atoms and comparisons are entered, #true / #false unchanged", construct=outs)
    b = body("Formula")
    if b is not None:
        ev = sym.Eval(fx, inline_depth=0)
        node = ("ctor", "Formula::AtomicFormula", (("0", ("param", "$af")),))
        ev.closure_args = [[node]]
        v = ev.function(b, [SELF, M])
        ok = v[:2] == ("call", "Apply::apply") and v[2][0] == SELF and v[2][1][:1] == ("closure",) and leaves.norm(v[2][1][2]) == ("ctor", "Formula::AtomicFormula", (("0", rp("AtomicFormula", ("param", "$af"))),))
        ev2 = sym.Eval(fx, inline_depth=0)
        other = ("ctor", "Formula::UnaryFormula", (("connective", ("param", "$u")), ("formula", ("param", "$f"))))
        ev2.closure_args = [[other]]
        v2 = ev2.function(b, [SELF, M])
        ok = ok and v2[:2] == ("call", "Apply::apply") and leaves.norm(v2[2][1][2]) == other
        ctx.add(rule, "placeholders:Formula", ok, ctx.site(b), "every atomic node of the formula is rewritten (through Apply::apply, which reaches every node), nothing else changes", construct=v)
    b = body("GeneralTerm")
    if b is not None:
        Sy = ("param", "$s")
        node = ("ctor", "GeneralTerm::SymbolicTerm", (("0", ("ctor", "SymbolicTerm::Symbol", (("0", Sy),))),))
        lv = [(ts, comp.canon(val)) for ts, val in leaves.leaves(comp.case_of_case(leaves.lift(sym.Eval(fx, inline_depth=0).function(b, [node, M]))))]
        G = ("call", "IndexMap::get", (M, Sy))
        SORT = ("fieldof", ("proj", G, (("Option::Some", "0"),)), "sort")
        hit = ("is", G, "Option::Some")
        ref = [((hit, ("is", SORT, "Sort::General")), ("ctor", "GeneralTerm::FunctionConstant", (("0", Sy),))),
               ((hit, ("is", SORT, "Sort::Integer")), ("ctor", "GeneralTerm::IntegerTerm", (("0", ("ctor", "IntegerTerm::FunctionConstant", (("0", Sy),))),))),
               ((hit, ("is", SORT, "Sort::Symbol")), ("ctor", "GeneralTerm::SymbolicTerm", (("0", ("ctor", "SymbolicTerm::FunctionConstant", (("0", Sy),))),))),
               ((("not", (hit,)),), node)]
        try:
            same, wit = leaves.same_decision(lv, ref)
        except OverflowError:
            same, wit = False, "too many conditions"
        ctx.add(rule, "placeholders:symbol", same, ctx.site(b), "a symbolic constant that names a placeholder becomes the placeholder of its declared sort; any other stays", construct=wit)
        bad = []
        for k_, n_ in (("Variable", ("ctor", "GeneralTerm::Variable", (("0", ("param", "$v")),))), ("FunctionConstant", ("ctor", "GeneralTerm::FunctionConstant", (("0", ("param", "$c")),))),
                       ("Infimum", ("ctor", "GeneralTerm::Infimum", ())), ("IntegerTerm", ("ctor", "GeneralTerm::IntegerTerm", (("0", ("param", "$i")),))),
                       ("SymbolicVariable", ("ctor", "GeneralTerm::SymbolicTerm", (("0", ("ctor", "SymbolicTerm::Variable", (("0", ("param", "$v")),))),)))):
            if leaves.norm(sym.Eval(fx, inline_depth=0).function(b, [n_, M])) != n_:
                bad.append(k_)
        ctx.add(rule, "placeholders:other-terms", not bad, ctx.site(b), "every other term is left as it is: %s" % (bad or "ok"))


def check_structural_identity(ctx, rule, fx, prefix="syntax_tree::"):
    """Predicates, function constants, variables, terms and formulas are kept in sets and maps (IndexSet / IndexMap / BTreeSet): two of them
    are the same element exactly when all their fields agree (name *and* sort, symbol *and* arity).  That holds when equality, hashing and
    ordering of the syntax-tree types are the derived, field-by-field ones; a hand-written impl that looks at some of the fields merges
    distinct items (one declaration for `n$i` and `n$g`, one transition axiom for p/0 and p/1)."""
    by_ty = {}
    for i in fx.impls:
        st = str(i.get("self_ty", ""))
        if st.startswith(prefix) and i.get("trait") in ("std::cmp::PartialEq", "std::cmp::Eq", "std::hash::Hash", "std::cmp::Ord", "std::cmp::PartialOrd", "std::marker::StructuralPartialEq"):
            by_ty.setdefault(st, {}).setdefault(i["trait"], []).append(i)
    n = 0
    for st, tr in sorted(by_ty.items()):
        hand = sorted(t_.split("::")[-1] for t_, is_ in tr.items() if any(not x.get("from_expansion") for x in is_))
        derived_eq = "std::cmp::PartialEq" not in tr or "std::marker::StructuralPartialEq" in tr
        n += 1
        ctx.add(rule, "identity:%s" % st.split("::", 1)[1], not hand and derived_eq, "%s:%s" % (tr[sorted(tr)[0]][0].get("file"), tr[sorted(tr)[0]][0].get("line")),
                "equality / hashing / ordering of %s are derived (field by field)%s" % (st.split("::")[-1], ": hand-written %s" % hand if hand else ""), nontrivial=bool(hand) or not derived_eq)
    ctx.floor(rule, "identity_types", n, 40)
    return n


def cli_fields(fx, rel="src/command_line/arguments.rs"):
    """[(field name, type text, {attribute key: value text or True})] of the clap-derived argument structs: the `#[arg(..)]` attribute of
    each field, read at the token level (balanced parentheses, top-level commas)"""
    src = fx.read_source(rel)
    if src is None:
        raise AnalysisGap("cannot read %s" % rel)
    out = []
    i = 0
    while True:
        i = src.find("#[arg(", i)
        if i < 0:
            break
        j = i + len("#[arg(")
        depth, k = 1, j
        while k < len(src) and depth:
            depth += src[k] == "("
            depth -= src[k] == ")"
            k += 1
        inner = src[j:k - 1]
        # top-level split
        parts, cur, d, in_str = [], "", 0, False
        for ch in inner:
            if ch == '"':
                in_str = not in_str
            if not in_str:
                d += ch in "([{"
                d -= ch in ")]}"
            if ch == "," and d == 0 and not in_str:
                parts.append(cur)
                cur = ""
            else:
                cur += ch
        if cur.strip():
            parts.append(cur)
        attrs = {}
        for part in parts:
            key, _, val = part.strip().partition("=")
            key = key.strip()
            # `default_value_if("a", "b", "c")` is a call-style attribute
            key = key.split("(")[0].strip()
            attrs[key] = val.strip() if val.strip() else True
        rest = src[k:]
        rest = re.sub(r"^\s*\]", "", rest)
        rest = re.sub(r"^(\s*(#\[[^\]]*\]|///[^\n]*|//[^\n]*))*", "", rest)
        m = re.match(r"\s*(?:pub\s+)?([A-Za-z_][A-Za-z0-9_]*)\s*:\s*([^,\n]+)", rest)
        if m:
            out.append((m.group(1), m.group(2).strip(), attrs))
        i = k
    return out


def check_cli_flags(ctx, rule, fx, names):
    """A boolean command-line flag that gates a check or selects what is claimed is true exactly when the user wrote it: its `#[arg]`
    attribute is `long` (and `short` / `action` = set-true) only - no default that depends on another argument, no inverted action, no
    requires / conflicts that would make it unusable with the options it is documented with."""
    fields = {n: (t, a) for n, t, a in cli_fields(fx)}
    site = "src/command_line/arguments.rs"
    ALLOWED = {"long", "short", "action", "help", "long_help", "verbatim_doc_comment", "visible_alias", "alias", "display_order", "help_heading"}
    for name in names:
        if name not in fields:
            ctx.add(rule, "flag:%s" % name, None, site, "flag `%s` not found among the #[arg] fields" % name)
            continue
        ty, attrs = fields[name]
        extra = sorted(k for k in attrs if k not in ALLOWED)
        act = attrs.get("action", True)
        act_ok = act is True or "SetTrue" in str(act)
        long_ok = attrs.get("long", None) is True or (isinstance(attrs.get("long"), str) and attrs["long"].strip('"') == name.replace("_", "-"))
        ctx.add(rule, "flag:%s" % name, ty == "bool" and not extra and act_ok and long_ok, site,
                "--%s is a plain presence flag (attributes %s%s)" % (name.replace("_", "-"), sorted(attrs), "; not allowed here: %s" % extra if extra else ""))
