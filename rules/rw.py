"""RW: extraction of rewrite rules `pattern => template` from simplification functions (typed HIR) as propositional schemas,
and exhaustive validity checks over the Goedel/HT three-valued and the classical two-valued truth tables.

Schemas: ('var', key) | ('top',) | ('bot',) | ('not', s) | ('bin', conn, s, s)   conn = 'and'|'or'|'imp'|'rimp'|'iff' | ('cvar', key, allowed)
         ('opaque', text)  for anything outside the propositional fragment
"""
import itertools

from .facts import AnalysisGap, callee, callee_generic, ctor_of, local_id_of, strip
from . import hq

CONN = {"Conjunction": "and", "Disjunction": "or", "Implication": "imp", "ReverseImplication": "rimp", "Equivalence": "iff"}


class NotSchematic(Exception):
    pass


def conn_of_pattern(p, env, key):
    k = p.get("p")
    if k == "Path":
        r = p.get("res", {})
        if r.get("variant") in CONN:
            return CONN[r["variant"]]
    if k == "Or":
        alts = [conn_of_pattern(q, env, key) for q in p["pats"]]
        if all(isinstance(a, str) for a in alts):
            return ("cvar", key, tuple(sorted(alts)))
    if k == "Bind":
        if "sub" in p:
            c = conn_of_pattern(p["sub"], env, key)
        else:
            c = ("cvar", "b%d" % p["id"], tuple(sorted(CONN.values())))
        env[p["id"]] = ("conn", c)
        return c
    if k == "Wild":
        return ("cvar", key, tuple(sorted(CONN.values())))
    raise NotSchematic("connective pattern %s" % hq.pat_key(p))


def schema_of_pattern(p, env, key="m"):
    """Pattern over Formula / UnboxedFormula -> schema; bindings are recorded in env (HirId -> ('form', schema) | ('conn', c))."""
    k = p.get("p")
    if k == "Wild":
        return ("var", key)
    if k == "Bind":
        if "sub" in p:
            s = schema_of_pattern(p["sub"], env, key)
        else:
            s = ("var", "b%d" % p["id"])
        env[p["id"]] = ("form", s)
        return s
    if k in ("Ref", "Box", "Deref"):
        return schema_of_pattern(p["pat"], env, key)
    r = p.get("res", {})
    if r.get("r") != "ctor":
        raise NotSchematic("pattern %s" % hq.pat_key(p))
    adt, var = hq.last(r["adt"]), r.get("variant")
    if adt in ("Formula", "UnboxedFormula"):
        if var == "AtomicFormula":
            sub = p["pats"][0] if p.get("p") == "TupleStruct" else None
            if sub is None:
                raise NotSchematic("atomic pattern")
            sk = sub.get("p")
            if sk in ("Path", "TupleStruct", "Struct") and hq.last(sub["res"].get("adt", "")) == "AtomicFormula":
                v2 = sub["res"].get("variant")
                if v2 == "Truth":
                    return ("top",)
                if v2 == "Falsity":
                    return ("bot",)
                raise NotSchematic("atomic formula pattern %s" % v2)
            if sk in ("Wild", "Bind"):
                if sk == "Bind":
                    env[sub["id"]] = ("atomic", key)
                return ("var", key)
            raise NotSchematic("atomic pattern %s" % sk)
        fields = {f["name"]: f["pat"] for f in p.get("fields", [])}
        if var == "UnaryFormula":
            if "connective" in fields and hq.pat_key(fields["connective"]) not in ("UnaryConnective::Negation", "_"):
                raise NotSchematic("unary connective")
            if "connective" in fields and fields["connective"].get("p") == "Bind":
                env[fields["connective"]["id"]] = ("conn", "not")
            return ("not", schema_of_pattern(fields["formula"], env, key + ".f") if "formula" in fields else ("var", key + ".f"))
        if var == "BinaryFormula":
            c = conn_of_pattern(fields["connective"], env, key + ".c") if "connective" in fields else ("cvar", key + ".c", tuple(sorted(CONN.values())))
            l = schema_of_pattern(fields["lhs"], env, key + ".l") if "lhs" in fields else ("var", key + ".l")
            rr = schema_of_pattern(fields["rhs"], env, key + ".r") if "rhs" in fields else ("var", key + ".r")
            return ("bin", c, l, rr)
        if var == "QuantifiedFormula":
            raise NotSchematic("quantified pattern")
    raise NotSchematic("pattern %s" % hq.pat_key(p))


def schema_of_expr(e, env):
    e0 = e
    e = strip(e)
    k = e.get("k")
    if k == "Block" and not e.get("stmts") and "expr" in e:
        return schema_of_expr(e["expr"], env)
    if k == "Path" and e.get("res", {}).get("r") == "local":
        b = env.get(e["res"]["id"])
        if b is None:
            raise NotSchematic("unbound local %s" % e["res"]["name"])
        if b[0] == "form":
            return b[1]
        raise NotSchematic("local %s is not a formula" % e["res"]["name"])
    c = ctor_of(e)
    if c and hq.last(c[0]) == "Formula":
        if c[1] == "AtomicFormula":
            inner = strip(e["args"][0])
            ci = ctor_of(inner)
            if ci and ci[1] == "Truth":
                return ("top",)
            if ci and ci[1] == "Falsity":
                return ("bot",)
            raise NotSchematic("atomic formula constructed")
        fields = {f["name"]: f["e"] for f in e.get("fields", [])}
        if c[1] == "UnaryFormula":
            return ("not", schema_of_expr(fields["formula"], env))
        if c[1] == "BinaryFormula":
            return ("bin", conn_of_expr(fields["connective"], env), schema_of_expr(fields["lhs"], env), schema_of_expr(fields["rhs"], env))
        raise NotSchematic("constructor %s" % c[1])
    if k == "MethodCall" and e["method"] == "rebox":
        return schema_of_expr(e["recv"], env)
    if k == "Call" and (callee(e) or "").endswith("Formula::conjoin"):
        arr = strip(e["args"][0])
        if arr.get("k") == "Array":
            items = [schema_of_expr(x, env) for x in arr["es"]]
            s = items[0]
            for it in items[1:]:
                s = ("bin", "and", s, it)
            return s
    raise NotSchematic("template expression %s" % hq.render(e0)[:60])


def conn_of_expr(e, env):
    e = strip(e)
    c = ctor_of(e)
    if c and c[1] in CONN:
        return CONN[c[1]]
    if e.get("k") == "Path" and e.get("res", {}).get("r") == "local":
        b = env.get(e["res"]["id"])
        if b and b[0] == "conn":
            return b[1]
    raise NotSchematic("connective expression")


def guard_equalities(g, env):
    """`a == b && c == d` over bound formulas -> list of (schema, schema)."""
    g = strip(g)
    if g.get("k") == "Binary" and g.get("op") == "And":
        return guard_equalities(g["l"], env) + guard_equalities(g["r"], env)
    if g.get("k") == "Binary" and g.get("op") == "Eq":
        return [(schema_of_expr(g["l"], env), schema_of_expr(g["r"], env))]
    raise NotSchematic("guard %s" % hq.render(g)[:60])


def rules_of_fn(body):
    """[(arm label, lhs schema, rhs schema, equalities)] for a rule function `match formula[.unbox()] { P => T, .. , x => x[.rebox()] }`.
    The identity arm is dropped.  Raises NotSchematic if an arm is outside the propositional fragment."""
    e = strip(body["body"])
    while e.get("k") == "Block" and not e.get("stmts") and "expr" in e:
        e = strip(e["expr"])
    if e.get("k") != "Match":
        raise NotSchematic("body is not a match")
    param_names = {p.get("name") for p in body["params"]}
    sc = strip(e["scrut"])
    root = sc["recv"] if sc.get("k") == "MethodCall" and sc["method"] == "unbox" else sc
    if hq.local_of(root) not in param_names:
        raise NotSchematic("scrutinee is not the parameter")
    out = []
    for i, a in enumerate(e["arms"]):
        out.extend(rules_of_arm(a, "arm%d" % i, None, {}))
    return out


def is_identity_arm(a):
    p = a["pat"]
    if p.get("p") == "Bind" and "sub" not in p and "guard" not in a:
        b = strip(a["body"])
        if local_id_of(b) == p["id"]:
            return True
        if b.get("k") == "MethodCall" and b["method"] == "rebox" and local_id_of(b["recv"]) == p["id"]:
            return True
    return False


def subst(s, key, by):
    if s == ("var", key):
        return by
    if s[0] == "not":
        return ("not", subst(s[1], key, by))
    if s[0] == "bin":
        return ("bin", s[1], subst(s[2], key, by), subst(s[3], key, by))
    return s


def rules_of_arm(a, label, outer, env0):
    if is_identity_arm(a):
        return []
    env = dict(env0)
    lhs = schema_of_pattern(a["pat"], env, label)
    eqs = guard_equalities(a["guard"], env) if "guard" in a else []
    body = strip(a["body"])
    while body.get("k") == "Block" and not body.get("stmts") and "expr" in body:
        body = strip(body["expr"])
    # refinement: match (x.unbox(), y.unbox()) { (P1, P2) if G => T, (l, r) => rebuild }
    if body.get("k") == "Match":
        sc = strip(body["scrut"])
        comps = sc["es"] if sc.get("k") == "Tup" else [sc]
        roots = []
        for c in comps:
            c = strip(c)
            if c.get("k") == "MethodCall" and c["method"] == "unbox" and local_id_of(c["recv"]) in env:
                roots.append(local_id_of(c["recv"]))
            else:
                raise NotSchematic("nested match scrutinee")
        out = []
        for j, a2 in enumerate(body["arms"]):
            env2 = dict(env)
            pats = a2["pat"]["pats"] if a2["pat"].get("p") == "Tuple" else [a2["pat"]]
            lhs2 = lhs
            for rid, p2 in zip(roots, pats):
                s2 = schema_of_pattern(p2, env2, "%s.n%d" % (label, rid))
                old = env[rid][1]
                lhs2 = subst(lhs2, old[1], s2) if old[0] == "var" else lhs2
                env2[rid] = ("form", s2)
            eq2 = eqs + (guard_equalities(a2["guard"], env2) if "guard" in a2 else [])
            rhs = schema_of_expr(a2["body"], env2)
            out.append(("%s/%d" % (label, j), lhs2, rhs, eq2))
        return out
    rhs = schema_of_expr(a["body"], env)
    return [(label, lhs, rhs, eqs)]


# ---------------------------------------------------------------------------------------
# semantics

HT = (0, 1, 2)  # 0 < 1 (= one half) < 2 (= one)


def ev(s, asg, casg, top=2):
    k = s[0]
    if k == "var":
        return asg[s[1]]
    if k == "top":
        return top
    if k == "bot":
        return 0
    if k == "not":
        v = ev(s[1], asg, casg, top)
        return top if v == 0 else 0
    if k == "bin":
        c = s[1]
        if not isinstance(c, str):
            c = casg[c[1]]
        a, b = ev(s[2], asg, casg, top), ev(s[3], asg, casg, top)
        if c == "and":
            return min(a, b)
        if c == "or":
            return max(a, b)
        imp = lambda x, y: top if x <= y else y
        if c == "imp":
            return imp(a, b)
        if c == "rimp":
            return imp(b, a)
        if c == "iff":
            return min(imp(a, b), imp(b, a))
    raise ValueError(s)


def metavars(s, acc=None, cacc=None):
    acc = set() if acc is None else acc
    cacc = {} if cacc is None else cacc
    if s[0] == "var":
        acc.add(s[1])
    elif s[0] == "not":
        metavars(s[1], acc, cacc)
    elif s[0] == "bin":
        if not isinstance(s[1], str):
            cacc[s[1][1]] = s[1][2]
        metavars(s[2], acc, cacc)
        metavars(s[3], acc, cacc)
    return acc, cacc


def unify_equalities(lhs, rhs, eqs):
    """Syntactic-equality guards identify metavariables (only var = var equalities are supported exactly)."""
    ren = {}
    for a, b in eqs:
        if a[0] == "var" and b[0] == "var":
            ra, rb = ren.get(a[1], a[1]), ren.get(b[1], b[1])
            for k_, v_ in list(ren.items()):
                if v_ == rb:
                    ren[k_] = ra
            ren[rb] = ra
        else:
            raise NotSchematic("equality guard between compound schemas")

    def r(s):
        if s[0] == "var":
            return ("var", ren.get(s[1], s[1]))
        if s[0] == "not":
            return ("not", r(s[1]))
        if s[0] == "bin":
            return ("bin", s[1], r(s[2]), r(s[3]))
        return s
    return r(lhs), r(rhs)


def valid(lhs, rhs, eqs, logic):
    """(ok, counterexample, number of assignments)."""
    l, r_ = unify_equalities(lhs, rhs, eqs)
    vs, cs = metavars(l)
    metavars(r_, vs, cs)
    vs = sorted(vs)
    cks = sorted(cs)
    dom = HT if logic == "ht" else (0, 2)
    n = 0
    for vals in itertools.product(dom, repeat=len(vs)):
        asg = dict(zip(vs, vals))
        for cvals in itertools.product(*[cs[k] for k in cks]):
            casg = dict(zip(cks, cvals))
            n += 1
            if ev(l, asg, casg) != ev(r_, asg, casg):
                return False, (asg, casg), n
    return True, None, n


def show(s):
    k = s[0]
    if k == "var":
        return "F[%s]" % s[1].split(".")[-1]
    if k == "top":
        return "#true"
    if k == "bot":
        return "#false"
    if k == "not":
        return "not %s" % show(s[1])
    c = s[1] if isinstance(s[1], str) else "{%s}" % "|".join(s[1][2])
    return "(%s %s %s)" % (show(s[2]), c, show(s[3]))
