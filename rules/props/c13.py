"""C13 — a proof outline cannot make an unjustified claim available as an axiom."""
from ..facts import AnalysisGap, callee, callee_generic, local_id_of, local_of, pat_bindings, strip, walk
from .. import flow, hq, sym, tasks

EXPLANATION = (
    "SEQ: in both direction blocks of AssembledExternalEquivalenceTask::decompose the outline loop is checked statement by statement: the inner "
    "loop builds one problem per conjecture of lemma i from `axioms.clone()` + that conjecture, and the only statement that adds lemma i's "
    "consequences to `axioms` follows the inner loop inside the same outer iteration (cross-checked on the MIR: no path from the append back to a "
    "problem of the same iteration without passing the loop head); the final problem receives consequences only. TPL: inductive_lemma is evaluated "
    "on concrete formulas (the accepted shape and one representative of every way to miss it): accepted shape forall V (N >= n -> F) with one guard, numeral bound, integer induction variable, V = free(F); base = "
    "closure(F[N:=n]); step = closure((N >= n and F) -> F[N:=N+1]); every other shape is an error. definition(): the seven refusals (duplicate "
    "variables, non-variable argument, variable list mismatch, taken predicate, free variables in the body, undefined body predicate, malformed) "
    "with their conditions. from_specification: every definition passes definition(taken), its predicate is inserted into taken before the next "
    "entry, lemmas are universally closed, assumptions/specs are refused, directions route to the forward/backward lists. GeneralLemma::try_from: "
    "lemma -> conjecture and consequence are the formula; inductive lemma -> conjectures [base, step], consequence the original. SHARED: the induction guard is printed through the integer relation table, which prints each relation as itself (C06).")
UNDECIDED = ["validity of induction over the integers >= n in the standard interpretation (mathematics)", "provability of any emitted problem"]
ASSUMPTIONS = ["Formula::substitute is capture avoiding (C17)", "universal_closure quantifies exactly the free variables (C17/C04 collectors)"]

EE = "verifying::task::external_equivalence::"


def P(base, *path):
    return ("proj", base, tuple(path))


S = ("call", "Unbox::unbox", (("param", "self"),))
QF, BF, AF = "UnboxedFormula::QuantifiedFormula", "Formula::BinaryFormula", "UnboxedFormula::AtomicFormula"
LHS = P(S, (QF, "formula"), (BF, "lhs"))
RHS = P(S, (QF, "formula"), (BF, "rhs"))
VARS = P(S, (QF, "quantification"), ("Quantification", "variables"))
C = ("call", "Unbox::unbox", (LHS,))
TERM = P(C, (AF, "0"), ("AtomicFormula::Comparison", "0"), ("Comparison", "term"))
GUARDS = P(C, (AF, "0"), ("AtomicFormula::Comparison", "0"), ("Comparison", "guards"))
IV = ("match", TERM, (("GeneralTerm::IntegerTerm(IntegerTerm::Variable(_))",
                       ("ctor", "Variable", (("name", P(TERM, ("GeneralTerm::IntegerTerm", "0"), ("IntegerTerm::Variable", "0"))), ("sort", ("ctor", "Sort::Integer", ()))))),
                      ("_", ("never",))))
N = P(("index", GUARDS, ("lit", 0)), ("Guard", "term"), ("GeneralTerm::IntegerTerm", "0"), ("IntegerTerm::Numeral", "0"))


def GT_INT(x):
    return ("ctor", "GeneralTerm::IntegerTerm", (("0", x),))


def BIN(conn, l, r):
    return ("ctor", "Formula::BinaryFormula", (("connective", ("ctor", "BinaryConnective::" + conn, ())), ("lhs", l), ("rhs", r)))


BASE = ("call", "Formula::universal_closure", (("call", "Formula::substitute", (RHS, IV, GT_INT(("ctor", "IntegerTerm::Numeral", (("0", N),))))),))
SUCC = GT_INT(("ctor", "IntegerTerm::BinaryOperation", (("lhs", P(TERM, ("GeneralTerm::IntegerTerm", "0"))), ("op", ("ctor", "BinaryOperator::Add", ())),
                                                         ("rhs", ("ctor", "IntegerTerm::Numeral", (("0", ("lit", 1)),))))))
STEP = ("call", "Formula::universal_closure", (BIN("Implication", BIN("Conjunction", LHS, RHS), ("call", "Formula::substitute", (RHS, IV, SUCC))),))
OUTER_IND = "UnboxedFormula::QuantifiedFormula{formula: Formula::BinaryFormula{connective: BinaryConnective::Implication}, quantification: Quantification{quantifier: Quantifier::Forall}}"
INNER_CMP = "UnboxedFormula::AtomicFormula(AtomicFormula::Comparison(Comparison{}))"
GUARD_PAT = "Guard{relation: Relation::GreaterEqual, term: GeneralTerm::IntegerTerm(IntegerTerm::Numeral(_))}"


def ERR(v, *payload, named=None):
    fields = tuple((str(i), p) for i, p in enumerate(payload)) if named is None else tuple(sorted(named.items()))
    return ("ctor", "Result::Err", (("0", ("ctor", "ProofOutlineError::" + v, fields)),))


def arms(t):
    return {a[0]: a[-1] for a in t[2]} if t and t[0] == "match" else {}


def rule_induction(ctx):
    """inductive_lemma decided per input shape: the function is evaluated on concrete formulas (sub-formulas opaque) - the accepted shape
    `forall V (N >= n -> F)` and one representative of every way to miss it - and the decision tree of the result must be the documented one:
    the pair (base case, inductive step) when V is exactly the free variables of F, the specific refusal otherwise."""
    from .. import leaves
    fx = ctx.facts
    b = fx.fn("inductive_lemma", impl_self="syntax_tree::fol::sigma_0::Formula")
    site = ctx.site(b)

    def K(n, **f):
        return ("ctor", n, tuple(sorted(f.items())))
    VS, FF, N_, V_ = ("param", "$vs"), ("param", "$F"), ("param", "$n"), ("param", "$v")
    INT = lambda t: K("GeneralTerm::IntegerTerm", **{"0": t})
    ivar = INT(K("IntegerTerm::Variable", **{"0": V_}))
    guard = lambda rel="GreaterEqual", term=None: K("Guard", relation=K("Relation::" + rel), term=term if term is not None else INT(K("IntegerTerm::Numeral", **{"0": N_})))
    cmp_ = lambda term=ivar, guards=None: K("Formula::AtomicFormula", **{"0": K("AtomicFormula::Comparison", **{"0": K("Comparison", term=term, guards=("list", tuple(guards if guards is not None else [guard()])))})})
    lemma = lambda lhs=None, conn="Implication", q="Forall": K("Formula::QuantifiedFormula", quantification=K("Quantification", quantifier=K("Quantifier::" + q), variables=VS),
                                                             formula=K("Formula::BinaryFormula", connective=K("BinaryConnective::" + conn), lhs=lhs if lhs is not None else cmp_(), rhs=FF))

    def run(node):
        v = sym.Eval(fx, inline_depth=0).function(b, [node])
        out = []
        for ts, x in leaves.leaves(leaves.lift(v)):
            ts = tuple(t for t in ts if t[0] != "survived")
            out.append((ts, sym.drop_never(leaves.strip_acc(x))))
        return out

    def err(name, node):
        return ("ctor", "Result::Err", (("0", ("ctor", "ProofOutlineError::" + name, (("0", node),))),))
    good = lemma()
    got = run(good)
    IV = K("Variable", name=("call", "ToString::to_string", (V_,)), sort=K("Sort::Integer"))
    IV2 = K("Variable", name=V_, sort=K("Sort::Integer"))
    mism = ("cond", ("bin", "Eq") + tuple(sorted((leaves.norm(("call", "FromIterator::from_iter", (VS,))), ("call", "Formula::free_variables", (FF,))), key=repr)), False)
    by = {}
    for ts, x in got:
        by.setdefault(ts, []).append(x)
    refused = by.get((mism,), [])
    ctx.add("TPL", "induction:refuse:variables-are-free-variables", refused == [err("MalformedInductiveVariables", good)], site,
            "refused (MalformedInductiveVariables) exactly when the quantified variables are not the free variables of the consequent: %s" % [list(map(str, k_)) for k_ in by])
    acc = by.get((("cond", mism[1], True),), [])
    pair = None
    if len(acc) == 1 and acc[0][:2] == ("ctor", "Result::Ok"):
        fl = acc[0][2][0][1]
        if fl[:2] == ("call", "WithWarnings::flawless") and fl[2][0][0] == "list":
            pair = fl[2][0][1]
        elif fl[:2] == ("call", "WithWarnings::flawless") and fl[2][0][0] == "ctor" and len(fl[2][0][2]) == 2:
            # the two obligations as a struct with named fields: which field is the base case and which the step is read off their values
            IND_FIELDS.clear()
            IND_FIELDS["struct"] = fl[2][0][1]
            IND_FIELDS["fields"] = dict(fl[2][0][2])

    def variants(t):
        # the induction variable may be built from the name directly or from its to_string()
        return {t, leaves.replace(t, {IV: IV2})}
    num = INT(K("IntegerTerm::Numeral", **{"0": N_}))
    base = ("call", "Formula::universal_closure", (("call", "Formula::substitute", (FF, IV, num)),))
    succ = INT(K("IntegerTerm::BinaryOperation", op=K("BinaryOperator::Add"), lhs=K("IntegerTerm::Variable", **{"0": V_}), rhs=K("IntegerTerm::Numeral", **{"0": ("lit", 1)})))
    step = ("call", "Formula::universal_closure", (K("Formula::BinaryFormula", connective=K("BinaryConnective::Implication"),
                                                      lhs=K("Formula::BinaryFormula", connective=K("BinaryConnective::Conjunction"), lhs=cmp_(), rhs=FF),
                                                      rhs=("call", "Formula::substitute", (FF, IV, succ))),))
    if pair is None and IND_FIELDS.get("fields"):
        fb_ = [k_ for k_, v_ in IND_FIELDS["fields"].items() if v_ in variants(base)]
        fs_ = [k_ for k_, v_ in IND_FIELDS["fields"].items() if v_ in variants(step)]
        if len(fb_) == 1 and len(fs_) == 1 and fb_ != fs_:
            pair = (IND_FIELDS["fields"][fb_[0]], IND_FIELDS["fields"][fs_[0]])
            IND_FIELDS["order"] = (fb_[0], fs_[0])
    ctx.add("TPL", "induction:base", pair is not None and len(pair) == 2 and pair[0] in variants(base), site, "base case = universal_closure(F[N := n])", construct=pair[0] if pair else [list(map(str, k_)) for k_ in by])
    ctx.add("TPL", "induction:step", pair is not None and len(pair) == 2 and pair[1] in variants(step), site, "step = universal_closure((N >= n and F) -> F[N := N + 1])", construct=pair[1] if pair else None)
    ctx.add("TPL", "induction:refusals", len(by) == 2, site, "on the accepted shape the only refusal is the variable-list test (%d outcomes)" % len(by))
    # every way to miss the shape is refused, with the documented error
    bad = {
        "one-guard": (lemma(lhs=cmp_(guards=[guard(), guard()])), "MalformedInductiveAntecedent"),
        "integer-variable": (lemma(lhs=cmp_(term=K("GeneralTerm::Variable", **{"0": V_}))), "MalformedInductiveTerm"),
        "term-shape": (lemma(lhs=cmp_(term=INT(K("IntegerTerm::Numeral", **{"0": ("param", "$m")})))), "MalformedInductiveTerm"),
        "guard-shape": (lemma(lhs=cmp_(guards=[guard(rel="Greater")])), "MalformedInductiveLemma"),
        "guard-term": (lemma(lhs=cmp_(guards=[guard(term=K("GeneralTerm::Variable", **{"0": ("param", "$w")}))])), "MalformedInductiveLemma"),
        "antecedent-shape": (lemma(lhs=K("Formula::AtomicFormula", **{"0": K("AtomicFormula::Atom", **{"0": ("param", "$a")})})), "MalformedInductiveLemma"),
        "outer-shape": (lemma(conn="Equivalence"), "MalformedInductiveLemma"),
        "outer-shape:exists": (lemma(q="Exists"), "MalformedInductiveLemma"),
        "outer-shape:unquantified": (K("Formula::BinaryFormula", connective=K("BinaryConnective::Implication"), lhs=cmp_(), rhs=FF), "MalformedInductiveLemma"),
    }
    # .. for every relation but >= and every binary connective but ->, not only for one representative
    for rel_ in fx.variants("syntax_tree::fol::sigma_0::Relation"):
        if rel_ not in ("GreaterEqual", "Greater"):
            bad["guard-shape:" + rel_] = (lemma(lhs=cmp_(guards=[guard(rel=rel_)])), "MalformedInductiveLemma")
    for conn_ in fx.variants("syntax_tree::fol::sigma_0::BinaryConnective"):
        if conn_ not in ("Implication", "Equivalence"):
            bad["outer-shape:" + conn_] = (lemma(conn=conn_), "MalformedInductiveLemma")
    for name, (node, e_) in bad.items():
        outs = {x for _, x in run(node)}
        # the variable-list test may come first: a refusal of either kind is a refusal
        ok = bool(outs) and outs <= {err(e_, node), err("MalformedInductiveVariables", node)} and err(e_, node) in outs
        ctx.add("TPL", "induction:%s" % (name if ":" in name or name.endswith("shape") or name == "guard-term" else "refuse:" + name), ok, site,
                "a lemma that misses the shape (%s) is refused with %s: %s" % (name, e_, sorted(sym.pretty(x)[:60] for x in outs)))


ATOM = P(("call", "Unbox::unbox", (LHS,)), (AF, "0"), ("AtomicFormula::Atom", "0"))
OUTER_DEF = OUTER_IND.replace("Implication", "Equivalence")
INNER_ATOM = "UnboxedFormula::AtomicFormula(AtomicFormula::Atom(_))"
UNIQ = ("call", "FromIterator::from_iter", (VARS,))
PRED = ("call", "Atom::predicate", (ATOM,))
TAKEN = ("param", "taken_predicates")


def rule_definition(ctx):
    """definition() decided per input shape: evaluated on `forall V (p(T) <-> B)` (V, T, B opaque) the refusals must be the six documented ones,
    each under exactly its own test, and the acceptance yields the defined predicate; every shape that misses the form is MalformedDefinition"""
    from .. import leaves, collect
    fx = ctx.facts
    # the head arguments are turned into variables by Variable::try_from: a `X$s` argument must not count as the general variable X
    collect.check_variable_conversions(ctx, "TPL", fx, which=("try_from",))
    b = fx.fn("definition", impl_self="syntax_tree::fol::sigma_0::Formula")
    site = ctx.site(b)
    pn = [p_.get("name") for p_ in b["params"]]
    TK = ("param", pn[1]) if len(pn) == 2 else ("param", "taken_predicates")

    def K(n, **f):
        return ("ctor", n, tuple(sorted(f.items())))
    VS, BODY, AT = ("param", "$vs"), ("param", "$B"), ("param", "$atom")
    atom_f = K("Formula::AtomicFormula", **{"0": K("AtomicFormula::Atom", **{"0": AT})})
    shape = lambda lhs=atom_f, conn="Equivalence", q="Forall": K("Formula::QuantifiedFormula", quantification=K("Quantification", quantifier=K("Quantifier::" + q), variables=VS),
                                                                 formula=K("Formula::BinaryFormula", connective=K("BinaryConnective::" + conn), lhs=lhs, rhs=BODY))

    def run(node):
        v = sym.Eval(fx, inline_depth=0).function(b, [node, TK])
        rets = v[1] if v[0] == "returns" else ((("fallthrough",), v),)
        out = []
        for conds, val in rets:
            if conds == ("fallthrough",):
                out.append((None, val))
                continue
            ts = []
            for c, pol in conds:
                r = leaves.cond_tests(leaves.set_norm(leaves.strip_acc(c)), pol)
                ts += [t for t in (r or [("dead",)]) if t[0] != "survived"]
            out.append((frozenset(ts), val))
        # `xs.map(f).collect::<Result<_, _>>().map_err(|e| Error{..})?`: the function leaves with that error exactly when some f(x) is Err
        for x in sym.subterms(v):
            if isinstance(x, tuple) and x[:1] == ("try",) and len(x) == 2 and isinstance(x[1], tuple) and x[1][:2] == ("call", "Result::map_err") and len(x[1][2]) == 2:
                src_, cl_ = x[1][2]
                if isinstance(src_, tuple) and src_[:2] == ("call", "Iterator::map") and len(src_[2]) == 2 and isinstance(cl_, tuple) and cl_[:1] == ("closure",) \
                        and isinstance(cl_[2], tuple) and cl_[2][:1] == ("ctor",) and str(cl_[2][1]).startswith("ProofOutlineError::"):
                    elem_ = leaves._apply(src_[2][1], ("each", leaves.norm(src_[2][0])))
                    out.insert(0, (frozenset([("is", leaves.norm(elem_), "Result::Err")]), ("ctor", "Result::Err", (("0", cl_[2]),))))
        return [o for o in out if o[1] != ("never",)]
    good = shape()
    rets = run(good)
    UNIQ = leaves.norm(("call", "FromIterator::from_iter", (VS,)))
    TERMS = ("fieldof", AT, "terms")
    TF = ("call", "TryFrom::try_from", (("each", TERMS),))
    PRED = ("call", "Atom::predicate", (AT,))
    by = {}
    for ts, val in rets:
        if ts is not None and val[:2] == ("ctor", "Result::Err"):
            by[val[2][0][1][1].split("::")[1]] = ts
    nsub = lambda a_, b_: ("cond", ("op", "Not", ("call", "IndexSet::is_subset", (a_, b_))), True)

    def has(name, pred):
        ts = by.get(name)
        return ts is not None and pred(ts)
    checks = {
        "DuplicatedVariables": lambda ts: ts == frozenset([("cond", ("bin", "Lt", ("call", "IndexSet::len", (UNIQ,)), ("call", "Vec::len", (VS,))), True)]),
        "TermsInDefinition": lambda ts: ts == frozenset([("is", TF, "Result::Err")]),
        "DefinedPredicateVariableListMismatch": lambda ts: len(ts) == 1 and list(ts)[0][0] == "cond" and list(ts)[0][2] is False and list(ts)[0][1][:2] == ("bin", "Eq") and
        UNIQ in list(ts)[0][1][2:] and any(("insert" in repr(x) and repr(TF) in repr(x)) or ("TryFrom::try_from" in repr(x) and repr(TERMS) in repr(x) and "Iterator::map" in repr(x))
                                           for x in list(ts)[0][1][2:]),
        "TakenPredicate": lambda ts: ts == frozenset([("cond", ("call", "IndexSet::contains", (TK, PRED)), True)]),
        "FreeRhsVariables": lambda ts: ts in (frozenset([nsub(("call", "Formula::free_variables", (BODY,)), UNIQ)]),
                                              frozenset([("cond", ("call", "IndexSet::is_subset", (("call", "Formula::free_variables", (BODY,)), UNIQ)), False)])),
        "UndefinedRhsPredicate": lambda ts: len(ts) == 1 and "Formula::predicates" in repr(ts) and repr(TK) in repr(ts) and ("difference" in repr(ts) or "is_subset" in repr(ts)),
    }
    text = {
        "DuplicatedVariables": "quantified variables are pairwise distinct",
        "TermsInDefinition": "every argument of the defined atom is a variable",
        "DefinedPredicateVariableListMismatch": "the quantified variables are exactly the arguments of the atom",
        "TakenPredicate": "the defined predicate occurs nowhere before (taken_predicates)",
        "FreeRhsVariables": "the body has no free variable outside the quantified ones",
        "UndefinedRhsPredicate": "the body mentions only earlier (taken) predicates",
    }
    for name, chk in checks.items():
        ctx.add("TPL", "definition:refuse:" + name, has(name, chk), site, "refused unless " + text[name] + ", and under that test alone", construct=sorted(map(str, by.get(name, []))) or None)
    ctx.add("TPL", "definition:refusals", set(by) == set(checks), site, "exactly the six guarded refusals inside the accepted shape: %s" % sorted(by))
    finals = [val for ts, val in rets if ts is None]
    okv = finals[0] if len(finals) == 1 else None
    good_res = okv is not None and okv[:2] == ("ctor", "Result::Ok") and okv[2][0][1][:2] == ("call", "WithWarnings::preface_warnings") and okv[2][0][1][2][0] == ("call", "WithWarnings::flawless", (PRED,))
    ctx.add("TPL", "definition:result", good_res, site, "an accepted definition yields the defined predicate (symbol, arity)")
    mal = lambda node: ("ctor", "Result::Err", (("0", ("ctor", "ProofOutlineError::MalformedDefinition", (("0", node),))),))
    bad = {"implication": shape(conn="Implication"), "exists": shape(q="Exists"), "lhs-not-atom": shape(lhs=K("Formula::AtomicFormula", **{"0": K("AtomicFormula::Truth")})),
           "unquantified": K("Formula::BinaryFormula", connective=K("BinaryConnective::Equivalence"), lhs=atom_f, rhs=BODY), "atomic": atom_f}
    wrong = {}
    for nm, node in bad.items():
        outs = [val for _, val in run(node)]
        if outs != [mal(node)]:
            wrong[nm] = [sym.pretty(x)[:80] for x in outs]
    ctx.add("TPL", "definition:shape", not wrong, site, "accepted only: forall V (atom <-> body); everything else is MalformedDefinition", construct=wrong or None)


def _is_data_of(pat, arg):
    """arg is the `data` of the value bound by the let pattern: `x.data` for `let x = ..`, or the binding of the field `data` in a struct pattern
    (`let WithWarnings { data: predicate, .. } = ..`)"""
    if pat.get("p") == "Bind":
        return hq.field_path(arg) == pat.get("name", "?") + ".data"
    if pat.get("p") == "Struct":
        for f in pat.get("fields", []):
            if f.get("name") == "data":
                bound = [b_["id"] for b_ in pat_bindings(f["pat"])]
                return len(bound) == 1 and local_id_of(arg) == bound[0]
    return False


def rule_from_specification(ctx):
    fx = ctx.facts
    b = fx.fn("ProofOutline::from_specification")
    site = ctx.site(b)
    body = b["body"]
    ev = sym.Eval(fx, inline_depth=0)
    v = ev.function(b)
    PN = [p_.get("name") for p_ in b["params"]]
    if len(PN) != 3 or None in PN:
        raise AnalysisGap("from_specification: expected the parameters (specification, taken predicates, placeholders)")
    PARAMS, TK_NAME = set(PN), PN[1]
    PHP = ("param", PN[2])
    ANF = ("call", "AnnotatedFormula::replace_placeholders", (("each", ("place", PN[0] + ".formulas")), PHP))
    # dispatch on the role
    ms = [m for m in hq.matches_over(body, "syntax_tree::fol::sigma_0::Role")]
    if len(ms) != 1:
        raise AnalysisGap("from_specification: expected one match over Role")
    rows = {}
    for a in ms[0]["arms"]:
        for alt in hq.or_alternatives(a["pat"]):
            rows[hq.pat_key(alt)] = a["body"]
    ctx.add("TAB-DISPATCH", "outline-roles", set(rows) == {"Role::Lemma", "Role::InductiveLemma", "Role::Definition", "Role::Assumption", "Role::Spec"} and not hq.has_wildcard_arm(ms[0]),
            site, "every role is handled explicitly: %s" % sorted(rows))
    for r in ("Role::Assumption", "Role::Spec"):
        s = flow.summ(rows[r]) if r in rows else None
        ctx.add("TAB-DISPATCH", "outline-refuses:" + r, s is not None and "AnnotatedFormulaWithInvalidRole" in repr(s) and "'ret'" in repr(s), site, "%s entries are refused" % r)
    # definitions: definition(&taken)? then insert before anything else
    d = rows.get("Role::Definition")
    ok = False
    detail = ""
    if d is not None and d.get("k") == "Block":
        st = hq.stmts_of(d)
        c0 = hq.calls(st[0], "CheckInternal::definition") if st else []
        pm = hq.parent_map(d)
        ins = hq.calls(st[1], method="insert") if len(st) > 1 else []
        tk_local = local_of(c0[0]["args"][0]) if len(c0) == 1 else None
        ok = len(c0) == 1 and hq.is_try_propagated(pm, c0[0]) and tk_local in PARAMS and len(ins) == 1 and local_of(ins[0]["recv"]) == tk_local \
            and st[0]["k"] == "LetStmt" and _is_data_of(st[0]["pat"], ins[0]["args"][0])
        detail = "stmt0: %s; stmt1: %s" % (hq.render(hq.stmt_expr(st[0]))[:80] if st else None, hq.render(hq.stmt_expr(st[1]))[:80] if len(st) > 1 else None)
        recv_ok = c0 and hq.field_path(c0[0]["recv"]) is not None and hq.field_path(c0[0]["recv"]).endswith(".formula")
        ok = ok and bool(recv_ok)
    ctx.add("SEQ", "definition-checked-then-taken", ok, site, "a definition entry is validated against taken_predicates (`?`) and its predicate is inserted before the next entry: " + detail)
    tk = ev.last_env.get(TK_NAME, [None])[-1]
    ctx.add("SEQ", "taken-accumulates", tk is not None and "'acc'" in repr(tk) and "insert" in repr(tk), site, "taken_predicates is carried across entries (loop-carried insert)")
    # lemmas: universal closure, try_into
    l = rows.get("Role::Lemma")
    gl_name = hq.local_name_of_let_with_call(l, "universal_closure_with_quantifier_joining", "general_lemma") if l is not None else "general_lemma"
    gl = [t for t in ev.bound.get(gl_name, [])]
    ref = ("try", ("call", "TryInto::try_into", (("call", "AnnotatedFormula::replace_placeholders",
                                                  (("call", "AnnotatedFormula::universal_closure_with_quantifier_joining", (ANF,)), PHP)),)))
    ctx.add("TPL", "lemma-closure", gl == [ref], site, "a lemma entry becomes GeneralLemma::try_from(universal closure of the entry)", construct=gl[:1])
    # direction routing
    lists = {}
    for name in ("forward_lemmas", "backward_lemmas", "forward_definitions", "backward_definitions"):
        t = ev.last_env.get(name, [None])[-1]
        dirs = set()

        def visit(t, stack):
            if isinstance(t, tuple):
                if t[:1] == ("phi",) and t[1][0] == "match":
                    for lab, sub in t[2]:
                        visit(sub, stack + [lab])
                    return
                if t[:1] == ("upd",) and t[2] == "push":
                    dirs.add(tuple(x for x in stack if x.startswith("Direction::")))
                for x in t:
                    visit(x, stack)
        visit(t, [])
        lists[name] = sorted(d[-1] for d in dirs if d)
    ref = {"forward_lemmas": ["Direction::Forward", "Direction::Universal"], "backward_lemmas": ["Direction::Backward", "Direction::Universal"],
           "forward_definitions": ["Direction::Forward", "Direction::Universal"], "backward_definitions": ["Direction::Backward", "Direction::Universal"]}
    for name in ref:
        ctx.add("FLOW-ROUTE", "outline-direction:" + name, lists.get(name) == ref[name], site, "%s receives entries annotated %s" % (name, lists.get(name)))


def rule_general_lemma(ctx):
    fx = ctx.facts
    if "order" not in IND_FIELDS:
        # which field of a result struct is the base case is decided by the induction rule
        try:
            sub_ = type(ctx)(ctx.prop, ctx.tier, ctx.facts)
            rule_induction(sub_)
        except Exception:
            pass
    b = fx.fn("try_from", impl_self="verifying::outline::GeneralLemma")
    site = ctx.site(b)
    v = sym.Eval(fx, inline_depth=0).function(b)
    a = arms(v)
    AFm = ("param", "annotated_formula")

    def ipf(x, role):
        return ("call", "AnnotatedFormula::into_problem_formula", (x, ("ctor", "Role::" + role, ())))

    lem = a.get("Role::Lemma")
    ref = ("ctor", "Result::Ok", (("0", ("ctor", "GeneralLemma", (("conjectures", ("list", (ipf(AFm, "Conjecture"),))), ("consequences", ("list", (ipf(AFm, "Axiom"),)))))),))
    ctx.add("TPL", "lemma", lem == ref and v[1] == ("place", "annotated_formula.role"), site, "lemma: conjecture = consequence = the formula itself")
    ind = a.get("Role::InductiveLemma")
    ok = False
    if ind and ind[:2] == ("ctor", "Result::Ok"):
        g = dict(ind[2][0][1][2])
        IL = ("fieldof", ("try", ("call", "CheckInternal::inductive_lemma", (("place", "annotated_formula.formula"),))), "data")
        cj = g.get("conjectures", ("list", ()))[1]
        ok = g.get("consequences") == ("list", (ipf(AFm, "Axiom"),)) and len(cj) == 2
        if ok:
            for i, c in enumerate(cj):
                ok = ok and c[:2] == ("call", "AnnotatedFormula::into_problem_formula") and c[2][1] == ("ctor", "Role::Conjecture", ()) and \
                    dict(c[2][0][2]).get("formula") in (("proj", IL, (("tuple", str(i)),)),) + ((("proj", IL, ((IND_FIELDS["struct"], IND_FIELDS["order"][i]),)),) if "order" in IND_FIELDS else ()) \
                    and dict(c[2][0][2]).get("direction") == ("place", "annotated_formula.direction")
    ctx.add("TPL", "inductive-lemma", ok, site, "inductive lemma: conjectures = [base, step] from inductive_lemma()?, consequence = the original formula as axiom")
    other = a.get("Role::Assumption | Role::Definition | Role::Spec")
    ctx.add("TPL", "other-roles", other is not None and other[:2] == ("ctor", "Result::Err") and len(a) == 3, site, "other roles cannot become lemmas")


_COPY_METHODS = ("iter", "cloned", "copied", "clone", "to_vec", "to_owned", "into_iter", "as_slice")
_READ_METHODS = _COPY_METHODS + ("len", "is_empty", "first", "last", "get", "contains")


def _copied_local(e):
    """the local whose elements the expression hands on unchanged: `axioms`, `axioms.clone()`, `axioms.iter().cloned()`, `axioms.to_vec()`"""
    cur = strip(e)
    while cur.get("k") == "MethodCall" and cur.get("method") in _COPY_METHODS and not cur.get("args"):
        cur = strip(cur["recv"])
    return local_of(cur)


IND_FIELDS = {}


def rule_sequencing(ctx):
    fx = ctx.facts
    b = fx.fn("decompose", impl_self=EE + "AssembledExternalEquivalenceTask")
    site = ctx.site(b)
    body = b["body"]
    found = 0
    for d in ("forward", "backward"):
        outer = [l for l in hq.for_loops(body) if "self.proof_outline.%s_lemmas" % d in flow.places_in(flow.summ(l[1]))]
        if len(outer) != 1:
            ctx.gap("SEQ", d + ":outer-loop", site, "no unique loop over %s_lemmas" % d)
            continue
        found += 1
        _, it, pat, obody = outer[0]
        lemma_ids = {p["id"] for p in pat_bindings(pat)}
        st = hq.stmts_of(obody)

        def conj_passes(e):
            """the passes over a lemma's conjectures inside e: `for c in ..conjectures..` loops and `..conjectures...map / for_each(|c| ..)` chains,
            as (iterated expression, pattern nodes binding the element, body)"""
            out = [(l[1], [l[2]], l[3]) for l in hq.for_loops({"x": e}) if any(x.endswith(".conjectures") for x in flow.places_in(flow.summ(l[1])))]
            for c in walk(e):
                if c.get("k") == "MethodCall" and c.get("method") in ("map", "for_each", "flat_map") and c.get("args") and strip(c["args"][0]).get("k") == "Closure" \
                        and any(x.endswith(".conjectures") for x in flow.places_in(flow.summ(c["recv"]))):
                    cl = strip(c["args"][0])
                    out.append((c["recv"], cl["params"], cl["body"]))
            return out
        inner_idx = [i for i, s in enumerate(st) if hq.stmt_expr(s) is not None and conj_passes(hq.stmt_expr(s))]
        # the running list of axioms, by role: the local that every outline problem of this loop starts from (first add_annotated_formulas)
        ax_name = None
        for ch_ in tasks.problem_chains(obody):
            adds_ = [a_[0] for m_, a_, _ in ch_["steps"] if m_ == "add_annotated_formulas"]
            if adds_ and _copied_local(adds_[0]):
                ax_name = _copied_local(adds_[0])
        app_idx = [i for i, s in enumerate(st) if hq.stmt_expr(s) is not None and [c for c in walk(hq.stmt_expr(s)) if c.get("k") == "MethodCall" and c["method"] in ("append", "extend", "push", "extend_from_slice")
                                                                                  and ax_name is not None and ax_name == (local_of(c["recv"]) or "") ]]
        problem_idx = [i for i, s in enumerate(st) if hq.calls(s, "Problem::with_name")]
        ok = len(inner_idx) == 1 and len(app_idx) == 1 and app_idx[0] > inner_idx[0] and problem_idx == inner_idx
        ctx.add("SEQ", d + ":append-after-problems", ok, site,
                "in one iteration: problems of lemma i are built at statement %s, its consequences are appended to the axioms at statement %s" % (inner_idx, app_idx))
        if len(app_idx) == 1:
            c = [c for c in walk(hq.stmt_expr(st[app_idx[0]])) if c.get("k") == "MethodCall" and c["method"] in ("append", "extend", "extend_from_slice")][0]
            s = flow.summ(c["args"][0])
            src_ok = any(x.endswith(".consequences") for x in flow.places_in(s)) and {lid for _, lid in flow.locals_in(s)} <= lemma_ids | set() and "conjectures" not in repr(s)
            roots = [strip(n) for n in walk(c["args"][0]) if n.get("k") == "Field" and n.get("name") == "consequences"]
            same = all(local_id_of(r["e"]) in lemma_ids for r in roots) and bool(roots)
            ctx.add("SEQ", d + ":append-own-consequences", src_ok and same, site, "what is appended are the consequences of the same lemma (not its conjectures)")
        # inner loop: problem = axioms.clone() + once(conjecture.clone())
        if len(inner_idx) == 1:
            inner = conj_passes(hq.stmt_expr(st[inner_idx[0]]))[0]
            inner = (None, inner[0], None, inner[2], inner[1])
            conj_ids = {p["id"] for q in inner[4] for p in pat_bindings(q)}
            ch = tasks.problem_chains(inner[3])
            ok = len(ch) == 1
            if ok:
                adds = [a[0] for m, a, _ in ch[0]["steps"] if m == "add_annotated_formulas"]
                ok = len(adds) == 2 and ax_name is not None and _copied_local(adds[0]) == ax_name and strip(adds[1]).get("k") == "Call" and \
                    {n_["res"]["id"] for n_ in walk(strip(adds[1])["args"][0]) if n_.get("k") == "Path" and n_.get("res", {}).get("r") == "local"} & conj_ids != set()
                # nothing in the inner loop modifies axioms
                muts = [c for c in walk(inner[3]) if c.get("k") == "MethodCall" and local_of(c["recv"]) == ax_name and c["method"] not in _READ_METHODS]
                ok = ok and not muts
            ctx.add("SEQ", d + ":outline-problem", ok, site, "each outline problem = the axioms accumulated so far + exactly one conjecture of the lemma; the inner loop does not touch the axioms")
        # MIR cross-check: the append block is not followed by a Problem::with_name of the same iteration without passing the loop head
    ctx.floor("SEQ", "outline_loops", found, 2)
    # the final problem of a direction takes the lemmas' consequences (axioms), never their conjectures
    for ch in tasks.problem_chains(body):
        if ch["name"] in ("forward_problem", "backward_problem"):
            lem = [a for m, a, _ in ch["steps"] if a and "lemmas" in repr(flow.summ(a[0]))]
            ok = len(lem) == 1 and "consequences" in repr(flow.summ(lem[0][0])) and "conjectures" not in repr(flow.summ(lem[0][0]))
            ctx.add("SEQ", "final:%s:consequences-only" % ch["name"], ok, site, "lemmas enter the final problem through their consequences only")
    outer_lines = {l[0].get("line") for d in ("forward", "backward") for l in hq.for_loops(body)
                   if any(pl.endswith("proof_outline.%s_lemmas" % d) for pl in flow.places_in(flow.summ(l[1])))}
    # the loops may live in decompose itself or in a helper extracted from it (then its body was attached to the call sites above)
    cands = [b["def_path"]] + sorted(h for h in fx.helpers if hq.calls(body, h) or any((callee(c) or "") == h for c in walk(body) if c.get("k") in ("Call", "MethodCall")))
    n_out = 0
    for dp in cands:
        try:
            mir = fx.mir_of(dp)
        except AnalysisGap:
            continue
        blocks = {bl["id"]: bl for bl in mir["blocks"]}
        apps = [bl["id"] for bl in mir["blocks"] if bl["term"].get("t") == "Call" and (bl["term"].get("callee") or "").endswith(("Vec::<T, A>::append", "Extend::extend", "iter::Extend::extend"))]
        withname = {bl["id"] for bl in mir["blocks"] if bl["term"].get("t") == "Call" and (bl["term"].get("callee_res") or "").endswith("Problem::with_name")}
        nexts = {bl["id"] for bl in mir["blocks"] if bl["term"].get("t") == "Call" and (bl["term"].get("callee") or "").endswith("Iterator::next")
                 and bl["term"].get("line") in outer_lines}
        if not nexts:
            continue

        def reach_without_next(start):
            seen, todo = set(), [start]
            while todo:
                x = todo.pop()
                if x in seen:
                    continue
                seen.add(x)
                if x in nexts and x != start:
                    continue
                for s_ in blocks[x]["term"].get("succ", []):
                    if not blocks[s_].get("cleanup"):
                        todo.append(s_)
            return seen
        for a in apps:
            r = reach_without_next(a)
            hit = sorted(r & withname)
            # the append of `problems.append(&mut ..decompose())` is also Vec::append: it is the one whose region contains no later outline problem anyway
            n_out += 1
            ctx.add("SEQ", "mir:append@%s#%d" % (hq.last(dp), n_out), not hit, site, "MIR of %s: after Vec::append no Problem::with_name is reachable before the next Iterator::next of the lemma loop (blocks %s)" % (hq.last(dp, 2), hit), nontrivial=True)
    ctx.floor("SEQ", "mir_append_sites", n_out, 1)


def rule_taken_at_call_site(ctx):
    """The `taken` set against which definitions are checked is what the task really contains: the input predicates and every predicate of
    the two sides as they are emitted (the program side after rename_predicates), not the sets computed from the sources before renaming."""
    fx = ctx.facts
    b = fx.fn("decompose", impl_self=EE + "ExternalEquivalenceTask")
    ev = sym.Eval(fx, inline_depth=0)
    v = ev.function(b)
    calls = [x for x in sym.subterms(v) if isinstance(x, tuple) and x[:2] == ("call", "ProofOutline::from_specification")]
    tk = ev.last_env.get(hq.local_name_of_arg(b["body"], "ProofOutline::from_specification", 1, "taken_predicates"), [None])[-1]
    rt = repr(tk)
    ok = len(calls) >= 1 and tk is not None and all(c[2][1] == tk for c in calls) and "rename_predicates" in rt and rt.count("Formula::predicates") >= 2 and "input_predicates" in rt
    # the same set in comprehension form (a loop per theory, or one chain over both lists flat-mapped): the inputs, and the predicates of
    # `.formula` of every element of the two whole formula lists, unconditionally
    from .. import comp as _comp
    _comp.use(fx)
    scans, inputs_ok, rest = [], False, 0
    try:
        ctk = _comp.canon(tk) if tk is not None else None
    except Exception:
        ctk = None
    if isinstance(ctk, tuple) and ctk[:1] == ("coll",):
        for src_, alts_ in ctk[1]:
            if len(src_) == 1 and src_[0][:2] == ("call", "UserGuide::input_predicates") and alts_ == ((frozenset(), ("at", src_[0])),):
                inputs_ok = True
            elif len(src_) == 2 and src_[1] == ("call", "Formula::predicates", (("fieldof", ("at", src_[0]), "formula"),)) and alts_ == ((frozenset(), ("at", src_[1])),) \
                    and src_[0][:1] == ("fieldof",) and src_[0][2] == "formulas":
                scans.append(src_[0])
            else:
                rest += 1
    canon_ok = inputs_ok and rest == 0 and len(scans) == 2 and len(set(scans)) == 2 and sum("rename_predicates" in repr(x_) for x_ in scans) == 1
    ok = (ok or canon_ok) and len(calls) >= 1 and tk is not None and all(c[2][1] == tk for c in calls)
    ctx.add("SEQ", "taken-at-call-site", ok, ctx.site(b),
            "ProofOutline::from_specification receives taken = input predicates + predicates of the left formulas + predicates of the renamed right formulas")
    # every formula of both theories is scanned: each `extend(formula.predicates())` sits in a loop over the whole formula list of one theory
    # (a `zip` of the two lists stops at the shorter one)
    srcs = []
    for x in sym.subterms(tk) if tk is not None else ():
        if isinstance(x, tuple) and x[:2] == ("call", "Formula::predicates") and len(x[2]) == 1:
            for y in sym.subterms(x[2][0]):
                if isinstance(y, tuple) and len(y) == 2 and y[0] == "each":
                    srcs.append(y[1])
    whole_lists = [s_ for s_ in srcs if isinstance(s_, tuple) and s_[:1] == ("fieldof",) and s_[2] == "formulas"]
    ctx.add("SEQ", "taken-scans-both-theories", (bool(srcs) and len(whole_lists) == len(srcs) and len(set(whole_lists)) >= 2) or canon_ok, ctx.site(b),
            "the predicates of every formula of both theories are taken: %d loop(s) over a whole formula list, %d other" % (len(set(whole_lists)), len(srcs) - len(whole_lists)))


def rule_guard_printed_as_meant(ctx):
    """the induction obligations are handed to the prover as TPTP text: the guard `N >= n` of the step and of the lemma itself is an integer
    comparison and goes through the printer's integer relation table, which must print each relation as itself (C06's table obligations) -
    `$greater` for `>=` would leave the case N = n unproven and still hand the full lemma on"""
    from . import c06
    sub = type(ctx)(ctx.prop, ctx.tier, ctx.facts)
    c06.rule_tokens(sub)
    ctx.obls.extend(o for o in sub.obls if o["key"].startswith("TAB-MAP:repr_"))


RULES = [rule_sequencing, rule_induction, rule_definition, rule_from_specification, rule_general_lemma, rule_taken_at_call_site, rule_guard_printed_as_meant]
