"""C15 — printing a parsed theory, specification or user guide re-parses to the same tree."""
from ..facts import AnalysisGap, strip, walk
from .. import gcov, grammar, hq, peval, prec, printers, prn, sym
from .c14 import grammar_literals, printer_literals, subsequence

EXPLANATION = (
    "PRN-K: token round trips (printer table -> PEG ordered choice -> parser table) for the operators, relations, connectives, quantifiers, "
    "sorts, roles, directions, #true/#false, #inf/#sup of the target language. PRN-P: the parenthesisation decisions of the default formatter "
    "(extracted precedence / associativity / mandatory-parentheses tables evaluated through fmt_unary / fmt_binary) against the binding powers "
    "and associativities of TERM_PRATT_PARSER and FORMULA_PRATT_PARSER for every (operator, operand, position). PRN-J: juxtaposition hazards "
    "computed from the grammar: the variable list of a quantifier is greedy (`variable+`), so an operand that can start with a variable must be "
    "parenthesised; a unary minus before a positive numeral lexes as one numeral; an infix token whose proper prefix is another token that may "
    "continue the left operand (`<` of `<-` followed by `-`) is a token-split hazard. LIST: literal pieces of the list / annotation printers "
    "occur in the grammar rules in order (theories, specifications, user guides, atoms, comparisons, quantifications, placeholders). SHARED: a variable invented by a rewrite is a variable of the grammar (C07's chooser obligations).")
UNDECIDED = ["full language equivalence of printer and parser", "user identifiers spelled like keywords"]
ASSUMPTIONS = ["pest PEG semantics: ordered choice, greedy repetition, implicit whitespace outside atomic rules"]

T = "syntax_tree::fol::sigma_0::"
A = peval.A


def integer_kinds():
    k = {
        "numeral+": (A("IntegerTerm", "Numeral", **{"0": ("int", 5)}), "leaf", None),
        "numeral+1": (A("IntegerTerm", "Numeral", **{"0": ("int", 1)}), "leaf", None),      # the smallest positive numeral: a range pattern `2..` would miss it
        "numeral+big": (A("IntegerTerm", "Numeral", **{"0": ("int", 9223372036854775807)}), "leaf", None),
        "numeral0": (A("IntegerTerm", "Numeral", **{"0": ("int", 0)}), "leaf", None),
        "numeral-": (A("IntegerTerm", "Numeral", **{"0": ("int", -5)}), "leaf", None),
        "numeral-1": (A("IntegerTerm", "Numeral", **{"0": ("int", -1)}), "leaf", None),
        "variable": (A("IntegerTerm", "Variable"), "leaf", None),
        "constant": (A("IntegerTerm", "FunctionConstant"), "leaf", None),
        "negative": (A("IntegerTerm", "UnaryOperation", op=A("UnaryOperator", "Negative")), "prefix", "negative"),
    }
    for op, rule in (("Add", "add"), ("Subtract", "subtract"), ("Multiply", "multiply")):
        k["op:" + op] = (A("IntegerTerm", "BinaryOperation", op=A("BinaryOperator", op)), "infix", rule)
    return k


def formula_kinds(fx):
    base = prec.formula_kinds(fx)
    rules = {"Conjunction": "conjunction", "Disjunction": "disjunction", "Implication": "implication", "ReverseImplication": "reverse_implication", "Equivalence": "equivalence"}
    out = {}
    for k, v in base.items():
        if k.startswith("bin:"):
            out[k] = (v, "infix", rules[k[4:]])
        elif k == "not":
            out[k] = (v, "prefix", "negation")
        elif k in ("forall", "exists"):
            out[k] = (v, "prefix", "quantification")
        else:
            out[k] = (v, "leaf", None)
    return out


def formula_leaf_hazard(pk, ck, pos):
    # `forall X Y = 3`: the quantifier's variable list (variable+) is greedy; a comparison may start with a variable
    return pk in ("forall", "exists") and ck in ("comparison1", "comparison2")


def int_leaf_hazard(pk, ck, pos):
    return pk == "negative" and ck.startswith("numeral+")


def rule_tokens(ctx):
    fx = ctx.facts
    g = grammar.load(fx, "fol")
    for enum, pty, parser, choice in (("UnaryOperator", "UnaryOperator", "UnaryOperatorParser", "unary_operator"), ("BinaryOperator", "BinaryOperator", "BinaryOperatorParser", "binary_operator"),
                                      ("Relation", "Relation", "RelationParser", "relation"), ("Quantifier", "Quantifier", "QuantifierParser", "quantifier"),
                                      ("UnaryConnective", "UnaryConnective", "UnaryConnectiveParser", "unary_connective"),
                                      ("BinaryConnective", "BinaryConnective", "BinaryConnectiveParser", "binary_connective"),
                                      ("Role", "Role", "RoleParser", "role"), ("Direction", "Direction", "DirectionParser", "direction"), ("Sort", "Sort", "SortParser", "sort")):
        prn.token_roundtrip(ctx, "PRN-K", fx, g, "fol", T + enum, pty, parser, choice)
    # #true / #false / #inf / #sup
    ab = printers.display_impl(fx, "fol", "AtomicFormula")
    at = printers.token_table(printers.evaluate(fx, ab).value) or {}
    aq, _ = prn.parser_table(fx, "fol", "AtomicFormulaParser")
    for v, rule in (("Truth", "truth"), ("Falsity", "falsity")):
        s = at.get("AtomicFormula::" + v)
        ctx.add("PRN-K", "AtomicFormula:" + v, s in g.literal_of(rule) and aq.get(rule) == "AtomicFormula::" + v, ctx.site(ab), "%s printed `%s`, grammar %s, parser %s" % (v, s, g.literal_of(rule), aq.get(rule)))
    alts = [a.get("v") for a in g.alternatives("atomic_formula")]
    ctx.add("PRN-K", "atomic_formula:order", alts == ["truth", "falsity", "comparison", "atom"], "src/parsing/fol/sigma_0/grammar.pest", "atomic_formula tries truth, falsity, comparison before atom (an atom is a prefix of a comparison): %s" % alts)
    gb = printers.display_impl(fx, "fol", "GeneralTerm")
    gt = printers.token_table(printers.evaluate(fx, gb).value) or {}
    gq, _ = prn.parser_table(fx, "fol", "GeneralTermParser")
    for v, rule in (("Infimum", "infimum"), ("Supremum", "supremum")):
        s = gt.get("GeneralTerm::" + v)
        ctx.add("PRN-K", "GeneralTerm:" + v, s in g.literal_of(rule) and gq.get(rule) == "GeneralTerm::" + v, ctx.site(gb), "%s printed `%s`, grammar %s, parser %s" % (v, s, g.literal_of(rule), gq.get(rule)))
    # sorted names: variable / function constant suffixes against the `$`-rules of the grammar
    vb = printers.display_impl(fx, "fol", "Variable")
    vt = printers.token_table(printers.evaluate(fx, vb).value) or {}
    st = printers.token_table(printers.evaluate(fx, printers.display_impl(fx, "fol", "Sort")).value) or {}
    ok = vt == {"Sort::General": "{}", "Sort::Integer": "{}$" + st.get("Sort::Integer", "?"), "Sort::Symbol": "{}$" + st.get("Sort::Symbol", "?")}
    ctx.add("PRN-K", "Variable:suffix", ok, ctx.site(vb), "variables are printed name, name$i, name$s with the sort tokens %s" % st)
    occ = {"IntegerTerm": ("IntegerTerm::Variable(_)", "{}$i", "IntegerTerm::FunctionConstant(_)", "{}$i"), "SymbolicTerm": ("SymbolicTerm::Variable(_)", "{}$s", "SymbolicTerm::FunctionConstant(_)", "{}$s"),
           "GeneralTerm": ("GeneralTerm::Variable(_)", "{}", "GeneralTerm::FunctionConstant(_)", "{}$g")}
    for ty, (vk, vtok, ck, ctok) in occ.items():
        t = printers.token_table(printers.evaluate(fx, printers.display_impl(fx, "fol", ty)).value) or {}
        ctx.add("PRN-K", "occurrence:" + ty, t.get(vk) == vtok and t.get(ck) == ctok, ctx.site(printers.display_impl(fx, "fol", ty)), "%s prints variables as `%s` and placeholders as `%s`" % (ty, t.get(vk), t.get(ck)))
    for rule, want in (("integer_variable", "$"), ("symbolic_variable", "$"), ("general_function_constant", "$"), ("integer_function_constant", "$"), ("symbolic_function_constant", "$")):
        r = g.rule(rule)
        ctx.add("PRN-K", "grammar:" + rule, r["ty"] == "compound_atomic" and want in grammar_literals(g, rule), "src/parsing/fol/sigma_0/grammar.pest", "`%s` is a compound-atomic rule name `$` sort (no whitespace inside)" % rule)
    # sort tokens: "g" ~ "eneral"? etc.
    for v, rule in (("General", "general_sort"), ("Integer", "integer_sort"), ("Symbol", "symbolic_sort")):
        ctx.add("PRN-K", "Sort:grammar:" + v, st.get("Sort::" + v) in g.literal_of(rule), "src/parsing/fol/sigma_0/grammar.pest", "sort token `%s` is accepted by %s: %s" % (st.get("Sort::" + v), rule, g.literal_of(rule)))


def rule_precedence(ctx):
    fx = ctx.facts
    n1 = prn.check_precedence(ctx, "PRN-P", fx, "fol", "IntegerTerm", "TERM_PRATT_PARSER", integer_kinds(), None, int_leaf_hazard)
    kinds = formula_kinds(fx)
    # the quantifier hazard is a juxtaposition rule: report it under PRN-J
    m = prec.Model(fx, "fol", "Formula")
    n2 = prn.check_precedence(ctx, "PRN-P", fx, "fol", "Formula", "FORMULA_PRATT_PARSER", kinds, None, None)
    ctx.floor("PRN-P", "cases", n1 + n2, 232)
    g = grammar.load(fx, "fol")
    q = g.rule("quantification")["expr"]
    greedy = q["e"] == "seq" and q["b"]["e"] == "rep1" and q["b"]["x"].get("v") == "variable"
    ctx.add("PRN-J", "quantifier:grammar", greedy, "src/parsing/fol/sigma_0/grammar.pest", "quantification = quantifier ~ variable+ : the variable list is greedy")
    fb = printers.display_impl(fx, "fol", "Formula")
    for qk in ("forall", "exists"):
        for ck in ("comparison1", "comparison2", "atom", "truth", "not", "forall"):
            par = quantified_child_parenthesised(fx, fb, m, kinds[qk][0], kinds[ck][0])
            need = ck.startswith("comparison")
            ctx.add("PRN-J", "quantifier-operand:%s/%s" % (qk, ck), par or not need, ctx.site(fb),
                    "%s directly over %s: printed %s parentheses; a comparison can start with a variable, which the greedy variable list would swallow (`forall X Y = 3`)" % (
                        qk, ck, "with" if par else "without"))
    # unary minus before a numeral in integer terms
    num = g.rule("numeral")
    neg = g.rule("negative")
    ctx.add("PRN-J", "minus-numeral:grammar", num["ty"] == "atomic" and neg["expr"]["e"] == "seq" and neg["expr"]["a"]["e"] == "neg", "src/parsing/fol/sigma_0/grammar.pest",
            "numeral = @{ \"0\" | \"-\"? nonzero digits }, negative = { !numeral ~ \"-\" }")
    # operator-token split: an infix connective whose proper prefix is a relation token, the rest of which can start a term
    bt = printers.token_table(printers.evaluate(fx, printers.display_impl(fx, "fol", "BinaryConnective")).value) or {}
    rt = printers.token_table(printers.evaluate(fx, printers.display_impl(fx, "fol", "Relation")).value) or {}
    rel_tokens = set(rt.values())
    for v, tok in sorted(bt.items()):
        splits = [(tok[:i], tok[i:]) for i in range(1, len(tok)) if tok[:i] in rel_tokens]
        hazard = []
        for pre, rest in splits:
            # would a longer relation token win instead?  PEG takes the first alternative of `relation` that matches
            longer = [r for r in rel_tokens if tok.startswith(r) and len(r) > len(pre)]
            if longer:
                continue
            # the rest must be able to start a general term: `-` (negative / numeral) or a letter / digit / `#` / `(`
            # the whole rest must be a prefix of a term: unary minus signs (then the right operand supplies the operand)
            if all(ch == "-" for ch in rest):
                hazard.append((pre, rest))
        ctx.add("PRN-J", "token-split:" + v.split("::")[1], not hazard, "src/parsing/fol/sigma_0/grammar.pest",
                "`%s`: after a left operand that is (or ends in) a term, the comparison rule reads `%s` as a relation and `%s...` as the start of an integer term: "
                "`p <- 5 = X` re-parses as the chain `p < -5 = X`" % (tok, hazard[0][0], hazard[0][1]) if hazard else "`%s` cannot be split into a relation token and the start of a term" % tok)


def quantified_child_parenthesised(fx, fb, m, qv, cv):
    """Does Display for Formula print the body `cv` of the quantifier `qv` in parentheses?  Display::fmt is evaluated on that concrete node: either
    it hands the body to fmt_unary (then the precedence model decides) or it writes it itself (then the template decides)."""
    import re as _re
    from ..sym import Eval
    child = prec.to_term(cv)
    node = prec.to_term(qv)
    fields = dict(node[2])
    fields["formula"] = child
    node = ("ctor", node[1], tuple(sorted(fields.items())))
    me = ("ctor", "Format", (("0", node),))
    ev = Eval(fx, inline_depth=0)
    ev.function(fb, [me, ("param", "f")])
    body_fmt = ("ctor", "Format", (("0", child),))
    verdicts = []
    for conds, loops, item in ev.out:
        if conds or loops:
            raise AnalysisGap("quantifier arm: conditional output on a concrete node: %r" % (conds,))
        if item[0] == "emit" and item[1] == "Precedence::fmt_unary" and item[2][1:] == (body_fmt,):
            verdicts.append(m.parens(qv, cv, "inner"))
        elif item[0] == "write" and body_fmt in item[2]:
            t = item[1]
            if _re.fullmatch(r"\(\{\w*\}\)", t):
                verdicts.append(True)
            elif _re.fullmatch(r"\{\w*\}", t):
                verdicts.append(False)
            else:
                raise AnalysisGap("quantifier arm: the body is written with the template %r" % t)
        elif item[0] == "emit" and item[1] == "Display::fmt" and item[2] == (body_fmt,):
            verdicts.append(False)
    if len(verdicts) != 1:
        raise AnalysisGap("quantifier arm: the body is printed %d times" % len(verdicts))
    return verdicts[0]


def _printed_in_parens(body, m, qv, cv):
    if any(c.get("k") == "MethodCall" and c["method"] == "fmt_unary" for c in walk(body)):
        return m.parens(qv, cv, "inner")
    w = [hq.macro_template(n["mac_src"]) for n in walk(body) if "mac_src" in n and n.get("mac") in ("write", "writeln")]
    w = [t for t in w if t and "{" in t]
    if not w:
        raise AnalysisGap("quantifier arm: unknown printing of the body")
    return all("({" in t for t in w)


def sym_subterms(t):
    from ..sym import subterms
    return subterms(t)


def rule_lists(ctx):
    fx = ctx.facts
    g = grammar.load(fx, "fol")
    table = [("Atom", "atom", ["(", ",", ")"]), ("Predicate", "predicate", ["/"]), ("Theory", "theory", ["."]), ("Specification", "specification", ["."]), ("UserGuide", "user_guide", ["."]),
             ("PlaceholderDeclaration", "placeholder_declaration", ["->"]), ("AnnotatedFormula", "annotated_formula", ["(", ")", "[", "]", ":"])]
    for ty, rule, want in table:
        pb = printers.display_impl(fx, "fol", ty)
        p = printers.evaluate(fx, pb)
        lits = [x for x in printer_literals(p) if x != "<>"]
        gl = [x for x in grammar_literals(g, rule) if not x.startswith("<")]
        flat = []
        for x in lits:
            flat.extend([x] if x in gl else (list(x) if all(ch in "(){}[].,:/" for ch in x) else [x]))
        ctx.add("LIST", ty, flat == want and subsequence(flat, gl), ctx.site(pb), "literal pieces %s of the %s printer occur in grammar rule `%s` in order (grammar literals %s)" % (flat, ty, rule, gl),
                construct={"printer": flat, "grammar": gl})
    # user guide entries
    ub = printers.display_impl(fx, "fol", "UserGuideEntry")
    ut = printers.token_table(printers.evaluate(fx, ub).value) or {}
    ref = {"UserGuideEntry::InputPredicate(_)": "input: {}", "UserGuideEntry::OutputPredicate(_)": "output: {}", "UserGuideEntry::PlaceholderDeclaration(_)": "input: {}"}
    ctx.add("LIST", "UserGuideEntry", {k: ut.get(k) for k in ref} == ref, ctx.site(ub), "user guide entries are printed `input: ..` / `output: ..`: %s" % ut)
    for rule, kw in (("input_predicate", "input"), ("output_predicate", "output"), ("placeholder_declaration", "input")):
        gl = grammar_literals(g, rule)
        ctx.add("LIST", "grammar:" + rule, gl[:2] == [kw, ":"], "src/parsing/fol/sigma_0/grammar.pest", "%s = \"%s\" \":\" ..: %s" % (rule, kw, gl))
    alts = [a.get("v") for a in g.alternatives("user_guide_entry")]
    ctx.add("LIST", "user_guide_entry:order", alts.index("input_predicate") < alts.index("placeholder_declaration"), "src/parsing/fol/sigma_0/grammar.pest",
            "`input: p/1` is tried as a predicate before a placeholder (a placeholder `input: p` is a prefix of it): %s" % alts)
    # comparison / guard / quantification spacing
    cb = printers.display_impl(fx, "fol", "Comparison")
    cp = printers.evaluate(fx, cb)
    ctx.add("LIST", "Comparison", [i[1] for _, _, i in cp.out if i[0] == "write"] == ["{}", " {}"], ctx.site(cb), "a comparison is its term followed by ` guard` for every guard")
    gb = printers.display_impl(fx, "fol", "Guard")
    gv = printers.evaluate(fx, gb).value
    ctx.add("LIST", "Guard", gv[:2] == ("write", "{} {}") and "relation" in repr(gv[2][0]) and "term" in repr(gv[2][1]), ctx.site(gb), "a guard is `relation term`")
    qb = printers.display_impl(fx, "fol", "Quantification")
    qp = printers.evaluate(fx, qb)
    lits = [i[1] for _, _, i in qp.out if i[0] == "write"]
    from .. import leaves
    import re as _re3
    vw = [(loops, item) for _, loops, item in qp.out if item[0] == "write" and _re3.fullmatch(r" \{\w*\}", item[1])]
    okv = bool(vw)
    for loops, item in vw:
        okv = okv and leaves.over_all(loops, ("place", "self.0.variables"), item[2]) == leaves.norm((("ctor", "Format", (("0", ("each", ("place", "self.0.variables"))),)),))
    ctx.add("LIST", "Quantification:every-variable", okv, ctx.site(qb), "the variable list is written by one loop over all of `variables` (no filter / dedup / skip)")
    import re as _re2
    alits = [_re2.sub(r"\{\w*\}", "{}", x) for x in lits]
    via_printer = any(i_[0] == "emit" and i_[1] == "Display::fmt" and leaves.norm(i_[2]) == leaves.norm((("ctor", "Format", (("0", ("place", "self.0.quantifier")),)),)) and not c_ and not l_ for c_, l_, i_ in qp.out)
    ctx.add("LIST", "Quantification", alits == ["forall", "exists", " {}"] or (via_printer and alits == [" {}"]), ctx.site(qb), "a quantification is the quantifier followed by ` variable` for every variable: %s" % lits)
    ab = printers.display_impl(fx, "fol", "AnnotatedFormula")
    ap = printers.evaluate(fx, ab)
    conds = [(i[1] if i[0] == "write" else "<>", bool(c)) for c, _, i in ap.out]
    ctx.add("LIST", "AnnotatedFormula:optional-parts", conds == [("<>", False), ("({})", True), ("[{}]", True), (": ", False), ("<>", False)], ctx.site(ab),
            "role, optional (direction) unless universal, optional [name] unless empty, `: `, formula: %s" % conds)


def rule_dispatch(ctx):
    from .. import prec
    F = "syntax_tree::fol::sigma_0::"
    n = prec.rule_dispatch(ctx, "fol", "IntegerTerm", [("UnaryOperation", "op", F + "UnaryOperator", ("arg",), "fmt_unary"),
                                                       ("BinaryOperation", "op", F + "BinaryOperator", ("lhs", "rhs"), "fmt_binary")], group="PRN-P")
    n += prec.rule_dispatch(ctx, "fol", "Formula", [("UnaryFormula", "connective", F + "UnaryConnective", ("formula",), "fmt_unary"),
                                                    ("BinaryFormula", "connective", F + "BinaryConnective", ("lhs", "rhs"), "fmt_binary")], group="PRN-P")
    ctx.floor("PRN-P", "dispatch_cases", n, 8)


def rule_fresh_names_are_variables(ctx):
    """what `simplify` prints must parse again: a variable invented by a rewrite has to be a variable of the grammar - an upper-case letter
    followed by an index (C07's chooser obligations: prefix, candidate shape)"""
    from . import c07
    sub = type(ctx)(ctx.prop, ctx.tier, ctx.facts)
    c07.rule_fresh_names(sub)
    ctx.obls.extend(o for o in sub.obls if o["key"].startswith("FRESH:classic-chooser:"))


RULES = [rule_tokens, rule_precedence, rule_dispatch, rule_lists, rule_fresh_names_are_variables]
