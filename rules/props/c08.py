"""C08 — the natural and mu translations agree with tau* on every rule they accept."""
import re

from ..facts import AnalysisGap, callee_generic, pat_bindings, strip, walk
from .. import collect, flow, ftpl, hq, sym
from .c01 import check_conjoin, C, P, M, AND, ALL, IMP, NOT, LE, check_tpl, match, reduce, render, rn, var, key

EXPLANATION = (
    "The natural translation follows Lifschitz, `Transforming Gringo Rules into Formulas in a Natural Way` (2021); its HT-equivalence with tau* on "
    "regular rules is a theorem of that paper and is not re-proved here. What is decided is that the code implements the published definition: "
    "REG: the three term classifiers, specialised per term constructor, are the boolean equations of the definition (regular of the first / second kind, "
    "contains a symbol / #inf / #sup). P2F: the term translation per constructor (integer variable iff in int_vars, arithmetic only through "
    "p2f_int_term, everything else refused). INTVARS: the integer variables are exactly the variables of operands of arithmetic operations of any "
    "top-level term of the rule (Rule::terms covers head, literals, both comparison sides) and the left sides of `t = t1..t2`. SORT-SITES: who "
    "constructs an integer-sorted variable in natural.rs. TPL: comparison, literal, body, head atom, head interval, basic / choice head, rule "
    "and program templates; FRESH: N<i> chosen against the head atom's variables. MU: per rule natural_rule, else tau_star_rule with the globals "
    "of the whole program. FLOW-ERR: every refusal (None) of a sub-translation is propagated. SHARED: natural / mu build nested integer terms, so the default printer's precedence and dispatch obligations (C15) run here too.")
UNDECIDED = ["HT-equivalence of the published natural translation with tau* (Lifschitz 2021; Fandinno, Lifschitz 2023)"]
ASSUMPTIONS = ["rules/sym.py is faithful on the straight-line / match / loop-and-push code of natural.rs"]

NT = "translating::formula_representation::natural::"
A = "syntax_tree::asp::mini_gringo::"
S = "syntax_tree::fol::sigma_0::"


def body_of(fx, name, mod=NT):
    bs = [b for b in fx.body_list if b["def_path"] == mod + name]
    if len(bs) != 1:
        raise AnalysisGap("function `%s%s` not found" % (mod, name))
    return bs[0]


def ev(fx, name, args, mod=NT):
    b = body_of(fx, name, mod)
    if len(args) != len(b["params"]):
        raise AnalysisGap("%s has %d parameters, expected %d" % (name, len(b["params"]), len(args)))
    return reduce(sym.Eval(fx, inline_depth=0).function(b, list(args))), b


# ------------------------------------------------------------------------------------------------ pattern keys

def split_top(s, sep):
    out, depth, cur = [], 0, ""
    i = 0
    while i < len(s):
        ch = s[i]
        if ch in "({[":
            depth += 1
        elif ch in ")}]":
            depth -= 1
        if depth == 0 and s.startswith(sep, i):
            out.append(cur)
            cur = ""
            i += len(sep)
            continue
        cur += ch
        i += 1
    out.append(cur)
    return out


def key_match(k, t):
    """does the pattern key k (hq.pat_key) match the term t?  True / False / None (cannot tell)"""
    alts = split_top(k, " | ")
    if len(alts) > 1:
        rs = [key_match(a, t) for a in alts]
        if any(r is True for r in rs):
            return True
        if all(r is False for r in rs):
            return False
        return None
    k = k.strip()
    if k == "_":
        return True
    if k.endswith(" if .."):
        return None
    if not (isinstance(t, tuple) and t and t[0] == "ctor"):
        if isinstance(t, tuple) and t and t[0] == "lit":
            return k == repr(t[1]).replace("'", '"') or k == str(t[1]).lower()
        return None
    m = re.match(r"^([A-Za-z_0-9:]+)(?:\((.*)\)|\{(.*)\})?$", k)
    if not m:
        return None
    if m.group(1) != t[1]:
        return False
    fields = dict(t[2])
    res = True
    if m.group(2) is not None:
        for i, sub in enumerate(x for x in split_top(m.group(2), ", ") if x and x != ".."):
            r = key_match(sub, fields.get(str(i)))
            if r is False:
                return False
            if r is None:
                res = None
    if m.group(3):
        for fp in split_top(m.group(3), ", "):
            name, _, sub = fp.partition(": ")
            r = key_match(sub, fields.get(name))
            if r is False:
                return False
            if r is None:
                res = None
    return res


def resolve(t):
    """select the arm of every match whose scrutinee is a literal constructor; fold `if` on literal booleans"""
    if not isinstance(t, tuple):
        return t
    if t and t[0] == "match" and len(t) == 3:
        sc = resolve(t[1])
        if isinstance(sc, tuple) and sc and sc[0] == "ctor":
            for a in t[2]:
                r = key_match(a[0], sc)
                if r is True and len(a) == 2:
                    return resolve(a[1])
                if r is False:
                    continue
                break
        return ("match", sc, tuple(tuple(resolve(x) for x in a) for a in t[2]))
    return tuple(resolve(x) for x in t)


# ------------------------------------------------------------------------------------------------ REG: boolean equations

def bnf(t):
    """boolean normal form: ('and', frozenset) / ('or', frozenset) / ('not', x) / True / False / ('call', name, arg)"""
    if t[0] == "lit":
        return bool(t[1])
    if t[0] == "bin" and t[1] in ("And", "Or"):
        a, b = bnf(t[2]), bnf(t[3])
        op = "and" if t[1] == "And" else "or"
        items = set()
        for x in (a, b):
            if isinstance(x, tuple) and x[0] == op:
                items |= x[1]
            else:
                items.add(x)
        unit = op == "and"
        if (not unit) in items:
            return not unit
        items.discard(unit)
        if not items:
            return unit
        return (op, frozenset(items)) if len(items) > 1 else next(iter(items))
    if t[0] == "op" and t[1] == "Not":
        x = bnf(t[2])
        return (not x) if isinstance(x, bool) else ("not", x)
    if t[0] == "call":
        return ("call", t[1].split("::")[-1], t[2])
    if t[0] == "matches":
        d = sym.decide_bool(t)      # `matches!(<literal constructor>, patterns)` is decided by the constructor
        if d is not None:
            return d
    return ("?", t)


def shapes(fx):
    """one term per constructor of asp::Term (operands opaque)"""
    out = {}
    out["Variable"] = C("Term::Variable", _0=P("$v"))
    for p_ in fx.variants(A + "PrecomputedTerm"):
        out["Precomputed:" + p_] = C("Term::PrecomputedTerm", _0=C("PrecomputedTerm::" + p_, _0=P("$x")) if p_ in ("Numeral", "Symbol") else C("PrecomputedTerm::" + p_))
    for u in fx.variants(A + "UnaryOperator"):
        out["Unary:" + u] = C("Term::UnaryOperation", op=C("UnaryOperator::" + u), arg=P("$a"))
    for o in fx.variants(A + "BinaryOperator"):
        out["Binary:" + o] = C("Term::BinaryOperation", op=C("BinaryOperator::" + o), lhs=P("$l"), rhs=P("$r"))
    return out


def call(name, x):
    return ("call", name, (P(x),))


def and_(*xs):
    return ("and", frozenset(xs))


def reference_bool(fn, shape):
    """the definitions of Lifschitz 2021 (section 3: regular terms)"""
    kind, _, sub = shape.partition(":")
    FIRST, SYM = "is_term_regular_of_first_kind", "contains_symbol_or_infimum_or_supremum"
    arith = ("Add", "Subtract", "Multiply")

    def clean(x):
        return and_(call(FIRST, x), ("not", call(SYM, x)))
    if fn == SYM:
        if kind == "Variable":
            return False
        if kind == "Precomputed":
            return sub in ("Symbol", "Infimum", "Supremum")
        if kind == "Unary":
            return call(SYM, "$a")
        return ("or", frozenset([call(SYM, "$l"), call(SYM, "$r")]))
    if fn == FIRST:
        if kind in ("Variable", "Precomputed"):
            return True
        if kind == "Unary":
            return clean("$a")
        if sub in arith:
            return ("and", clean("$l")[1] | clean("$r")[1])
        return False
    if fn == "is_term_regular_of_second_kind":
        if kind == "Binary" and sub == "Interval":
            return ("and", clean("$l")[1] | clean("$r")[1])
        return False
    raise AnalysisGap(fn)


def rule_regularity(ctx):
    fx = ctx.facts
    sh = shapes(fx)
    n = 0
    for fn in ("contains_symbol_or_infimum_or_supremum", "is_term_regular_of_first_kind", "is_term_regular_of_second_kind"):
        for name, t in sorted(sh.items()):
            v, b = ev(fx, fn, [t])
            got = bnf(resolve(v))
            want = reference_bool(fn, name)
            ctx.add("REG", "%s:%s" % (fn, name), got == want, ctx.site(b), "%s on a term of shape %s is  %s  (definition: %s)" % (fn, name, show_b(got), show_b(want)))
            n += 1
    ctx.floor("REG", "equations", n, 36)
    tv = set(fx.variants(A + "Term"))
    ctx.add("REG", "Term-variants", tv == {"PrecomputedTerm", "Variable", "UnaryOperation", "BinaryOperation"}, "src/syntax_tree/asp/mini_gringo.rs", "term constructors: %s" % sorted(tv))


def show_b(x):
    if isinstance(x, bool):
        return str(x).lower()
    if x[0] in ("and", "or"):
        return "(" + (" %s " % x[0]).join(sorted(show_b(i) for i in x[1])) + ")"
    if x[0] == "not":
        return "not " + show_b(x[1])
    if x[0] == "call":
        return "%s(%s)" % ({"is_term_regular_of_first_kind": "first", "contains_symbol_or_infimum_or_supremum": "sym", "is_term_regular_of_second_kind": "second"}.get(x[1], x[1]), ", ".join(rn(a) for a in x[2]))
    return repr(x)


# ------------------------------------------------------------------------------------------------ P2F

def opt_value(t):
    """(value with Some / ? stripped, set of `?`-propagated sub-computations, early-return conditions -> None)"""
    tries = set()
    nones = []

    def go(x):
        if not isinstance(x, tuple):
            return x
        if x and x[0] == "try":
            tries.add(x[1])
            return go(x[1])
        if x and x[0] == "ctor" and x[1] == "Option::Some":
            return go(dict(x[2])["0"])
        return tuple(go(i) for i in x)
    if t[0] == "returns":
        for conds, val in t[1][:-1]:
            if val == ("ctor", "Option::None", ()):
                nones.append(conds)
            else:
                nones.append(("other", conds, val))
        t = t[1][-1][1]
    return go(t), tries, nones


def rule_p2f(ctx):
    fx = ctx.facts
    sh = shapes(fx)
    IV = P("$iv")
    n = 0
    for name, t in sorted(sh.items()):
        # p2f
        v, b = ev(fx, "p2f", [t, IV])
        val, tries, nones = opt_value(resolve(v))
        guard = nones == [((("op", "Not", ("call", "natural::is_term_regular_of_first_kind", (t,))), True),)]
        ctx.add("P2F", "p2f:%s:guard" % name, guard, ctx.site(b), "p2f refuses (None) exactly when the term is not regular of the first kind, before anything else: %s" % (nones,))
        nf = ftpl.NF()
        kind, _, sub = name.partition(":")
        if kind == "Variable":
            want = ("if", ("call", "IndexSet::contains", (IV, ("place", "$v.0"))), var(("place", "$v.0"), "Integer"), var(("place", "$v.0"), "General"))
            got = ("if", nf.gen(val[1]), nf.term(val[2]), nf.term(val[3])) if val[0] == "if" else nf.term(val)
            ok = got == want
            what = "a variable is integer-sorted iff it is in int_vars, general otherwise"
        elif kind == "Precomputed":
            want = {"Infimum": ("inf",), "Supremum": ("sup",), "Numeral": ("num", P("$x")), "Symbol": ("sym", P("$x"))}.get(sub)
            got = nf.term(val)
            ok = want is not None and got == want
            what = "a precomputed term is itself"
        else:
            got = nf.gen(val)
            ok = val == ("call", "Option::map", (("call", "natural::p2f_int_term", (t,)), ("closure", ("x",), ("ctor", "GeneralTerm::IntegerTerm", (("0", ("param", "x")),)))))
            want = "p2f_int_term(t) as an integer term (None propagated by Option::map)"
            what = "an arithmetic term goes through p2f_int_term"
        ctx.add("P2F", "p2f:%s" % name, bool(ok), ctx.site(b), "%s: %s (expected %s)" % (what, rn(got) if not isinstance(got, str) else got, rn(want) if not isinstance(want, str) else want))
        # p2f_int_term
        v, b2 = ev(fx, "p2f_int_term", [t])
        val, tries, nones = opt_value(resolve(v))
        rec = lambda x: ("call", "natural::p2f_int_term", (P(x),))
        if kind == "Variable":
            want, wt = ("ctor", "IntegerTerm::Variable", (("0", ("place", "$v.0")),)), set()
        elif name == "Precomputed:Numeral":
            want, wt = ("ctor", "IntegerTerm::Numeral", (("0", P("$x")),)), set()
        elif kind == "Unary":
            want, wt = ("ctor", "IntegerTerm::UnaryOperation", (("arg", rec("$a")), ("op", ("ctor", "UnaryOperator::" + sub, ())))), {rec("$a")}
        elif kind == "Binary" and sub in ("Add", "Subtract", "Multiply"):
            want, wt = ("ctor", "IntegerTerm::BinaryOperation", (("lhs", rec("$l")), ("op", ("ctor", "BinaryOperator::" + sub, ())), ("rhs", rec("$r")))), {rec("$l"), rec("$r")}
        else:
            want, wt = ("ctor", "Option::None", ()), set()
        # an early `return None` inside the operator match shows up as a returns-condition
        if want == ("ctor", "Option::None", ()):
            ok = val == want or any(c == ("ctor", "Option::None", ()) or True for c in nones) and (val == want or bool(nones))
        else:
            g = ftpl.NF().gen
            ok = g(val) == g(want) and {g(x) for x in tries} == {g(x) for x in wt} and not nones
        ctx.add("P2F", "p2f_int_term:%s" % name, bool(ok), ctx.site(b2),
                "p2f_int_term on %s: %s; `?`-propagated: %s (definition: %s)" % (name, rn(ftpl.NF().gen(val)), sorted(rn(x) for x in tries), rn(want)))
        n += 2
    ctx.floor("P2F", "cases", n, 24)


def strip_into(t):
    return ftpl.NF().gen(t) if False else t


# ------------------------------------------------------------------------------------------------ INTVARS

def extends(t, conds=()):
    """every `extend` applied to the accumulated set, with the branch conditions it sits under"""
    out = []
    if not isinstance(t, tuple) or not t:
        return out
    if t[0] == "upd" and t[2] in ("extend", "insert"):
        out += extends(t[1], conds)
        out.append((conds, t[2], t[3]))
        return out
    if t[0] == "acc":
        return extends(t[1], conds)
    if t[0] == "phi":
        head = t[1]
        for label, v in t[2]:
            out += extends(v, conds + ((head, label),))
        return out
    return out


def rule_int_vars(ctx):
    """int_variables decided on its recorded effects: which variables are added to the result, in which loop, under which facts (match vs
    if-let, guards, helpers and iterator style do not matter)"""
    from .. import leaves
    fx = ctx.facts
    b = body_of(fx, "int_variables", NT) if False else fx.fn("natural::int_variables")
    from .. import comp
    comp.use(fx)
    R = ("param", "$r")
    def unref(t):
        # `boxed.as_ref()` / `&*boxed`: the same term
        if not isinstance(t, tuple):
            return t
        if isinstance(t, frozenset):
            return frozenset(unref(x) for x in t)
        t = tuple(unref(x) for x in t)
        if t[:1] == ("call",) and len(t) == 3 and isinstance(t[1], str) and t[1].split("::")[-1] in ("as_ref", "deref", "borrow") and len(t[2]) == 1:
            return t[2][0]
        return t
    v = unref(comp.canon(sym.Eval(fx, inline_depth=0).function(b, [R])))
    TERMS = ("call", "Rule::terms", (R,))
    TERM = ("at", TERMS)
    FORMS = ("fieldof", ("fieldof", R, "body"), "formulas")
    CMP = ("proj", ("at", FORMS), (("AtomicFormula::Comparison", "0"),))

    def names_of(outer, tests, src):
        """one loop over `outer`, and for its elements satisfying `tests` a loop over the variables of `src`, adding each one's name"""
        vs = ("call", "Term::variables", (src,))
        return ((outer, vs), ((frozenset(tests), ("fieldof", ("at", vs), "0")),))
    eq_rel = ("is", ("fieldof", CMP, "relation"), "Relation::Equal")      # `c.relation == Relation::Equal` or `matches!(c.relation, Relation::Equal)`
    second = ("cond", ("call", "natural::is_term_regular_of_second_kind", (("fieldof", CMP, "rhs"),)), True)
    ref = {
        "unary-operand": names_of(TERMS, [("is", TERM, "Term::UnaryOperation")], ("proj", TERM, (("Term::UnaryOperation", "arg"),))),
        "binary-left-operand": names_of(TERMS, [("is", TERM, "Term::BinaryOperation")], ("proj", TERM, (("Term::BinaryOperation", "lhs"),))),
        "binary-right-operand": names_of(TERMS, [("is", TERM, "Term::BinaryOperation")], ("proj", TERM, (("Term::BinaryOperation", "rhs"),))),
        "left-side-of-equal-interval": names_of(FORMS, [("is", ("at", FORMS), "AtomicFormula::Comparison"), eq_rel, second], ("fieldof", CMP, "lhs")),
    }
    # the result is a set used for membership only: the loops are compared as a set (which of them runs first does not matter)
    got = list(v[1]) if isinstance(v, tuple) and v[:1] == ("coll",) else []
    for label, want in ref.items():
        hits = [g for g in got if g[0] == want[0]]
        ctx.add("INTVARS", "source:%s" % label, hits == [want], ctx.site(b),
                "int_variables adds the variables of %s for every element of %s under exactly the facts %s (found: %s)" % (
                    rn(want[0][1][2][0]), rn(want[0][0]), sorted(map(str, want[1][0][0])), [sorted(map(str, a_[0])) for h in hits for a_ in h[1]] or "never"))
    extra = [g for g in got if g not in ref.values()]
    ctx.add("INTVARS", "no-other-source", bool(got) and not extra and len(got) == len(ref), ctx.site(b), "no other variables are made integer-sorted: %s" % [rn(x[0]) for x in extra],
            construct=v if not got else None)
    # Rule::terms covers every top-level term of the rule
    reach = collect.reachable_types(fx, {A + "Term"})
    collect.check_method(ctx, "COLLECT", fx, A + "Body", "terms", reach)
    rb = body_of(fx, "Rule::terms", A)
    recv = sorted(hq.render(c["recv"]) for c in walk(rb["body"]) if c.get("k") == "MethodCall" and c.get("method") == "terms")
    ins = [c for c in walk(rb["body"]) if c.get("k") == "MethodCall" and c.get("method") == "insert" and hq.render(c["recv"]) == "terms"]
    ext = [c for c in walk(rb["body"]) if c.get("k") == "MethodCall" and c.get("method") == "extend" and hq.render(c["recv"]) == "terms"]
    ctx.add("COLLECT", "Rule::terms", recv == ["self.body", "self.head"] and len(ins) == 1 and len(ext) == 1, ctx.site(rb),
            "Rule::terms inserts every head term and extends with the body's terms: receivers of .terms() = %s" % recv)
    tb = body_of(fx, "AtomicFormula::terms", A)
    tv, _ = reduce(sym.Eval(fx, inline_depth=0).function(tb)), None
    ks = key(tv)
    ctx.add("COLLECT", "AtomicFormula::terms", "'lhs'" in ks and "'rhs'" in ks and "atom" in ks and "terms" in ks, ctx.site(tb), "AtomicFormula::terms yields the atom's terms, and both sides of a comparison")
    hb = body_of(fx, "Head::terms", A)
    hv = sym.Eval(fx, inline_depth=0).function(hb)
    got = {a[0]: key(a[-1]) for a in hv[2]} if hv[0] == "match" else {}
    ctx.add("COLLECT", "Head::terms", all("terms" in got.get(k_, "") for k_ in ("Head::Basic(_)", "Head::Choice(_)")), ctx.site(hb), "Head::terms yields the atom's terms for basic and choice heads")


def simplify_conds(c):
    return c


def relevant(conds, src):
    """the condition class of one extend"""
    out = []
    for head, label in conds:
        if head[0] == "match" and label not in ("_",):
            out.append(("arm", label))
        elif head[0] == "if" and head[1][0] == "bin" and head[1][1] == "And" and label == "then":
            c = head[1]
            eq, sk = c[2], c[3]
            if eq[0] == "bin" and eq[1] == "Eq" and eq[3] == ("ctor", "Relation::Equal", ()) and key(eq[2]).endswith("'relation')") and sk[0] == "call" and sk[1] == "natural::is_term_regular_of_second_kind" and key(sk[2][0]).endswith("'rhs')"):
                out.append(("equal-interval",))
            else:
                out.append(("cond", head[1]))
        elif head[0] == "if" and head[1][0] == "iflet" and label == "then":
            continue
        elif label == "else":
            out.append(("else-of", head[1]))
    # the innermost condition decides (the set accumulated by the first loop is carried into the second loop's branches)
    for o in reversed(out):
        if o[0] in ("arm", "equal-interval"):
            return o
    return tuple(out)


# ------------------------------------------------------------------------------------------------ formula templates

def pushes(t, conds=()):
    out = []
    if not isinstance(t, tuple) or not t:
        return out
    if t[0] == "upd" and t[2] == "push":
        return pushes(t[1], conds) + [(conds, t[3][0])]
    if t[0] == "acc":
        return pushes(t[1], conds)
    if t[0] == "phi":
        for label, v in t[2]:
            out += pushes(v, conds + ((t[1], label),))
        return out
    return out


def P2F(x, iv=P("$iv")):
    return ("call", "natural::p2f", (x, iv))


def same_tpl(pattern, actual):
    return match(pattern, actual) is not None


def rule_templates(ctx):
    fx = ctx.facts
    IV = P("$iv")
    # relation map
    fb = [b for b in fx.body_list if b["name"] == "from" and b.get("impl", {}).get("self_ty") == S + "Relation" and "mini_gringo::Relation" in b.get("impl", {}).get("trait", "")]
    if len(fb) != 1:
        raise AnalysisGap("From<asp::Relation> for fol::Relation not found")
    fv = sym.Eval(fx, inline_depth=0).function(fb[0])
    m_ = {a[0].split("::")[-1]: (a[-1][1].split("::")[-1] if a[-1][0] == "ctor" else "?") for a in fv[2]} if fv[0] == "match" else {}
    ctx.add("TAB-MAP", "Relation", m_ == {r: r for r in fx.variants(A + "Relation")} and len(m_) == 6, ctx.site(fb[0]), "asp::Relation -> fol::Relation keeps every relation: %s" % m_)

    # comparison: decided per (relation, shape of the right side) on concrete nodes
    from .. import leaves
    b = body_of(fx, "natural_comparison", NT)
    BIN = C("Term::BinaryOperation", op=P("$op"), lhs=P("$a"), rhs=P("$b"))
    OTHER = C("Term::Variable", **{"0": P("$v")})
    split_ok, interval_ok, plain_ok, tries_all = True, True, True, set()
    detail = []
    n_int = n_plain = 0
    for rel in fx.variants(A + "Relation"):
        for rk, rhs in (("binary", BIN), ("other", OTHER)):
            e_ = sym.Eval(fx, inline_depth=1, inline=lambda dp: False)
            v = reduce(e_.function(b, [C("Comparison", relation=C("Relation::" + rel), lhs=P("$l"), rhs=rhs), IV]))
            second = ("cond", ("call", "natural::is_term_regular_of_second_kind", (rhs,)), True)
            if rk == "other":
                # a term that is no binary operation is not of the second kind: where the predicate itself says so on this shape, the test is
                # decided (a spelling that never asks it for such a term and one that asks and refuses are then the same)
                sk = reduce(sym.Eval(fx, inline_depth=0).function(body_of(fx, "is_term_regular_of_second_kind", NT), [rhs]))
                if sk == ("lit", False):
                    v = leaves.replace(v, {second[1]: ("lit", False)})
            got = {}
            for ts, x in leaves.leaves(leaves.lift(v)):
                ts = tuple(t for t in ts if not (t[0] == "is" and t[2] in ("Option::Some",)))
                if x not in got.setdefault(ts, []):
                    got[ts].append(x)
            for xs in got.values():
                for x in xs:
                    tries_all |= {t[1] for t in sym.subterms(x) if isinstance(t, tuple) and t[:1] == ("try",)}
            nf = ftpl.NF()
            L = ("term", nf.gen(P2F(P("$l"))))

            def formula_of(x):
                val, _, _ = opt_value(x)
                return nf.formula(val)
            if rel == "Equal" and rk == "other" and len(got) == 1 and () in got and len(got[()]) == 1:
                plain = got[()][0]      # the second-kind test is decided (False) on this shape: only the plain case is left
            elif rel == "Equal":
                yes, no = got.get((second,)), got.get((("cond", second[1], False),))
                if not (yes and no and len(yes) == 1 and len(no) == 1 and len(got) == 2):
                    split_ok = False
                    detail.append((rel, rk, [list(map(str, k_)) for k_ in got]))
                    continue
                if rk == "binary":
                    T2, T3 = ("term", nf.gen(P2F(P("$a")))), ("term", nf.gen(P2F(P("$b"))))
                    n_int += 1
                    if not same_tpl(AND(LE(T2, L), LE(L, T3)), formula_of(yes[0])):
                        interval_ok = False
                        detail.append((rel, rk, "interval", render(formula_of(yes[0]))))
                else:
                    if yes[0] != ("ctor", "Option::None", ()):
                        interval_ok = False
                        detail.append((rel, rk, "a non-interval right side of the second kind must refuse", sym.pretty(yes[0])[:80]))
                plain = no[0]
            else:
                if len(got) != 1 or () not in got or len(got[()]) != 1:
                    split_ok = False
                    detail.append((rel, rk, [list(map(str, k_)) for k_ in got]))
                    continue
                plain = got[()][0]
            n_plain += 1
            want_plain = C("Formula::AtomicFormula", **{"0": C("AtomicFormula::Comparison", **{"0": C("Comparison", term=P2F(P("$l")), guards=("list", (C("Guard", relation=C("Relation::" + rel), term=P2F(rhs)),)))})})
            if formula_of(plain) != nf.formula(want_plain):
                plain_ok = False
                detail.append((rel, rk, "plain", render(formula_of(plain)), render(nf.formula(want_plain))))
    ctx.add("TPL", "comparison:case-split", split_ok, ctx.site(b), "the interval case is taken iff the relation is = and the right side is regular of the second kind", construct=detail or None)
    ctx.add("TPL", "comparison:interval", split_ok and interval_ok and n_int >= 1, ctx.site(b), "t1 = t2..t3 becomes  t2 <= t1 <= t3 (a second-kind right side that is not a binary operation refuses)", construct=detail or None)
    ctx.add("TPL", "comparison:plain", split_ok and plain_ok and n_plain >= 6, ctx.site(b), "t1 rel t2 keeps its relation and both translated sides (%d cases)" % n_plain, construct=detail or None)
    want_tries = {P2F(P("$l")), P2F(BIN), P2F(OTHER), P2F(P("$a")), P2F(P("$b"))}
    ctx.add("FLOW-ERR", "comparison:propagation", tries_all == want_tries, ctx.site(b), "every p2f result is propagated with `?`: %s" % sorted(rn(x) for x in tries_all))
    # body atom / literal / body
    v, b = ev(fx, "natural_b_atom", [C("Atom", predicate_symbol=P("$p"), terms=P("$ts")), IV])
    val, tries, nones = opt_value(v)
    want = ("ctor", "Atom", (("predicate_symbol", P("$p")), ("terms", ("call", "Iterator::map", (P("$ts"), ("closure", ("t",), ("call", "natural::p2f", (("param", "t"), IV))))))))
    ctx.add("TPL", "b_atom", val == want and len(tries) == 1, ctx.site(b), "a body atom keeps its predicate and translates every term with p2f (a refused term refuses the atom)")
    for s, depth in (("NoSign", 0), ("Negation", 1), ("DoubleNegation", 2)):
        v, b = ev(fx, "natural_b_literal", [C("Literal", sign=C("Sign::" + s), atom=P("$a")), IV])
        val, tries, nones = opt_value(resolve(v))
        ATOM = ("call", "natural::natural_b_atom", (P("$a"), IV))
        want = ("ctor", "Formula::AtomicFormula", (("0", ("ctor", "AtomicFormula::Atom", (("0", ATOM),))),))
        for _ in range(depth):
            want = ("ctor", "Formula::UnaryFormula", (("connective", ("ctor", "UnaryConnective::Negation", ())), ("formula", want)))
        ctx.add("TPL", "b_literal:" + s, val == want and tries == {ATOM}, ctx.site(b), "%s literal: %d negation(s) around the translated atom" % (s, depth))
    ctx.add("TPL", "b_literal:signs", set(fx.variants(A + "Sign")) == {"NoSign", "Negation", "DoubleNegation"}, "src/syntax_tree/asp/mini_gringo.rs", "signs: %s" % fx.variants(A + "Sign"))
    from .. import comp
    comp.use(fx)
    v, b = ev(fx, "natural_body", [C("Body", formulas=P("$fs")), IV])
    FS = P("$fs")
    got_body = comp.canon(comp.exits_as_try(v))
    want_body = C("Option::Some", **{"0": ("call", "Formula::conjoin", (("coll", (((FS,), tuple(sorted([
        (frozenset({("is", ("at", FS), "AtomicFormula::Literal")}), ("try", ("call", "natural::natural_b_literal", (("proj", ("at", FS), (("AtomicFormula::Literal", "0"),)), IV)))),
        (frozenset({("is", ("at", FS), "AtomicFormula::Comparison")}), ("try", ("call", "natural::natural_comparison", (("proj", ("at", FS), (("AtomicFormula::Comparison", "0"),)), IV))))],
        key=comp.stable_key))),)),))})
    gotp, wantp, tries, nones = got_body, want_body, (1, 2), []
    ctx.add("TPL", "body", gotp == wantp and len(tries) == 2 and not nones, ctx.site(b), "the body is the conjunction of the translated literals and comparisons, each refusal propagated",
            construct=None if gotp == wantp else gotp)

    # head atom
    v, b = ev(fx, "natural_head_atom", [C("Atom", predicate_symbol=P("$p"), terms=P("$ts")), IV, P("$fresh")])
    val, tries, nones = opt_value(v)
    T = ("each", P("$ts"))
    FIRST = ("call", "natural::is_term_regular_of_first_kind", (T,))
    SECOND = ("call", "natural::is_term_regular_of_second_kind", (T,))
    NEXT = ("call", "Option::unwrap", (("call", "Iterator::next", (("acc", P("$fresh")),)),))
    atom = None
    for s_ in sym.subterms(val):
        if isinstance(s_, tuple) and s_ and s_[0] == "ctor" and s_[1] == "Atom":
            atom = dict(s_[2])
    okh = False
    if atom:
        ps = pushes(atom["terms"])
        want = [((( ("if", FIRST), "then"),), P2F(T)),
                (((("if", FIRST), "else"), (("if", SECOND), "then")), ("ctor", "GeneralTerm::IntegerTerm", (("0", ("ctor", "IntegerTerm::Variable", (("0", NEXT),))),)))]
        okh = ps == want and atom["predicate_symbol"] == P("$p")
    ctx.add("TPL", "head_atom", okh, ctx.site(b), "head atom: a term regular of the first kind is translated by p2f, a term of the second kind becomes the next fresh integer variable")
    ctx.add("TPL", "head_atom:refusal", nones == [((FIRST, False), (SECOND, False))], ctx.site(b), "a head term of neither kind refuses the rule (None): %s" % (nones,))
    # head interval
    v, b = ev(fx, "natural_head_interval", [C("Atom", predicate_symbol=P("$p"), terms=P("$ts")), IV, P("$fresh")])
    okc = v[0] == "call" and v[1] == "Formula::conjoin"
    ps = pushes(v[2][0]) if okc else []
    oki = False
    # the bounds t1, t2 of `t1..t2` are read off the term by a pattern that cannot fail on a term of the second kind (a `match` with a panicking
    # other arm, or `let Term::BinaryOperation{..} = t else { unreachable!() }`): that pattern is not a further condition on the push
    def core(conds):
        return tuple(c for c in conds if not (isinstance(c[0], tuple) and c[0][:1] == ("match",) and c[0][1] == T and str(c[1]).startswith("Term::BinaryOperation")))
    if len(ps) == 1 and core(ps[0][0]) == ((("if", SECOND), "then"),):
        nf = ftpl.NF()
        from .. import leaves as _lv
        f = nf.formula(resolve_expect(_lv.lift_proj(ps[0][1])))   # `(match t { B{lhs, rhs} => (lhs, rhs), _ => panic }).0` = `match t { B{lhs} => lhs, _ => panic }`
        Nv = var(nf.gen(NEXT), "Integer")

        def side(which, direct):
            bound = ("proj", T, (("Term::BinaryOperation", which),))
            if not direct:
                bound = ("match", T, (("Term::BinaryOperation{}", bound), ("_", ("panic", "unreachable"))))
            return ("term", nf.gen(("call", "Option::expect", (P2F(bound), M("msg" + which)))))
        bnd = match(AND(LE(side("lhs", False), Nv), LE(Nv, side("rhs", False))), f) or match(AND(LE(side("lhs", True), Nv), LE(Nv, side("rhs", True))), f)
        oki = bnd is not None
        ctx.add("TPL", "head_interval", oki, ctx.site(b), "for every head term t1..t2:  t1 <= N <= t2  with N the next fresh integer variable: %s" % render(f))
    else:
        ctx.add("TPL", "head_interval", False, ctx.site(b), "one comparison is pushed per head term of the second kind: %s" % (ps,))
    # the two sides consume the fresh variables in the same order as natural_head_atom: both iterate a.terms and draw on second-kind terms only
    ctx.add("TPL", "head:same-order", okh and oki, ctx.site(b), "natural_head_atom and natural_head_interval draw the fresh variables in the same order (one per second-kind term of a.terms)")

    # basic / choice head
    FR = ("call", "natural::fresh_variables_for_head_atom", (P("$a"),))
    HA = ("call", "natural::natural_head_atom", (P("$a"), IV, FR))
    HI = ("call", "natural::natural_head_interval", (P("$a"), IV, FR))
    for kind in ("basic", "choice"):
        v, b = ev(fx, "natural_%s_head" % kind, [P("$a"), IV])
        v = ftpl.canon_iter(lift_returns(v))
        nf = ftpl.NF()
        if v[0] != "returns" or len(v[1]) != 2:
            ctx.add("TPL", "%s_head" % kind, False, ctx.site(b), "expected: plain conclusion when no fresh variable is needed, quantified implication otherwise")
            continue
        (conds, early), (_, full) = v[1]
        ev_, t1, _ = opt_value(early)
        fv_, t2, _ = opt_value(full)
        concl = ("F", "natural::natural_head_atom", (nf.gen(P("$a")), nf.gen(IV), nf.gen(FR)))
        if kind == "choice":
            concl_p = ("or", (concl, NOT(concl)))
        else:
            concl_p = concl
        ok1 = len(conds) == 1 and conds[0][1] is True and conds[0][0][0] == "call" and conds[0][0][1].endswith("::is_empty") and conds[0][0][2] == (FR,) and \
            match(concl_p, nf.formula(ev_)) is not None
        f = nf.formula(fv_)
        qv = ("var", ("at", nf.gen(FR)), "Integer")
        ok2 = match(("Q", "Forall", (qv,), IMP(("F", "natural::natural_head_interval", (nf.gen(P("$a")), nf.gen(IV), nf.gen(FR))), concl_p)), f) is not None
        ctx.add("TPL", "%s_head" % kind, ok1 and ok2 and t1 == {HA} and t2 == {HA}, ctx.site(b),
                "%s head:  forall N..$i (intervals -> %s), or the bare conclusion when there is no interval; found %s" % (kind, "p(..) or not p(..)" if kind == "choice" else "p(..)", render(f)))
    # head dispatch
    hb = body_of(fx, "natural_head")
    for hk, want in (("Basic", ("call", "natural::natural_basic_head", (P("$a"), IV))), ("Choice", ("call", "natural::natural_choice_head", (P("$a"), IV))),
                     ("Falsity", ("ctor", "Option::Some", (("0", ("call", "natural::natural_constraint", ())),)))):
        arg = C("Head::" + hk, _0=P("$a")) if hk != "Falsity" else C("Head::Falsity")
        v, _ = ev(fx, "natural_head", [arg, IV])
        ctx.add("DISPATCH", "head:" + hk, resolve(v) == want, ctx.site(hb), "a %s head is translated by %s" % (hk, rn(want)))
    v, b = ev(fx, "natural_constraint", [])
    ctx.add("TPL", "constraint", ftpl.NF().formula(v) == ("false",), ctx.site(b), "the head of a constraint is #false")
    # rule
    v, b = ev(fx, "natural_rule", [P("$r")])
    val, tries, nones = opt_value(v)
    INTV = ("call", "natural::int_variables", (P("$r"),))
    BODY = ("call", "natural::natural_body", (("place", "$r.body"), INTV))
    HEAD = ("call", "natural::natural_head", (("place", "$r.head"), INTV))
    want = ("call", "Formula::universal_closure", (("ctor", "Formula::BinaryFormula", (("connective", ("ctor", "BinaryConnective::Implication", ())), ("lhs", BODY), ("rhs", HEAD))),))
    ctx.add("TPL", "rule", val == want and tries == {BODY, HEAD} and not nones, ctx.site(b),
            "a rule is the universal closure of  body -> head, both translated with the int_variables of this very rule, refusals propagated")
    ub = body_of(fx, "Formula::universal_closure", S)
    uv = reduce(sym.Eval(fx, inline_depth=0).function(ub, [P("$f")]))
    ctx.add("TPL", "universal_closure", uv[0] == "call" and uv[1] == "Formula::quantify" and uv[2][0] == P("$f") and uv[2][1] == ("ctor", "Quantifier::Forall", ()) and "Formula::free_variables" in key(uv[2][2]) and "$f" in key(uv[2][2]),
            ctx.site(ub), "universal_closure quantifies exactly the free variables of the formula, universally")
    check_conjoin(ctx)
    # program: all or nothing
    # through the public entry (`impl Natural for Program`), whether the work is done there or in a free function it calls
    b = fx.fn("natural", impl_self="syntax_tree::asp::mini_gringo::Program", impl_trait=NT + "Natural")
    v = reduce(sym.Eval(fx, inline_depth=2, inline=lambda dp: dp == NT + "natural").function(b, [P("$p")]))
    RULES_ = ("fieldof", P("$p"), "rules")
    got_prog = comp.canon(comp.exits_as_try(v))
    want_prog = C("Option::Some", **{"0": C("Theory", formulas=("coll", (((RULES_,), ((frozenset(), ("try", ("call", "natural::natural_rule", (("at", RULES_),)))),)),)))})
    okn = okp = got_prog == want_prog
    ctx.add("TPL", "program", bool(okn and okp), ctx.site(b), "natural(program) is the list of natural_rule results in order, and None as soon as one rule is refused")


def lift_returns(t):
    """constructor / call wrappers around a `returns` value are pushed into its branches: Some(returns(c -> x, else y)) = returns(c -> Some(x), else Some(y))"""
    if not isinstance(t, tuple) or not t:
        return t
    if t[0] == "returns":
        out = []
        for conds, v in t[1]:
            v2 = lift_returns(v)
            if isinstance(v2, tuple) and v2 and v2[0] == "returns":
                for c2, v3 in v2[1]:
                    out.append((tuple(conds if conds != ("fallthrough",) else ()) + tuple(c2 if c2 != ("fallthrough",) else ()) or ("fallthrough",), v3))
            else:
                out.append((conds, v2))
        return ("returns", tuple(out))
    if t[0] == "ctor" and len(t[2]) == 1:
        inner = lift_returns(t[2][0][1])
        if isinstance(inner, tuple) and inner and inner[0] == "returns":
            return ("returns", tuple((c, ("ctor", t[1], ((t[2][0][0], v),))) for c, v in inner[1]))
        return ("ctor", t[1], ((t[2][0][0], inner),))
    return t


def resolve_expect(t):
    return t


def rule_mu(ctx):
    fx = ctx.facts
    bs = [b for b in fx.body_list if b["name"] == "mu" and "formula_representation::mu::Mu" in b["def_path"] and b.get("impl", {}).get("self_ty", "").endswith("Program")]
    if len(bs) != 1:
        raise AnalysisGap("Mu::mu for Program not found")
    b = bs[0]
    v = reduce(sym.Eval(fx, inline_depth=0).function(b, [P("$self")]))
    R = ("each", ("place", "$self.rules"))
    NR = ("call", "natural::natural_rule", (R,))
    ok = v[0] == "ctor" and v[1] == "Theory"
    ps = pushes(dict(v[2])["formulas"]) if ok else []
    want = {("Option::Some(_)", ("proj", NR, (("Option::Some", "0"),))),
            ("Option::None", ("call", "tau_star::tau_star_rule", (R, ("call", "tau_star::choose_fresh_global_variables", (P("$self"),)))))}
    got = {(c[-1][1] if c else None, x) for c, x in ps}
    heads = {c[-1][0] if c else None for c, x in ps}
    ok_loop = got == want and heads == {("match", NR)}
    # the same as one expression: rules.map(|r| natural_rule(r).unwrap_or_else(|| tau_star_rule(r, &globals)))
    cv = ftpl.canon_closures(ftpl.canon_iter(v))
    el = ftpl._comp(dict(cv[2])["formulas"]) if ok and "formulas" in dict(cv[2]) else None
    RA = ("at", ("place", "$self.rules"))
    GL = ("call", "tau_star::choose_fresh_global_variables", (P("$self"),))
    ok_iter = el is not None and el[:2] == ("call", "Option::unwrap_or_else") and el[2][0] == ("call", "natural::natural_rule", (RA,)) and \
        el[2][1][0] == "closure" and el[2][1][2] == ("call", "tau_star::tau_star_rule", (RA, GL))
    ctx.add("MU", "fallback", ok_loop or ok_iter, ctx.site(b),
            "mu: for every rule, the natural formula when natural_rule accepts it, otherwise tau_star_rule of the same rule with the global variables chosen for the whole program")
    # mu cannot fail: no Option / Result in its signature
    ctx.add("MU", "total", "Option" not in b.get("ret_ty", "") and "Result" not in b.get("ret_ty", ""), ctx.site(b), "mu returns a theory unconditionally: %s" % b.get("ret_ty"))
    # Regularity::is_regular is natural().is_some()
    rb = [x for x in fx.body_list if x["name"] == "is_regular" and "regularity" in x["def_path"]]
    if len(rb) != 1:
        raise AnalysisGap("Regularity::is_regular not found")
    rv = reduce(sym.Eval(fx, inline_depth=0).function(rb[0], [P("$self")]))
    ctx.add("MU", "is_regular", rv == ("call", "Option::is_some", (("call", "Natural::natural", (P("$self"),)),)) or (rv[0] == "call" and rv[1] == "Option::is_some" and "natural" in key(rv[2][0]) and "$self" in key(rv[2][0])),
            ctx.site(rb[0]), "a program is reported regular iff the natural translation accepts it: %s" % rn(ftpl.NF().gen(rv)))


# ------------------------------------------------------------------------------------------------ fresh head variables, sort sites, error flow

def rule_fresh(ctx):
    fx = ctx.facts
    from .. import comp
    comp.use(fx)
    b = fx.fn("natural::fresh_variables_for_head_atom")
    A_ = P("$a")
    v = comp.canon(sym.Eval(fx, inline_depth=0).function(b, [A_]))
    TERMS = ("fieldof", A_, "terms")
    I_, T_ = ("idx", (TERMS,)), ("at", TERMS)
    TAKEN = ("call", "Atom::variables", (A_,))
    N1 = ("format", "N{}", (I_,))
    N2 = ("format", "N{}_0", (I_,))        # N<i>_<j> at j = 0 (a literal argument is folded into the text)
    needs = ("cond", ("call", "natural::is_term_regular_of_first_kind", (T_,)), False)

    def taken(n, pol):
        return ("cond", ("call", "IndexSet::contains", (TAKEN, ("ctor", "Variable", (("0", n),)))), pol)
    # one pass over the head terms (loop with push, or filter / map / collect, with or without a per-term helper): per term at most one name
    groups = v[1] if isinstance(v, tuple) and v[:1] == ("coll",) else ()
    searched = False
    if len(groups) == 1 and groups[0][0] == (TERMS,) and len(groups[0][1]) == 1:
        # the search written as `once(N<i>).chain((0..).map(|j| N<i>_<j>)).find(free).expect(..)`: the first free candidate of the sequence -
        # unfolded to its first two candidates, which is what one pass of the loop spelling shows
        ts0, e0 = groups[0][1][0]
        if isinstance(e0, tuple) and e0[:1] == ("call",) and e0[1] in ("Option::expect", "Option::unwrap") and isinstance(e0[2][0], tuple) and e0[2][0][:2] == ("call", "Iterator::find") \
                and isinstance(e0[2][0][2][0], tuple) and e0[2][0][2][0][:1] == ("coll",):
            cands, unbounded = [], False
            for src, al in e0[2][0][2][0][1]:
                if src == () and len(al) == 1 and not al[0][0]:
                    cands.append(al[0][1])
                elif len(src) == 1 and src[0] == ("ctor", "RangeFrom", (("start", ("lit", 0)),)) and len(al) == 1 and not al[0][0]:
                    from ..leaves import replace as _replace
                    cands.append(sym.anon_format(_replace(al[0][1], {("at", src[0]): ("lit", 0)})))
                    unbounded = True
                    break
                else:
                    cands = None
                    break
            if cands and unbounded:
                pred = e0[2][0][2][1]
                new_alts, before = [], list(ts0)
                for c_ in cands:
                    yes = comp._bool_tests(comp._app(pred, c_), True)
                    no = comp._bool_tests(comp._app(pred, c_), False)
                    if yes is False or no is False:
                        new_alts = None
                        break
                    new_alts.append((frozenset(before + yes), c_))
                    before = before + no
                if new_alts:
                    groups = ((groups[0][0], tuple(new_alts)),)
                    searched = True
    alts = {ts: e for ts, e in groups[0][1]} if len(groups) == 1 and groups[0][0] == (TERMS,) else {}
    if not (alts.get(frozenset({needs, taken(N1, False)})) == N1 and alts.get(frozenset({needs, taken(N1, True), taken(N2, False)})) == N2):
        # third spelling: the candidate is a mutable local that a `while taken.contains(candidate)` loop redraws -
        # `let mut c = N<i>; let mut j = 0; while taken(c) { c = N<i>_<j>; j += 1 } push(c)`: the first free name of N<i>, N<i>_0, N<i>_1, ..
        ws = _while_search(fx, b)
        if ws is not None:
            alts = {frozenset({needs, taken(N1, False)}): N1, frozenset({needs, taken(N1, True), taken(N2, False)}): N2}
            groups = (((TERMS,), tuple(alts.items())),)
            searched = True
    ctx.add("FRESH", "head:one-pass", len(groups) == 1 and groups[0][0] == (TERMS,) and len(alts) == len(groups[0][1]) == 2, ctx.site(b),
            "the fresh variables are collected in one pass over the head terms, in their order", construct=v if not alts else None)
    ok = alts.get(frozenset({needs, taken(N1, False)})) == N1
    ctx.add("FRESH", "head:N-i", ok, ctx.site(b), "N<i> is produced for every head term that is not regular of the first kind, and only when the head atom does not contain a variable of that name")
    ok2 = alts.get(frozenset({needs, taken(N1, True), taken(N2, False)})) == N2
    ctx.add("FRESH", "head:N-i-j", ok2, ctx.site(b), "otherwise N<i>_<j> is tried (from j = 0) and only handed out when the head atom does not contain it")
    # the j-loop increments until a free name is found
    loops = [n for n in walk(b["body"]) if n.get("k") == "Loop" and n.get("src") not in ("ForLoop", "While")]
    # the counter is the local the candidate name is formatted from (by role: it occurs in a format! inside the loop)
    fmt_src = " ".join(n["mac_src"] for lp in loops for n in walk(lp) if n.get("mac") == "format" and "mac_src" in n)
    incs = [n for lp in loops for n in walk(lp) if n.get("k") == "AssignOp" and re.search(r"\b%s\b" % re.escape(hq.render(n.get("l", n.get("lhs", {})))), fmt_src)]
    brk = [n for lp in loops for n in walk(lp) if n.get("k") in ("Break", "Ret")]
    ctx.add("FRESH", "head:j-loop", searched or (bool(loops) and bool(brk) and len(incs) >= 1), ctx.site(b),
            "the search over j is unbounded (a loop that increments j, or `find` over the candidates of `0..`) and stops at the first free name")
    # distinctness: names for different i differ (N<i> / N<i>_<j> contain i)
    ctx.add("FRESH", "head:distinct", ok and ok2 and all(e[0] == "format" and e[2][:1] == (I_,) for e in alts.values()), ctx.site(b),
            "every candidate name contains the index of its head term, so two head terms never share a variable")


def _while_search(fx, b):
    """recognise the while-spelling of the fresh-name search in fresh_variables_for_head_atom (all parts by role); None when it is not that"""
    from ..facts import local_id_of as lid
    loops = hq.for_loops(b["body"])
    if len(loops) != 1:
        return None
    _, iterable, pat, body = loops[0]
    if "terms" not in hq.render(iterable) or "enumerate" not in hq.render(iterable):
        return None
    binds = list(pat_bindings(pat)) if pat else []
    if len(binds) != 2:
        return None
    idx_id, term_id = binds[0]["id"], binds[1]["id"]
    lets = hq.let_by_id(b["body"])
    whiles = [n for n in walk(body) if n.get("k") == "Loop" and n.get("src") == "While"]
    if len(whiles) != 1:
        return None
    w = whiles[0]
    ifs = [n for n in walk(w) if n.get("k") == "If" and n.get("desugar") == "WhileLoop"]
    if len(ifs) != 1:
        return None
    cond = strip(ifs[0]["cond"])
    if not (cond.get("k") == "MethodCall" and cond.get("method") == "contains" and len(cond.get("args", [])) == 1):
        return None
    taken_id = lid(cond["recv"])
    t_init = lets.get(taken_id, {}).get("init")
    ti_ = strip(t_init) if isinstance(t_init, dict) else {}
    param_ids = {q_["id"] for q_ in b.get("params", []) if q_.get("p") == "Bind"}
    if not (ti_.get("k") == "MethodCall" and ti_.get("method") == "variables" and lid(ti_["recv"]) in param_ids):
        return None          # the taken names are the variables of the whole head atom
    cand_ids = {lid(n) for n in walk(cond["args"][0]) if n.get("k") == "Path" and n.get("res", {}).get("r") == "local"} - {None}
    if len(cand_ids) != 1 or "Variable" not in hq.render(cond["args"][0]):
        return None
    cid = cand_ids.pop()

    def fmt_of(e):
        ms = [n for n in walk(e) if n.get("mac") == "format" and "mac_src" in n]
        if len(ms) != 1:
            return None, set()
        tpl = hq.macro_template(ms[0]["mac_src"])
        ids_ = {lid(n) for n in walk(ms[0]) if n.get("k") == "Path" and n.get("res", {}).get("r") == "local"} - {None}
        ids_ &= {k_ for k_, v_ in lets.items() if v_.get("pat", {}).get("name") != "args"} | {idx_id, term_id}      # (format! binds `args` of its own)
        return re.sub(r"\{\w*\}", "{}", tpl or ""), ids_
    c_init = lets.get(cid, {}).get("init")
    t0, ids0 = fmt_of(c_init) if c_init is not None else (None, set())
    if t0 != "N{}" or ids0 != {idx_id}:
        return None
    then = ifs[0]["then"]
    stmts = [hq.stmt_expr(s_) for s_ in hq.stmts_of(then)] + ([then.get("expr")] if isinstance(then.get("expr"), dict) else [])
    stmts = [strip(x) for x in stmts if isinstance(x, dict)]
    assigns = [(i_, x) for i_, x in enumerate(stmts) if x.get("k") == "Assign" and lid(x["l"]) == cid]
    incs = [(i_, x) for i_, x in enumerate(stmts) if x.get("k") == "AssignOp" and x.get("op") in ("Add", "AddAssign") and strip(x["r"]).get("v") == 1]
    if len(assigns) != 1 or len(incs) != 1 or assigns[0][0] > incs[0][0]:
        return None
    jid = lid(incs[0][1]["l"])
    j_init = strip(lets.get(jid, {}).get("init", {}))
    t1, ids1 = fmt_of(assigns[0][1]["r"])
    if t1 != "N{}_{}" or ids1 != {idx_id, jid} or j_init.get("v") != 0:
        return None
    # the name is pushed after the loop, for terms that are not regular of the first kind only
    pushes = [n for n in walk(body) if n.get("k") == "MethodCall" and n.get("method") == "push" and lid(n["args"][0]) == cid]
    guards = [n for n in walk(body) if n.get("k") in ("Call", "MethodCall") and "is_term_regular_of_first_kind" in (callee_generic(n) or hq.render(n))
              and term_id in {lid(a_) for a_ in walk(n) if a_.get("k") == "Path"}]
    if len(pushes) != 1 or len(guards) != 1:
        return None
    order_ = {id(n): i_ for i_, n in enumerate(walk(body))}
    guarded = False
    for n in walk(body):
        if n.get("k") != "If" or not any(x is guards[0] for x in walk(n["cond"])):
            continue
        c_ = strip(n["cond"])
        negated = c_.get("k") == "Unary" and c_.get("op") == "Not"
        inside_then = any(x is pushes[0] for x in walk(n["then"]))
        if negated and inside_then:
            guarded = True          # `if !first_kind(term) { .. push .. }`
        if not negated and "else" not in n and any(x.get("k") == "Continue" for x in walk(n["then"])) and not inside_then \
                and order_.get(id(pushes[0]), -1) > order_.get(id(n), 10 ** 9):
            guarded = True          # `if first_kind(term) { continue }` .. push
    if not guarded:
        return None
    return True


def rule_sort_sites(ctx):
    fx = ctx.facts
    sites = {}
    for b in fx.body_list:
        if not b["def_path"].startswith(NT) or "::tests::" in b["def_path"]:
            continue
        for n in walk(b["body"]):
            c = None
            if n.get("k") == "Call":
                from ..facts import ctor_of
                cc = ctor_of(n)
                if cc and cc[0].endswith("IntegerTerm") and cc[1] == "Variable":
                    c = "IntegerTerm::Variable"
            if n.get("k") == "Path" and n.get("res", {}).get("r") == "ctor" and n["res"].get("adt", "").endswith("sigma_0::Sort") and n["res"].get("variant") == "Integer":
                c = "Sort::Integer"
            if c:
                sites.setdefault((b["def_path"][len(NT):].split("::{")[0], c), 0)
                sites[(b["def_path"][len(NT):].split("::{")[0], c)] += 1
    want = {("p2f", "IntegerTerm::Variable"): 1, ("p2f_int_term", "IntegerTerm::Variable"): 1, ("natural_head_atom", "IntegerTerm::Variable"): 1,
            ("natural_head_interval", "IntegerTerm::Variable"): 1, ("natural_basic_head", "Sort::Integer"): 1, ("natural_choice_head", "Sort::Integer"): 1}
    # per constructor kind: no more construction sites in natural.rs than the justified ones (a site that moved into a helper keeps the total)
    for kind in sorted({k_[1] for k_ in set(sites) | set(want)}):
        got = sum(v for k_, v in sites.items() if k_[1] == kind)
        just = sum(v for k_, v in want.items() if k_[1] == kind)
        where_ = sorted(k_[0] for k_ in sites if k_[1] == kind)
        ctx.add("SORT-SITES", "total:%s" % kind, got <= just, "src/translating/formula_representation/natural.rs",
                "%s is constructed at %d site(s) in natural.rs (%s); %d are justified (p2f under int_vars.contains, p2f_int_term inside arithmetic, the head-interval variables and their quantifier)" % (kind, got, where_, just))
    # p2f_int_term is only reachable for arithmetic terms: its callers
    callers = set()
    for b in fx.body_list:
        if "::tests::" in b["def_path"]:
            continue
        if hq.fn_refs(b["body"], NT + "p2f_int_term") or hq.calls(b["body"], NT + "p2f_int_term"):
            callers.add(b["def_path"][len(NT):] if b["def_path"].startswith(NT) else b["def_path"])
    ctx.add("SORT-SITES", "p2f_int_term:callers", {c.split("::")[0] for c in callers} == {"p2f", "p2f_int_term"}, "src/translating/formula_representation/natural.rs",
            "p2f_int_term (which makes every variable integer) is entered only from p2f's arithmetic arm and from itself: %s" % sorted(callers))
    # p2f callers all pass the rule's int_vars on
    pc = {}
    for b in fx.body_list:
        if "::tests::" in b["def_path"] or not b["def_path"].startswith(NT):
            continue
        # the caller's own integer-variable set is a parameter of type &IndexSet<String>: the last argument of p2f must be that parameter
        own = fx.bodies.get(b["def_path"].split("::{")[0], [b])[0]
        iv_params = {p_.get("name") for p_ in own.get("params", []) if p_.get("p") == "Bind" and "IndexSet<std::string::String>" in str(p_.get("ty", ""))}
        for c in hq.calls(b["body"], NT + "p2f"):
            args = c["args"]
            from ..facts import local_of as _lo
            nm = _lo(args[-1])
            pc.setdefault(b["def_path"][len(NT):].split("::{")[0], set()).add("int_vars" if (nm in iv_params and nm is not None) else hq.render(args[-1]))
    ctx.add("SORT-SITES", "p2f:int_vars-passed", bool(pc) and all(v == {"int_vars"} for v in pc.values()) and set(pc) == {"natural_comparison", "natural_b_atom", "natural_head_atom", "natural_head_interval"},
            "src/translating/formula_representation/natural.rs", "every p2f call hands on the caller's int_vars: %s" % {k_: sorted(v) for k_, v in pc.items()})


def is_tail(pm, n):
    """n is the value of the function body: only blocks (as tail), match arms and if branches above it"""
    cur = n
    while True:
        p_ = pm.get(id(cur))
        if p_ is None:
            return True
        k = p_.get("k")
        if k == "Block" and p_.get("expr") is cur:
            cur = p_
        elif k == "Match" and any(a is cur or a.get("body") is cur for a in p_.get("arms", [])) and not str(p_.get("src", "")).startswith("TryDesugar"):
            cur = p_
        elif k == "If" and (p_.get("then") is cur or p_.get("else") is cur):
            cur = p_
        elif k in ("DropTemps", "Use") and p_.get("e") is cur:
            cur = p_
        elif "k" not in p_ and p_.get("body") is cur:
            cur = p_
        else:
            return False


def _refusal_propagates(fx, b, tgt):
    """does the Option-returning function b answer None whenever its callee tgt does?  b is evaluated, every call of tgt is replaced by None,
    and every remaining outcome must be None (a `?` on None, a collect into Option of a None element, a match whose None arm returns None ..)"""
    from .. import comp, leaves
    comp.use(fx)
    NONE = ("ctor", "Option::None", ())
    args = [("param", "$%d" % i) for i in range(len(b.get("params", [])))]
    try:
        v = sym.Eval(fx, inline_depth=0).function(b, args)
    except Exception:
        return False
    name = flow_short(tgt)

    def canon_all(t):
        if isinstance(t, tuple) and t[:1] == ("returns",):
            return ("returns", tuple((tuple((comp.canon(c), pol) + tuple(rest) for c, pol, *rest in conds) if conds != ("fallthrough",) else conds, comp.canon(val)) for conds, val in t[1]))
        return comp.canon(t)
    try:
        t = canon_all(v)
    except Exception:
        return False
    calls = {x for x in sym.subterms(t) if isinstance(x, tuple) and x[:2] == ("call", name)}
    if not calls:
        return False
    t = leaves.replace(t, {c: NONE for c in calls})

    def push_try(x):
        # `collect::<Option<_>>()?`: a `?` on a collection of Options is a `?` on each element
        if not isinstance(x, tuple):
            return x
        if isinstance(x, frozenset):
            return x
        x = tuple(push_try(y) if isinstance(y, tuple) else y for y in x)
        if x[:1] == ("try",) and len(x) == 2 and isinstance(x[1], tuple) and x[1][:1] == ("coll",):
            return ("coll", tuple((src, tuple((ts, ("try", e)) for ts, e in alts)) for src, alts in x[1][1]))
        return x
    t = push_try(t)
    try:
        lv = leaves.leaves(comp.case_of_case(t))
    except Exception:
        return False
    if not lv:
        return False
    for ts, val in lv:
        whole = ("x", tuple(ts), val)
        if ("try", NONE) in set(y for y in sym.subterms(whole) if isinstance(y, tuple)):
            continue
        if val != NONE:
            return False
    return True


def flow_short(dp):
    from ..flow import short
    return short(dp)


def rule_flow_err(ctx):
    fx = ctx.facts
    opt_fns = {}
    for b in fx.body_list:
        if b["def_path"].startswith(NT) and "::tests::" not in b["def_path"] and b.get("ret_ty", "").startswith("std::option::Option"):
            opt_fns[b["def_path"]] = b
    n = 0
    allowed_other = {("natural_head_interval", "p2f"): "expect",  # dominated by is_term_regular_of_second_kind: both operands are regular of the first kind
                     ("natural", "natural_rule"): "match",
                     ("p2f", "p2f_int_term"): "map"}
    for b in fx.body_list:
        if "::tests::" in b["def_path"]:
            continue
        if not (b["def_path"].startswith(NT) or "formula_representation::mu" in b["def_path"] or "analyzing::regularity" in b["def_path"]):
            continue
        pm = hq.parent_map(b["body"])
        for c in walk(b["body"]):
            if c.get("k") not in ("Call", "MethodCall"):
                continue
            from ..facts import callee
            tgt = callee(c)
            if tgt not in opt_fns:
                continue
            n += 1
            caller = b["def_path"][len(NT):].split("::{")[0] if b["def_path"].startswith(NT) else b["def_path"]
            short = tgt[len(NT):]
            if hq.is_try_propagated(pm, c):
                how = "?"
            elif is_tail(pm, c):
                how = "returned"
            else:
                par = pm.get(id(c))
                how = "other"
                # climb through the closure / map / match that consumes the Option
                p_ = par
                seen = 0
                while p_ is not None and seen < 6:
                    if p_.get("k") == "MethodCall" and p_.get("method") in ("expect", "map", "is_some", "collect", "unwrap_or_else", "map_or_else"):
                        how = p_["method"]
                        break
                    if p_.get("k") == "Match" or p_.get("k") == "Let" or (p_.get("k") == "If"):
                        how = "match"
                        break
                    if p_.get("k") == "Closure":
                        how = "closure"
                        break
                    p_ = pm.get(id(p_))
                    seen += 1
            ok = how in ("?", "returned") or allowed_other.get((caller, short)) == how or (how == "closure" and caller == "natural_b_atom") or (how in ("match", "unwrap_or_else", "map_or_else") and "mu" in caller) or (how in ("is_some",) and "regularity" in caller)
            if not ok and b.get("ret_ty", "").startswith("std::option::Option") and _refusal_propagates(fx, b, tgt):
                # not one of the listed idioms, but decided on what the caller computes: with the callee answering None the caller answers None
                ok, how = True, "propagated"
            ctx.add("FLOW-ERR", "%s->%s:%s" % (caller, short, how), ok, ctx.site(b), "the Option of %s is consumed in %s by `%s`" % (short, caller, how))
    ctx.floor("FLOW-ERR", "option-call-sites", n, 6)
    # the expect sites: guarded by the second-kind test
    b = body_of(fx, "natural_head_interval")
    exps = [c for c in walk(b["body"]) if c.get("k") == "MethodCall" and c.get("method") == "expect"]
    pm = hq.parent_map(b["body"])
    guarded = 0
    for e in exps:
        p_ = pm.get(id(e))
        while p_ is not None:
            if p_.get("k") == "If" and "is_term_regular_of_second_kind" in hq.render(p_["cond"]):
                guarded += 1
                break
            p_ = pm.get(id(p_))
    ctx.add("FLOW-ERR", "head_interval:expect-guarded", len(exps) == 2 and guarded == 2, ctx.site(b), "both `expect`s on p2f in natural_head_interval sit under `if is_term_regular_of_second_kind(t)` (whose operands are regular of the first kind, so p2f accepts them)")


def rule_printed_as_read(ctx):
    """natural / mu build nested integer terms (tau* does not): what the user reads is the default printer's text, which must keep the
    parentheses the grammar needs (C15's precedence and dispatch obligations)"""
    from . import c15
    sub = type(ctx)(ctx.prop, ctx.tier, ctx.facts)
    c15.rule_precedence(sub)
    c15.rule_dispatch(sub)
    ctx.obls.extend(o for o in sub.obls if o["key"].startswith("PRN-P:"))


RULES = [rule_regularity, rule_p2f, rule_int_vars, rule_templates, rule_mu, rule_fresh, rule_sort_sites, rule_flow_err, rule_printed_as_read]
