"""C04 — completion of a tight program's theory has exactly its stable models."""
from ..facts import AnalysisGap
from .. import hq, sym
from . import c11

EXPLANATION = (
    "TPL: the completion pipeline (completion, components, split, split_implication, heads, has_head_mismatches, atomic_formula_from) is evaluated "
    "to terms and compared with Clark completion with inputs as defined in Fandinno-Hansen-Lierler-Lifschitz-Temple 2023, App. B: constraints are "
    "kept under universal closure; a predicate of the theory without rule gets the empty definition (#false through disjoin of no bodies); "
    "definitions of input predicates are dropped; each remaining head p(V) gets forall V (p(V) <-> or_i exists U_i F_i) with U_i = free(F_i) - V. "
    "Refusals: a formula with free variables, a head that is not an atom / #false, a head argument that is not a variable (of any sort), repeated "
    "head variables, two partial definitions of one predicate with different head atoms - each exists, is guarded by its test and precedes every "
    "acceptance. Bodies of one head are collected in order (entry API). The tightness gate (is_tight, positive_predicates) is re-used from C11.")
UNDECIDED = ["that Clark completion characterises the stable models of tight programs (Fages; Erdem-Lifschitz; the cited paper) - literature",
             "sort-compatibility of differently sorted head variables across partial definitions beyond syntactic equality of the head atoms"]
ASSUMPTIONS = ["tau* output (C01) is closed and uses program-wide head variables", "Formula::free_variables / quantify / universal_closure behave as their names say (C17 collectors)"]

TH = ("param", "theory")
COMP = ("try", ("call", "completion::components", (TH,)))


def P(b, *path):
    return ("proj", b, tuple(path))


DEF0, CONS = P(COMP, ("tuple", "0")), P(COMP, ("tuple", "1"))
KEYS = ("each", ("call", "IndexMap::keys", (DEF0,)))
NEWSET = ("call", "IndexSet::new", ())
EXPL = ("phi", ("if", ("iflet", "AtomicFormula::Atom(_)", KEYS)),
        (("then", ("upd", ("acc", NEWSET), "insert", (("call", "Atom::predicate", (P(KEYS, ("AtomicFormula::Atom", "0")),)),))), ("else", ("acc", NEWSET))))
DEFS = ("upd", ("acc", DEF0), "insert", (("call", "completion::atomic_formula_from", (("each", ("call", "IndexSet::difference", (("call", "Theory::predicates", (TH,)), EXPL))),)),
                                          ("call", "Vec::new", ())))
ITEM = ("each", DEFS)
HEAD, BODY = P(ITEM, ("tuple", "0")), P(ITEM, ("tuple", "1"))
NEWMAP = ("call", "IndexMap::new", ())
FINAL = ("phi", ("if", ("iflet", "AtomicFormula::Atom(_)", HEAD)), (
    ("then", ("phi", ("if", ("op", "Not", ("call", "IndexSet::contains", (("param", "inputs"), ("call", "Atom::predicate", (P(HEAD, ("AtomicFormula::Atom", "0")),)))))),
              (("then", ("upd", ("acc", NEWMAP), "insert", (HEAD, BODY))), ("else", ("acc", NEWMAP))))),
    ("else", ("acc", NEWMAP))))
G, A, FI = ("param", "g"), ("param", "a"), ("param", "f_i")
VG = ("call", "AtomicFormula::variables", (G,))
COMPLETED_CL = ("closure", ("g/a",), ("call", "Formula::quantify", (
    ("ctor", "Formula::BinaryFormula", (("connective", ("ctor", "BinaryConnective::Equivalence", ())), ("lhs", ("ctor", "Formula::AtomicFormula", (("0", G),))),
                                         ("rhs", ("call", "Formula::disjoin", (("call", "Iterator::map", (A, ("closure", ("f_i",), ("call", "Formula::quantify", (
                                             FI, ("ctor", "Quantifier::Exists", ()), ("call", "IndexSet::difference", (("call", "Formula::free_variables", (FI,)), VG))))))),))))),
    ("ctor", "Quantifier::Forall", ()), VG)))
RESULT = ("ctor", "Option::Some", (("0", ("ctor", "Theory", (("formulas", ("upd", ("call", "Iterator::map", (CONS, ("fn", "Formula::universal_closure"))), "extend",
                                                                           (("call", "Iterator::map", (FINAL, COMPLETED_CL)),))),))),))
REF_COMPLETION = ("returns", ((((("call", "completion::has_head_mismatches", (DEFS,)), True),), ("ctor", "Option::None", ())), (("fallthrough",), RESULT)))


def rule_completion(ctx):
    fx = ctx.facts
    b = fx.fn("completion::completion")
    site = ctx.site(b)
    v = sym.Eval(fx, inline_depth=0).function(b)
    same = v == REF_COMPLETION
    ctx.add("TPL", "completion:whole", same, site, "completion() evaluates to the reference term (App. B of the cited paper)" if same else
            "completion() differs from the reference; see the piece-wise obligations", construct=None if same else sym.pretty(v, width=200)[:1500])
    r = repr(v)
    pieces = {
        "explicit-predicates": (EXPL, "explicit predicates = predicates of the atoms that head a partial definition"),
        "empty-definitions": (DEFS, "every predicate of the theory without a partial definition gets an empty definition p(V1..Vn) <- (no bodies)"),
        "inputs-dropped": (FINAL, "definitions whose head predicate is an input are dropped, all others kept"),
        "completed-definition": (COMPLETED_CL, "forall V (p(V) <-> or_i exists (free(F_i) - V) F_i) with V the variables of the head atom"),
        "constraints-closed": (("call", "Iterator::map", (CONS, ("fn", "Formula::universal_closure"))), "constraints are kept under universal closure"),
        "mismatch-refused": ((("call", "completion::has_head_mismatches", (DEFS,)), True), "head mismatches are tested on the full definition table (incl. the empty ones) before anything is built"),
    }
    for k, (t, text) in pieces.items():
        ctx.add("TPL", "completion:" + k, repr(t) in r, site, text)
    dj = fx.fn("sigma_0::Formula::disjoin")
    vd = sym.Eval(fx, inline_depth=0).function(dj)
    ok = vd[:2] == ("call", "Option::unwrap_or") and vd[2][1] == ("ctor", "Formula::AtomicFormula", (("0", ("ctor", "AtomicFormula::Falsity", ())),)) and "BinaryConnective::Disjunction" in repr(vd) and "Iterator::reduce" in repr(vd)
    ctx.add("TPL", "disjoin", ok, ctx.site(dj), "disjoin of no formulas is #false, otherwise a left-nested disjunction", construct=vd)
    q = fx.fn("sigma_0::Formula::quantify")
    vq = sym.Eval(fx, inline_depth=0).function(q)
    refq = ("if", ("call", "Vec::is_empty", (("param", "variables"),)), ("param", "self"),
            ("ctor", "Formula::QuantifiedFormula", (("formula", ("param", "self")), ("quantification", ("ctor", "Quantification", (("quantifier", ("param", "quantifier")), ("variables", ("param", "variables"))))))))
    ctx.add("TPL", "quantify", vq == refq, ctx.site(q), "quantify adds no quantifier for an empty variable list, else Q V self", construct=vq)
    uc = fx.fn("sigma_0::Formula::universal_closure")
    vu = sym.Eval(fx, inline_depth=0).function(uc)
    ctx.add("TPL", "universal_closure", vu == ("call", "Formula::quantify", (("param", "self"), ("ctor", "Quantifier::Forall", ()), ("call", "Formula::free_variables", (("param", "self"),)))),
            ctx.site(uc), "universal_closure = forall free(self) self", construct=vu)
    af = fx.fn("completion::atomic_formula_from")
    va = sym.Eval(fx, inline_depth=0).function(af)
    ok = va[:2] == ("ctor", "AtomicFormula::Atom") and dict(va[2][0][1][2]).get("predicate_symbol") == ("place", "predicate.symbol") and "('place', 'predicate.arity')" in repr(va) \
        and "tau_star::choose_fresh_variable_names" in repr(va) and "GeneralTerm::Variable" in repr(va)
    ctx.add("TPL", "empty-head", ok, ctx.site(af), "the head of an empty definition is p(V1..Vn): n = arity distinct general variables (closed context: the atom has no other variable)", construct=va)


S = ("call", "Unbox::unbox", (("param", "formula"),))
UB = "UnboxedFormula::BinaryFormula"


def rule_split(ctx):
    fx = ctx.facts
    sp = fx.fn("completion::split")
    v = sym.Eval(fx, inline_depth=0).function(sp)
    F = ("param", "formula")
    ref = ("returns", ((((("op", "Not", ("call", "IndexSet::is_empty", (("call", "Formula::free_variables", (F,)),))), True),), ("ctor", "Option::None", ())),
                       (("fallthrough",), ("match", F, (
                           ("Formula::QuantifiedFormula{quantification: Quantification{quantifier: Quantifier::Forall}}", ("call", "completion::split_implication", (("proj", F, (("Formula::QuantifiedFormula", "formula"),)),))),
                           ("_", ("call", "completion::split_implication", (F,))))))))
    ctx.add("TPL", "split", v == ref, ctx.site(sp), "a formula with free variables is refused first; one universal prefix is stripped; the rest goes to split_implication", construct=v)
    si = fx.fn("completion::split_implication")
    v = sym.Eval(fx, inline_depth=0).function(si)
    site = ctx.site(si)
    ok = v[0] == "match" and v[1] == S
    arms = {a[0]: a[-1] for a in v[2]} if ok else {}
    key = "UnboxedFormula::BinaryFormula{connective: BinaryConnective::Implication} | UnboxedFormula::BinaryFormula{connective: BinaryConnective::ReverseImplication}"
    none = ("ctor", "Option::None", ())
    ctx.add("TPL", "split:only-implications", set(arms) == {key, "_"} and arms.get("_") == none, site, "only F -> G and G <- F are split; everything else is refused")
    inner = arms.get(key)
    # head = rhs of ->, lhs of <-; body the other side
    Ghead = ("orbind", ((UB + "{connective: BinaryConnective::Implication}", ("proj", S, ((UB, "rhs"),))), (UB + "{connective: BinaryConnective::ReverseImplication}", ("proj", S, ((UB, "lhs"),)))))
    Fbody = ("orbind", ((UB + "{connective: BinaryConnective::Implication}", ("proj", S, ((UB, "lhs"),))), (UB + "{connective: BinaryConnective::ReverseImplication}", ("proj", S, ((UB, "rhs"),)))))
    ok = inner is not None and inner[0] == "match" and inner[1] == Ghead
    ctx.add("TPL", "split:head-side", ok, site, "the head is the consequent of -> and the left side of <-", construct=inner[1] if inner else None)
    ia = {a[0]: a[-1] for a in inner[2]} if ok else {}
    ctx.add("TPL", "split:constraint", ia.get("Formula::AtomicFormula(AtomicFormula::Falsity)") == ("ctor", "Option::Some", (("0", ("ctor", "Component::Constraint", (("0", ("param", "formula")),))),)),
            site, "head #false: the whole formula is a constraint")
    ctx.add("TPL", "split:other-heads-refused", ia.get("_") == none and set(ia) == {"Formula::AtomicFormula(AtomicFormula::Falsity)", "Formula::AtomicFormula(AtomicFormula::Atom(_))", "_"}, site,
            "any head that is neither an atom nor #false is refused")
    at = ia.get("Formula::AtomicFormula(AtomicFormula::Atom(_))")
    ATOM = ("proj", Ghead, (("Formula::AtomicFormula", "0"), ("AtomicFormula::Atom", "0")))

    def var(ctor_path, sort):
        return ("ctor", "Option::Some", (("0", ("ctor", "Variable", (("name", ("proj", ("param", "t"), ctor_path)), ("sort", ("ctor", "Sort::" + sort, ()))))),))

    VMAP = ("call", "Iterator::map", (("fieldof", ATOM, "terms"), ("closure", ("t",), ("match", ("param", "t"), (
        ("GeneralTerm::Variable(_)", var((("GeneralTerm::Variable", "0"),), "General")),
        ("GeneralTerm::IntegerTerm(IntegerTerm::Variable(_))", var((("GeneralTerm::IntegerTerm", "0"), ("IntegerTerm::Variable", "0")), "Integer")),
        ("GeneralTerm::SymbolicTerm(SymbolicTerm::Variable(_))", var((("GeneralTerm::SymbolicTerm", "0"), ("SymbolicTerm::Variable", "0")), "Symbol")),
        ("_", none))))))
    refat = ("if", ("bin", "BitOr", ("call", "Itertools::contains", (VMAP, none)), ("op", "Not", ("call", "Itertools::all_unique", (VMAP,)))), none,
             ("ctor", "Option::Some", (("0", ("ctor", "Component::PartialDefinition", (("a", ("ctor", "AtomicFormula::Atom", (("0", ATOM),))), ("f", Fbody)))),)))
    ctx.add("TPL", "split:definition", at == refat, site,
            "head atom: refused if an argument is not a variable or a variable repeats (name and sort); otherwise partial definition (head atom, body = the other side)", construct=at)
    # components / heads / mismatch
    co = fx.fn("completion::components")
    v = sym.Eval(fx, inline_depth=0).function(co)
    SPL = ("try", ("call", "completion::split", (("each", ("place", "theory.formulas")),)))
    r = repr(v)
    okc = v[:2] == ("ctor", "Option::Some") and repr(("upd", ("acc", ("call", "Vec::new", ())), "push", (("proj", SPL, (("Component::Constraint", "0"),)),))) in r \
        and repr(("proj", SPL, (("Component::PartialDefinition", "a"),))) in r and "'entry'" in r and "OccupiedEntry::get_mut" in r and "VacantEntry::insert" in r \
        and r.count(repr(("proj", SPL, (("Component::PartialDefinition", "f"),)))) == 2
    ctx.add("TPL", "components", okc, ctx.site(co), "every formula is split (`?` propagates a refusal); constraints are collected; bodies are grouped per head atom, appended in order", construct=v)
    hm = fx.fn("completion::has_head_mismatches")
    v = sym.Eval(fx, inline_depth=0).function(hm)
    ref = ("returns", ((((("op", "Not", ("call", "Itertools::all_equal", (("proj", ("each", ("call", "completion::heads", (("param", "definitions"),))), (("tuple", "1"),)),))), True),), ("lit", True)),
                       (("fallthrough",), ("lit", False))))
    ctx.add("TPL", "head-mismatch", v == ref, ctx.site(hm), "mismatch iff for some predicate the head atoms of its partial definitions are not all equal", construct=v)
    hd = fx.fn("completion::heads")
    v = sym.Eval(fx, inline_depth=0).function(hd)
    r = repr(v)
    ctx.add("TPL", "heads-by-predicate", "'entry'" in r and "Atom::predicate" in r and "IndexMap::keys" in r, ctx.site(hd), "head atoms are grouped by (symbol, arity)")
    # the CLI and the task call completion and propagate refusal
    n = 0
    for body in fx.body_list:
        for c in hq.calls(body["body"], "Completion::completion"):
            n += 1
    ctx.floor("TPL", "completion_call_sites", n, 2)


def rule_tightness(ctx):
    # the tightness gate of the property: same obligations as C11's GRAPH rules for is_tight / positive_predicates
    sub = type(ctx)(ctx.prop, ctx.tier, ctx.facts)
    c11.rule_graphs(sub)
    for o in sub.obls:
        if o["key"].startswith(("GRAPH:tight", "GRAPH:positive", "GRAPH:body-positive")):
            ctx.obls.append(o)


RULES = [rule_completion, rule_split, rule_tightness]
