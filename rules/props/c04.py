"""C04 — completion of a tight program's theory has exactly its stable models."""
from ..facts import AnalysisGap
from .. import collect, comp, hq, leaves, sym
from . import c11
from .c01 import C

EXPLANATION = (
    "TPL: the completion pipeline (completion, components, split, split_implication, heads, has_head_mismatches, atomic_formula_from) is evaluated "
    "symbolically and compared with Clark completion with inputs as defined in Fandinno-Hansen-Lierler-Lifschitz-Temple 2023, App. B.  The "
    "comparison is on meaning, not spelling: collections are brought to comprehension form (rules/comp.py: a loop with push / insert, an iterator "
    "chain with filter / map / filter_map / chain and an extracted helper are one list of (source, conditions, element) segments; the entry-API "
    "match and `entry().or_default().push()` are one bucket update), split / split_implication are evaluated once per input shape (every Formula "
    "constructor, every connective, every kind of head) and their outcomes compared as decision tables over the atomic conditions "
    "(rules/leaves.py same_decision).  What is compared: constraints are "
    "kept under universal closure; a predicate of the theory without rule gets the empty definition (#false through disjoin of no bodies); "
    "definitions of input predicates are dropped; each remaining head p(V) gets forall V (p(V) <-> or_i exists U_i F_i) with U_i = free(F_i) - V. "
    "Refusals: a formula with free variables, a head that is not an atom / #false, a head argument that is not a variable (of any sort), repeated "
    "head variables, two partial definitions of one predicate with different head atoms - each exists, is guarded by its test and precedes every "
    "acceptance. Bodies of one head are collected in order (entry API). The tightness gate (is_tight, positive_predicates) is re-used from C11.")
UNDECIDED = ["that Clark completion characterises the stable models of tight programs (Fages; Erdem-Lifschitz; the cited paper) - literature",
             "sort-compatibility of differently sorted head variables across partial definitions beyond syntactic equality of the head atoms"]
ASSUMPTIONS = ["tau* output (C01) is closed and uses program-wide head variables", "Formula::free_variables / quantify / universal_closure behave as their names say (C17 collectors)"]

def P(b, *path):
    return ("proj", b, tuple(path))


def call(name, *args):
    return ("call", name, tuple(args))


def at(s):
    return ("at", s)


def seg(src, tests, elem):
    """one loop over src adding elem under the tests"""
    return ((src,), ((frozenset(tests), elem),))


def coll(*segs):
    return ("coll", tuple(segs))


TH, INP = ("param", "$theory"), ("param", "$inputs")
NONE = C("Option::None")
COMP = ("try", call("completion::components", TH))
D0, C0 = P(COMP, ("tuple", "0")), P(COMP, ("tuple", "1"))
HEAD0, BODY0, ATOM0 = P(at(D0), ("tuple", "0")), P(at(D0), ("tuple", "1")), P(at(D0), ("tuple", "0"), ("AtomicFormula::Atom", "0"))
EXPL = coll(seg(D0, [("is", HEAD0, "AtomicFormula::Atom")], call("Atom::predicate", ATOM0)))
DIFF = call("IndexSet::difference", call("Theory::predicates", TH), EXPL)
NEWHEAD = call("completion::atomic_formula_from", at(DIFF))
DEFS = coll(seg(D0, [], at(D0)), seg(DIFF, [], ("list", (NEWHEAD, call("Vec::new")))))
MISMATCH = call("completion::has_head_mismatches", DEFS)


def completed(g, bodies):
    return call("Formula::quantify", C("Formula::BinaryFormula", connective=C("BinaryConnective::Equivalence"), lhs=C("Formula::AtomicFormula", **{"0": g}),
                                       rhs=call("Formula::disjoin", bodies)), C("Quantifier::Forall"), call("AtomicFormula::variables", g))


def kept(head, atom):
    return [("is", head, "AtomicFormula::Atom"), ("cond", call("IndexSet::contains", INP, call("Atom::predicate", atom)), False)]


CLOSED_BODIES = coll(seg(BODY0, [], call("Formula::quantify", at(BODY0), C("Quantifier::Exists"),
                                         call("IndexSet::difference", call("Formula::free_variables", at(BODY0)), call("AtomicFormula::variables", HEAD0)))))
SEG_CONSTRAINTS = seg(C0, [], call("Formula::universal_closure", at(C0)))
SEG_DEFINED = seg(D0, kept(HEAD0, ATOM0), completed(HEAD0, CLOSED_BODIES))
SEG_UNDEFINED = seg(DIFF, kept(NEWHEAD, P(NEWHEAD, ("AtomicFormula::Atom", "0"))), completed(NEWHEAD, coll()))
RESULT = C("Option::Some", **{"0": C("Theory", formulas=coll(SEG_CONSTRAINTS, SEG_DEFINED, SEG_UNDEFINED))})
REF_COMPLETION = [((("cond", MISMATCH, True),), NONE), ((("cond", MISMATCH, False),), RESULT)]


def canon_leaves(v, lift=True):
    """decision leaves of a function's value, every term in canonical (comprehension) form"""
    out = []
    for ts, val in leaves.leaves(comp.case_of_case(leaves.lift(v)) if lift else v):
        out.append((tuple(canon_test(t) for t in ts), comp.canon(val)))
    return out


def expand_try(lv, none=None):
    """`x?` in a function returning Option: when x is None the function returns None there and then; otherwise the value is x's content.
    Leaves that use ('try', X) get the fact `X is Some` and read the content; one more leaf says that X being None gives None.  (Only for
    tries every leaf depends on - a try after an earlier exit shows up as an ambiguous table entry and fails closed.)"""
    none = none if none is not None else C("Option::None")
    tries = []
    for ts, val in lv:
        for x in sym.subterms(("x", tuple(ts), val)):
            if isinstance(x, tuple) and len(x) == 2 and x[0] == "try" and isinstance(x[1], tuple) and x[1][:1] == ("coll",) and x not in tries:
                tries.append(x)
    if not tries:
        return lv
    out = []
    for ts, val in lv:
        used = [x for x in tries if x in list(sym.subterms(("x", tuple(ts), val)))]
        m = {x: ("proj", x[1], (("Option::Some", "0"),)) for x in used}
        out.append((tuple(("is", x[1], "Option::Some") for x in used) + tuple(leaves.replace(t, m) for t in ts), leaves.replace(val, m)))
    for x in tries:
        out.append(((("not", (("is", x[1], "Option::Some"),)),), none))
    return out


def canon_test(t):
    if t[0] == "cond":
        return ("cond", comp.canon(t[1]), t[2])
    if t[0] == "survived":
        return canon_test(t[1])
    if t[0] == "not":
        return ("not", tuple(canon_test(u) for u in t[1]))
    if t[0] == "or":
        return ("or", tuple(tuple(canon_test(u) for u in alt) for alt in t[1]))
    if t[0] in ("is", "eq"):
        return (t[0], comp.canon(t[1]), t[2])
    return t


def _decide(t):
    """truth of a fact about a literal constructor: True / False, None when it cannot be told"""
    if t[0] == "is":
        s_ = leaves.norm(t[1])
        if isinstance(s_, tuple) and s_[:1] == ("ctor",):
            return s_[1] == t[2]
        return None
    if t[0] == "not":
        rs = [_decide(u) for u in t[1]]
        if any(r is False for r in rs):
            return True
        if all(r is True for r in rs):
            return False
        return None
    if t[0] == "or":
        rs = [[_decide(u) for u in alt] for alt in t[1]]
        if any(all(r is True for r in alt) for alt in rs):
            return True
        if all(any(r is False for r in alt) for alt in rs):
            return False
        return None
    return None


def find(t, pred):
    return [x for x in sym.subterms(t) if pred(x)]


def rule_completion(ctx):
    fx = ctx.facts
    comp.use(fx)
    b = fx.fn("completion::completion")
    site = ctx.site(b)
    v = sym.Eval(fx, inline_depth=0).function(b, [TH, INP])
    try:
        lv = canon_leaves(v, lift=False)     # the exits of completion() are plain early returns; its accumulators must stay whole
        same, wit = leaves.same_decision(lv, REF_COMPLETION)
    except (OverflowError, comp.NotAComprehension) as e:
        raise AnalysisGap("completion(): %s" % e)
    ctx.add("TPL", "completion:whole", same, site, "completion() computes the reference (App. B of the cited paper): refusal on head mismatches, else constraints under universal closure, then the "
            "completed definitions of the non-input predicates with a rule, then of those without" if same else "completion() differs from the reference; see the piece-wise obligations",
            construct=None if same else sym.pretty(wit, width=200)[:1500])
    # the pieces, for a report that says which part changed
    mm = find(("x", tuple(t for ts, _ in lv for t in ts)), lambda x: isinstance(x, tuple) and x[:2] == ("call", "completion::has_head_mismatches") and len(x) == 3)
    table = mm[0][2][0] if mm and len(mm[0][2]) == 1 else None
    refused = [val for ts, val in lv if any(t[0] == "cond" and t[2] is True and t[1][:2] == ("call", "completion::has_head_mismatches") for t in ts)]
    ctx.add("TPL", "completion:mismatch-refused", len(set(map(repr, mm))) == 1 and refused == [NONE] and all(any(t[0] == "cond" and t[1] == mm[0] for t in ts) for ts, _ in lv), site,
            "head mismatches are tested before anything is built, and refuse")
    ctx.add("TPL", "completion:mismatch-table", table == DEFS, site, "head mismatches are tested on the full definition table: the partial definitions plus an empty definition "
            "p(V1..Vn) <- (no bodies) for every predicate of the theory that heads none")
    diffs = find(table, lambda x: isinstance(x, tuple) and x[:2] == ("call", "IndexSet::difference")) if table else []
    ctx.add("TPL", "completion:explicit-predicates", bool(diffs) and all(d == DIFF for d in diffs), site, "the predicates without a definition are those of the theory minus the predicates of the atoms heading a partial definition")
    ctx.add("TPL", "completion:empty-definitions", bool(table) and table[:1] == ("coll",) and len(table[1]) == 2 and table[1][1] == DEFS[1][1], site,
            "every such predicate gets the head atomic_formula_from(p) with no bodies")
    res = [val for ts, val in lv if val != NONE]
    segs = None
    if len(res) == 1 and res[0][:2] == ("ctor", "Option::Some"):
        th = dict(res[0][2]).get("0")
        fm = dict(th[2]).get("formulas") if isinstance(th, tuple) and th[:2] == ("ctor", "Theory") else None
        if isinstance(fm, tuple) and fm[:1] == ("coll",):
            segs = fm[1]
    ctx.add("TPL", "completion:constraints-closed", bool(segs) and segs[0] == SEG_CONSTRAINTS and sum(1 for s_ in segs if s_[0] == (C0,)) == 1, site, "every constraint is kept, under universal closure, first")
    dseg = [s_ for s_ in (segs or ()) if s_[0] in ((D0,), (DIFF,))]
    ctx.add("TPL", "completion:inputs-dropped", len(dseg) == 2 and [[a_[0] for a_ in s_[1]] for s_ in dseg] == [[SEG_DEFINED[1][0][0]], [SEG_UNDEFINED[1][0][0]]], site,
            "a definition is completed iff its head is an atom whose predicate is not an input - for the defined and for the undefined predicates alike")
    ctx.add("TPL", "completion:completed-definition", len(dseg) == 2 and [[a_[1] for a_ in s_[1]] for s_ in dseg] == [[SEG_DEFINED[1][0][1]], [SEG_UNDEFINED[1][0][1]]], site,
            "forall V (p(V) <-> or_i exists (free(F_i) - V) F_i) with V the variables of the head atom; no bodies give the empty disjunction")
    ctx.add("TPL", "completion:nothing-else", segs is not None and len(segs) == 3, site, "the result holds nothing but the closed constraints and the completed definitions")
    dj = fx.fn("sigma_0::Formula::disjoin")
    vd = sym.Eval(fx, inline_depth=0).function(dj)
    ok = vd[:2] == ("call", "Option::unwrap_or") and vd[2][1] == ("ctor", "Formula::AtomicFormula", (("0", ("ctor", "AtomicFormula::Falsity", ())),)) and "BinaryConnective::Disjunction" in repr(vd) and "Iterator::reduce" in repr(vd)
    ctx.add("TPL", "disjoin", ok, ctx.site(dj), "disjoin of no formulas is #false, otherwise a left-nested disjunction", construct=vd)
    q = fx.fn("sigma_0::Formula::quantify")
    SELF, QU, VS = ("param", "$self"), ("param", "$q"), ("param", "$vs")
    lq = canon_leaves(sym.Eval(fx, inline_depth=0).function(q, [SELF, QU, VS]))
    refq = [((("cond", call("Vec::is_empty", VS), True),), SELF),
            ((("cond", call("Vec::is_empty", VS), False),), C("Formula::QuantifiedFormula", formula=SELF, quantification=C("Quantification", quantifier=QU, variables=VS)))]
    ctx.add("TPL", "quantify", leaves.same_decision(lq, refq)[0], ctx.site(q), "quantify adds no quantifier for an empty variable list, else Q V self", construct=lq)
    uc = fx.fn("sigma_0::Formula::universal_closure")
    vu = comp.canon(sym.Eval(fx, inline_depth=0).function(uc, [SELF]))
    ctx.add("TPL", "universal_closure", vu == call("Formula::quantify", SELF, C("Quantifier::Forall"), call("Formula::free_variables", SELF)),
            ctx.site(uc), "universal_closure = forall free(self) self", construct=vu)
    af = fx.fn("completion::atomic_formula_from")
    PR = ("param", "$p")
    va = sym.Eval(fx, inline_depth=0).function(af, [PR])
    ok = va[:2] == ("ctor", "AtomicFormula::Atom") and dict(va[2][0][1][2]).get("predicate_symbol") == ("place", "$p.symbol") and "('place', '$p.arity')" in repr(va) \
        and "tau_star::choose_fresh_variable_names" in repr(va) and "GeneralTerm::Variable" in repr(va)
    ctx.add("TPL", "empty-head", ok, ctx.site(af), "the head of an empty definition is p(V1..Vn): n = arity distinct general variables (closed context: the atom has no other variable)", construct=va)


FORMULA_CTORS = {"AtomicFormula": lambda: C("Formula::AtomicFormula", **{"0": ("param", "$af")}),
                 "UnaryFormula": lambda: C("Formula::UnaryFormula", connective=("param", "$uc"), formula=("param", "$uf")),
                 "BinaryFormula": None,
                 "QuantifiedFormula": None}
S0 = "syntax_tree::fol::sigma_0::"


def quantified(q):
    return C("Formula::QuantifiedFormula", quantification=C("Quantification", quantifier=C("Quantifier::" + q), variables=("param", "$vs")), formula=("param", "$body"))


def binary(c, lhs, rhs):
    return C("Formula::BinaryFormula", connective=C("BinaryConnective::" + c), lhs=lhs, rhs=rhs)


def run_case(fx, fn, arg):
    b = fx.fn("completion::" + fn)
    return expand_try(canon_leaves(sym.Eval(fx, inline_depth=0).function(b, [arg])))


def rule_split(ctx):
    fx = ctx.facts
    comp.use(fx)
    if set(fx.variants(S0 + "Formula")) != set(FORMULA_CTORS):
        raise AnalysisGap("Formula has constructors the case analysis does not know: %s" % sorted(fx.variants(S0 + "Formula")))
    sp = fx.fn("completion::split")
    site = ctx.site(sp)
    # split: one case per shape of the input
    shapes = {"AtomicFormula": FORMULA_CTORS["AtomicFormula"](), "UnaryFormula": FORMULA_CTORS["UnaryFormula"](), "BinaryFormula": binary("Implication", ("param", "$l"), ("param", "$r"))}
    for q in fx.variants(S0 + "Quantifier"):
        shapes["QuantifiedFormula:" + q] = quantified(q)
    for name, whole in sorted(shapes.items()):
        closed = call("IndexSet::is_empty", call("Formula::free_variables", whole))
        inner = ("param", "$body") if name == "QuantifiedFormula:Forall" else whole
        ref = [((("cond", closed, False),), NONE), ((("cond", closed, True),), call("completion::split_implication", inner))]
        same, wit = leaves.same_decision(run_case(fx, "split", whole), ref)
        ctx.add("TPL", "split:" + name, same, site, "a formula with free variables is refused; otherwise %s goes to split_implication" %
                ("the body of the universal quantifier" if inner is not whole else "the formula itself"), construct=wit)
    # split_implication: every shape of formula, and for the two implications every kind of head
    si = fx.fn("completion::split_implication")
    site = ctx.site(si)
    F = ("param", "$f")
    ATOM = ("param", "$atom")
    heads = {"Falsity": C("Formula::AtomicFormula", **{"0": C("AtomicFormula::Falsity")}), "Truth": C("Formula::AtomicFormula", **{"0": C("AtomicFormula::Truth")}),
             "Comparison": C("Formula::AtomicFormula", **{"0": C("AtomicFormula::Comparison", **{"0": ("param", "$c")})}),
             "Atom": C("Formula::AtomicFormula", **{"0": C("AtomicFormula::Atom", **{"0": ATOM})}),
             "UnaryFormula": FORMULA_CTORS["UnaryFormula"](), "BinaryFormula": binary("Conjunction", ("param", "$l"), ("param", "$r")), "QuantifiedFormula": quantified("Forall")}
    if set(fx.variants(S0 + "AtomicFormula")) != {"Falsity", "Truth", "Comparison", "Atom"}:
        raise AnalysisGap("AtomicFormula has constructors the case analysis does not know")
    vars_seen = []
    for conn in fx.variants(S0 + "BinaryConnective"):
        for hk, hv in sorted(heads.items()):
            whole = binary(conn, F, hv) if conn != "ReverseImplication" else binary(conn, hv, F)
            lv = run_case(fx, "split_implication", whole)
            key = "split_implication:%s:%s" % (conn, hk)
            if conn not in ("Implication", "ReverseImplication"):
                if hk in ("Atom", "Falsity"):
                    ctx.add("TPL", key, [v for _, v in lv] == [NONE], site, "%s is not split: refused" % conn, construct=lv)
                continue
            if hk == "Falsity":
                ctx.add("TPL", key, lv == [((), C("Option::Some", **{"0": C("Component::Constraint", **{"0": whole})}))], site, "head #false: the whole formula is a constraint", construct=lv)
            elif hk != "Atom":
                ctx.add("TPL", key, [v for _, v in lv] == [NONE], site, "a head that is neither an atom nor #false is refused", construct=lv)
            else:
                # the variables of the head atom, as the code collects them: one collection, used by both tests.  Two spellings are known:
                # `v.contains(&None) | !v.all_unique()` on the Option-valued entries, and `collect::<Option<Vec<_>>>()` (None as soon as
                # one entry is None) followed by `all_unique` on the unwrapped entries
                subs = [x for ts, _ in lv for t in ts for x in sym.subterms(t) if isinstance(x, tuple)]
                cs1 = {x[2][0] for x in subs if x[:2] in (("call", "Itertools::contains"), ("call", "Itertools::all_unique")) and len(x) == 3 and x[2][0][:1] == ("coll",)}
                cs2 = {x[1] for x in subs if x[:1] == ("is",) and len(x) == 3 and x[2] == "Option::Some" and isinstance(x[1], tuple) and x[1][:1] == ("coll",)}
                if len(cs1) + len(cs2) != 1:
                    ctx.add("TPL", key, False, site, "the head's arguments are collected once and tested for non-variables and for repetitions", construct=lv)
                    continue
                first_spelling = bool(cs1)
                VARS = (cs1 or cs2).pop()
                tried = first_spelling and all(e[:1] == ("try",) and len(e) == 2 for _, alts_ in VARS[1] for _, e in alts_)
                if tried:
                    # third spelling: `collect::<Option<_>>()?` read as a collection of `entry?`: a None entry leaves with None by itself
                    U = call("Itertools::all_unique", VARS)
                    vars_seen.append(("coll", tuple((srcs_, tuple((ts_, e[1]) for ts_, e in alts_)) for srcs_, alts_ in VARS[1])))
                    some = C("Option::Some", **{"0": C("Component::PartialDefinition", a=C("AtomicFormula::Atom", **{"0": ATOM}), f=F)})
                    same, wit = leaves.same_decision(lv, [((("cond", U, False),), NONE), ((("cond", U, True),), some)])
                    ctx.add("TPL", key, same, site, "head atom: refused if an argument is not a variable or a variable repeats; otherwise partial definition (head atom, body = the other side)", construct=wit)
                    continue
                # fourth spelling: a loop that pushes the variable of each argument and leaves with None at the first argument that is
                # not a variable.  The exit is a leaf whose facts are all about the current argument; what the loop collects for an argument
                # is then "None under those facts, Some(the pushed variable) otherwise" - the same table as the first spelling
                EACH_T = ("each", ("fieldof", ATOM, "terms"))
                about_each = lambda t_: any(x_ == EACH_T for x_ in sym.subterms(t_))
                exits_ = [(ts_, v_) for ts_, v_ in lv if v_ == NONE and ts_ and all(about_each(t_) for t_ in ts_)]
                if first_spelling and len(exits_) == 1 and all(t_[0] == "not" for t_ in exits_[0][0]):
                    to_at = lambda t_: leaves.replace(t_, {EACH_T: at(("fieldof", ATOM, "terms"))})
                    var_alts = [frozenset(to_at(x_) for x_ in t_[1]) for t_ in exits_[0][0]]        # one conjunction per accepted kind of argument
                    rest_ = [(tuple(t_ for t_ in ts_ if not about_each(t_)), v_) for ts_, v_ in lv if (ts_, v_) != exits_[0]]
                    U = call("Itertools::all_unique", VARS)
                    some = C("Option::Some", **{"0": C("Component::PartialDefinition", a=C("AtomicFormula::Atom", **{"0": ATOM}), f=F)})
                    same, wit = leaves.same_decision(rest_, [((("cond", U, False),), NONE), ((("cond", U, True),), some)])
                    elems_ = [e_ for _, alts_ in VARS[1] for _, e_ in alts_]
                    if len(VARS[1]) == 1 and len(elems_) == 1:
                        srcs_ = VARS[1][0][0]
                        neg_all = frozenset(("not", tuple(sorted(a_, key=repr))) for a_ in var_alts)
                        vars_seen.append(("coll", ((srcs_, tuple((a_, C("Option::Some", **{"0": elems_[0]})) for a_ in var_alts) + ((neg_all, NONE),)),)))
                    else:
                        same = False
                    ctx.add("TPL", key, same, site, "head atom: refused if an argument is not a variable or a variable repeats; otherwise partial definition (head atom, body = the other side)", construct=wit)
                    continue
                vars_seen.append(VARS)
                if first_spelling:
                    A, U = ("cond", call("Itertools::contains", VARS, NONE), True), call("Itertools::all_unique", VARS)
                    notA = ("cond", A[1], False)
                else:
                    notA, U = ("is", VARS, "Option::Some"), call("Itertools::all_unique", P(VARS, ("Option::Some", "0")))
                    A = ("not", (notA,))
                some = C("Option::Some", **{"0": C("Component::PartialDefinition", a=C("AtomicFormula::Atom", **{"0": ATOM}), f=F)})
                ref = [((A,), NONE), ((notA, ("cond", U, False)), NONE), ((notA, ("cond", U, True)), some)]
                same, wit = leaves.same_decision(lv, ref)
                ctx.add("TPL", key, same, site, "head atom: refused if an argument is not a variable or a variable repeats; otherwise partial definition (head atom, body = the other side)", construct=wit)
    for name, whole in (("AtomicFormula", FORMULA_CTORS["AtomicFormula"]()), ("UnaryFormula", FORMULA_CTORS["UnaryFormula"]()), ("QuantifiedFormula", quantified("Exists"))):
        lv = run_case(fx, "split_implication", whole)
        ctx.add("TPL", "split_implication:" + name, [v for _, v in lv] == [NONE], site, "only F -> G and G <- F are split; everything else is refused", construct=lv)
    # what the collected head variables are: per kind of argument
    TERMS = ("fieldof", ATOM, "terms")
    ok_src = bool(vars_seen) and all(v_ == vars_seen[0] for v_ in vars_seen) and vars_seen[0][:1] == ("coll",) and len(vars_seen[0][1]) == 1 and vars_seen[0][1][0][0] == (TERMS,)
    ctx.add("TPL", "split:head-variables:source", ok_src, site, "one entry per argument of the head atom, none skipped")
    if ok_src:
        alts = vars_seen[0][1][0][1]
        G = S0 + "GeneralTerm"
        kinds = {"GeneralTerm::Variable": (C("GeneralTerm::Variable", **{"0": ("param", "$v")}), "General"),
                 "IntegerTerm::Variable": (C("GeneralTerm::IntegerTerm", **{"0": C("IntegerTerm::Variable", **{"0": ("param", "$v")})}), "Integer"),
                 "SymbolicTerm::Variable": (C("GeneralTerm::SymbolicTerm", **{"0": C("SymbolicTerm::Variable", **{"0": ("param", "$v")})}), "Symbol")}
        others = {"GeneralTerm::Infimum": C("GeneralTerm::Infimum"), "GeneralTerm::Supremum": C("GeneralTerm::Supremum"),
                  "GeneralTerm::FunctionConstant": C("GeneralTerm::FunctionConstant", **{"0": ("param", "$c")}),
                  "IntegerTerm::Numeral": C("GeneralTerm::IntegerTerm", **{"0": C("IntegerTerm::Numeral", **{"0": ("param", "$n")})}),
                  "IntegerTerm::FunctionConstant": C("GeneralTerm::IntegerTerm", **{"0": C("IntegerTerm::FunctionConstant", **{"0": ("param", "$c")})}),
                  "IntegerTerm::UnaryOperation": C("GeneralTerm::IntegerTerm", **{"0": C("IntegerTerm::UnaryOperation", op=("param", "$o"), arg=("param", "$x"))}),
                  "IntegerTerm::BinaryOperation": C("GeneralTerm::IntegerTerm", **{"0": C("IntegerTerm::BinaryOperation", op=("param", "$o"), lhs=("param", "$x"), rhs=("param", "$y"))}),
                  "SymbolicTerm::Symbol": C("GeneralTerm::SymbolicTerm", **{"0": C("SymbolicTerm::Symbol", **{"0": ("param", "$s")})}),
                  "SymbolicTerm::FunctionConstant": C("GeneralTerm::SymbolicTerm", **{"0": C("SymbolicTerm::FunctionConstant", **{"0": ("param", "$c")})})}
        known = {"GeneralTerm": {"Infimum", "Supremum", "FunctionConstant", "Variable", "IntegerTerm", "SymbolicTerm"},
                 "IntegerTerm": {"Numeral", "FunctionConstant", "Variable", "UnaryOperation", "BinaryOperation"}, "SymbolicTerm": {"Symbol", "FunctionConstant", "Variable"}}
        for ty, vs in known.items():
            if set(fx.variants(S0 + ty)) != vs:
                raise AnalysisGap("%s has constructors the case analysis does not know" % ty)

        def on(shape):
            # what the collection holds for an argument of that shape: the alternatives whose conditions hold for it
            out = []
            for ts, e in alts:
                rs = [_decide(leaves.replace(t, {at(TERMS): shape})) for t in ts]
                if any(r is False for r in rs):
                    continue
                if any(r is None for r in rs):
                    return "undecided"
                for lts, lv in leaves.leaves(comp.case_of_case(leaves.lift(leaves.replace(e, {at(TERMS): shape})))):
                    out.append((tuple(lts), comp.canon(lv)))
            return out
        for k_, (shape, sort) in sorted(kinds.items()):
            want = C("Option::Some", **{"0": C("Variable", _name=("param", "$v"), sort=C("Sort::" + sort))})
            ctx.add("TPL", "split:head-variables:" + k_, on(shape) == [((), want)], site, "a %s variable argument counts as the variable (name, %s)" % (sort.lower(), sort), construct=on(shape))
        bad = {k_: on(shape) for k_, shape in others.items() if on(shape) != [((), NONE)]}
        ctx.add("TPL", "split:head-variables:non-variables", not bad, site, "every other kind of argument makes the head unusable (None)", construct=bad or None)
    # components / heads / mismatch
    co = fx.fn("completion::components")
    v = comp.canon(sym.Eval(fx, inline_depth=0).function(co, [TH]))
    FORMS = ("fieldof", TH, "formulas")
    SPLIT = ("try", call("completion::split", at(FORMS)))
    ref = C("Option::Some", **{"0": ("list", (
        coll(seg(FORMS, [("is", SPLIT, "Component::PartialDefinition")], ("bucket", P(SPLIT, ("Component::PartialDefinition", "a")), "push", (P(SPLIT, ("Component::PartialDefinition", "f")),)))),
        coll(seg(FORMS, [("is", SPLIT, "Component::Constraint")], P(SPLIT, ("Component::Constraint", "0"))))))})
    ctx.add("TPL", "components", v == ref, ctx.site(co), "every formula is split (`?` propagates a refusal); constraints are collected; bodies are grouped per head atom, appended in order", construct=v)
    hm = fx.fn("completion::has_head_mismatches")
    DP = ("param", "$definitions")
    v = leaves.canon_first(sym.Eval(fx, inline_depth=0).function(hm, [DP]))
    HS = call("completion::heads", DP)
    ref = ("first", (HS,), frozenset({("cond", call("Itertools::all_equal", P(at(HS), ("tuple", "1"))), False)}), ("lit", True), ("lit", False))
    ctx.add("TPL", "head-mismatch", v == ref, ctx.site(hm), "mismatch iff for some predicate the head atoms of its partial definitions are not all equal", construct=v)
    hd = fx.fn("completion::heads")
    v = comp.canon(sym.Eval(fx, inline_depth=0).function(hd, [DP]))
    K = P(at(DP), ("tuple", "0"))
    ref = coll(seg(DP, [("is", K, "AtomicFormula::Atom")], ("bucket", call("Atom::predicate", P(at(DP), ("tuple", "0"), ("AtomicFormula::Atom", "0"))), "push", (K,))))
    ctx.add("TPL", "heads-by-predicate", v == ref, ctx.site(hd), "head atoms are grouped by the predicate (symbol, arity) of the atom", construct=v)
    # the CLI and the task call completion and propagate refusal
    n = 0
    for body in fx.body_list:
        for c in hq.calls(body["body"], "Completion::completion"):
            n += 1
    ctx.floor("TPL", "completion_call_sites", n, 2)




def rule_tightness(ctx):
    # the tightness gate of the property: same obligations as C11's GRAPH rules for is_tight / positive_predicates
    sub = type(ctx)(ctx.prop, ctx.tier, ctx.facts)
    c11.rule_graphs(sub)
    for o in sub.obls:
        if o["key"].startswith(("GRAPH:tight", "GRAPH:positive", "GRAPH:body-positive")):
            ctx.obls.append(o)


def rule_variable_leaves(ctx):
    """V = variables of the head atom and U_i = free(F_i) - V compare variables by name and sort: each occurrence must be collected under its sort"""
    collect.check_variable_leaves(ctx, "COLLECT", ctx.facts)


def rule_globals_shared(ctx):
    """completion quantifies the head variables V universally and everything else of a body existentially: that is the completed definition only
    if the head variables tau* chose occur nowhere else in the program (C01's obligations on choose_fresh_global_variables)"""
    from . import c01
    sub = type(ctx)(ctx.prop, ctx.tier, ctx.facts)
    c01.rule_globals(sub)
    ctx.obls.extend(sub.obls)


RULES = [rule_completion, rule_split, rule_tightness, rule_variable_leaves, rule_globals_shared]
