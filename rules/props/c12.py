"""C12 — axioms anthem adds on its own are true in every standard interpretation."""
import os

from ..facts import AnalysisGap
from .. import hq, printers, sym, tff
from . import c03, c09

EXPLANATION = (
    "PRE-1: the preamble text is parsed and type-checked (each identifier declared once, every use at its declared type, variables bound, names "
    "unique, no brace). PRE-2: every preamble axiom is evaluated by the checker's own evaluator in the standard structure restricted to a window "
    "(general = {#inf} + integers of the window + symbols + {#sup}, standard order, the two injections); all axioms are in the order/equality "
    "fragment (checked), so a universal axiom with k variables that is false in the standard structure is false on some <= k elements whose "
    "isomorphism type is realised in the window (window size is checked against k); the definitional axioms with an existential are checked for "
    "every element of the window. This evaluates a text file of the source tree; it does not run anthem. CHAIN: in Display for Problem the "
    "symbol-order axioms are written for consecutive pairs of the sorted vector of self.symbols() - the same source the declarations use - with "
    "the smaller symbol on the left of p__less__. TRANS: transition axioms are forall X (hp(X) -> tp(X)) for every predicate of both programs (C03). "
    "OWN-AXIOMS: the only axiom-role text written by Display for Problem itself is the symbol order; everything else comes from the task's formulas. SHARED: the collectors behind Problem::symbols reach every place a symbolic term can occur (C09's collector obligations); IDENT: derived equality of the collected items.")
UNDECIDED = ["that Rust's byte order on the (possibly `__s`-renamed) identifiers is the standard order of the original symbols "
             "(renaming `a` to `a__s` can invert its position relative to `a0`; observed, not decided)",
             "arithmetic facts of $int are the prover's, not anthem's"]
ASSUMPTIONS = ["the standard interpretation: #inf < integers < symbols (lexicographic) < #sup"]

WHERE = "src/verifying/problem/standard_interpretation.p"
FRAGMENT = {"f__integer__", "f__symbolic__", "c__infimum__", "c__supremum__", "p__is_integer__", "p__is_symbolic__", "p__less_equal__", "p__less__",
            "p__greater_equal__", "p__greater__", "$lesseq", "$less", "$greatereq", "$greater", "$true", "$false"}


def rule_pre1(ctx):
    c09.rule_pre1(ctx)


def rule_pre2(ctx):
    fx = ctx.facts
    text = fx.read_source(WHERE)
    items = tff.parse(text)
    axioms = [it for it in items if it["role"] == "axiom"]
    ctx.floor("PRE-2", "preamble_axioms", len(axioms), 1)
    w = 3 if ctx.tier == "thorough" else 2
    syms = ["a", "b", "c", "d"][: (4 if ctx.tier == "thorough" else 3)]
    st = tff.Structure(-w, w, syms)
    total = 0
    for it in axioms:
        used = {f for f, _ in tff.symbols_used(it["body"])}
        outside = sorted(used - FRAGMENT)
        if outside:
            ctx.add("PRE-2", "axiom:" + it["name"], None, WHERE, "axiom uses %s outside the order/equality fragment: not decided by the window argument" % outside)
            continue
        k = tff.quantifier_depth(it["body"])
        if k > min(len(st.ints), len(st.syms)):
            ctx.add("PRE-2", "axiom:" + it["name"], None, WHERE, "axiom has %d quantified variables, more than the window provides (%d integers, %d symbols)" % (k, len(st.ints), len(st.syms)))
            continue
        stats = {"assignments": 0}
        try:
            ok = st.holds(it["body"], {}, stats)
        except tff.TffError as e:
            ctx.add("PRE-2", "axiom:" + it["name"], None, WHERE, "not evaluable: %s" % e)
            continue
        total += stats["assignments"]
        ctx.add("PRE-2", "axiom:" + it["name"], ok, WHERE, "true on the window structure [%d,%d] + %d symbols (%d assignments, %d variables)" % (-w, w, len(syms), stats["assignments"], k))
    ctx.count("assignments_evaluated", total)


def rule_chain(ctx):
    fx = ctx.facts
    b = fx.fn("fmt", impl_self="verifying::problem::Problem", impl_trait="std::fmt::Display")
    site = ctx.site(b)
    p = printers.evaluate(fx, b)
    SELF = ("param", "self")
    chain = [o for o in p.out if o[2][0] == "write" and "symbol_order" in o[2][1]]
    if len(chain) != 1:
        ctx.bad("CHAIN", "present", site, "expected one symbol-order write, found %d" % len(chain))
        return
    conds, loops, item = chain[0]
    from .. import leaves
    SYMS = ("call", "Problem::symbols", (SELF,))
    sorted_ok = lambda t: isinstance(t, tuple) and t[:1] == ("upd",) and t[2] in ("sort_unstable", "sort") and t[3] == () and \
        leaves.strip_acc(t[1]) in (("call", "FromIterator::from_iter", (SYMS,)), ("call", "Iterator::collect", (SYMS,)), SYMS)
    _plain_sorted = sorted_ok

    def sorted_ok(t):
        # `xs.into_iter().sorted_unstable()` / `.sorted()` (itertools): the same elements in ascending order, as an iterator
        t = leaves.strip_acc(t) if isinstance(t, tuple) else t
        if isinstance(t, tuple) and t[:1] == ("call",) and t[1] in ("Itertools::sorted_unstable", "Itertools::sorted") and len(t[2]) == 1:
            src = t[2][0]
            while isinstance(src, tuple) and src[:1] == ("call",) and src[1].split("::")[-1] in ("iter", "into_iter", "cloned", "copied") and len(src[2]) == 1:
                src = src[2][0]
            return src == SYMS or _plain_sorted(src) or src in (("call", "FromIterator::from_iter", (SYMS,)), ("call", "Iterator::collect", (SYMS,)))
        return _plain_sorted(t)
    nest, mapping = leaves.loop_nest(loops)
    args = tuple(leaves.norm(leaves.replace(a, mapping)) for a in item[2])
    pair_src = nest[0] if len(nest) == 1 else None
    base = left = right = None
    if isinstance(pair_src, tuple) and pair_src[:2] == ("call", "slice::windows") and pair_src[2][1:] == (("lit", 2),):
        base = pair_src[2][0]
        left, right = ("index", ("each", pair_src), ("lit", 0)), ("index", ("each", pair_src), ("lit", 1))
    elif isinstance(pair_src, tuple) and pair_src[:1] == ("call",) and pair_src[1].endswith("tuple_windows") and len(pair_src[2]) == 1:
        base = pair_src[2][0]
        left, right = ("proj", ("each", pair_src), (("tuple", "0"),)), ("proj", ("each", pair_src), (("tuple", "1"),))
    elif isinstance(pair_src, tuple) and pair_src[:2] == ("call", "Iterator::zip") and len(pair_src[2]) == 2 and pair_src[2][1] == ("call", "Iterator::skip", (pair_src[2][0], ("lit", 1))):
        # `v.iter().zip(v.iter().skip(1))`: every element with its successor
        base = pair_src[2][0]
        left, right = ("proj", ("each", pair_src), (("tuple", "0"),)), ("proj", ("each", pair_src), (("tuple", "1"),))
    ok_loop = base is not None and sorted_ok(base)
    ctx.add("CHAIN", "sorted-consecutive", ok_loop and not conds, site,
            "the axioms range over the consecutive pairs of the *sorted* vector of self.symbols() (the source of the symbol declarations), unconditionally", construct=loops)
    import re as _re
    ctx.add("CHAIN", "template", _re.sub(r"\{\w*\}", "{}", item[1]) == "tff(symbol_order_{}, axiom, p__less__(f__symbolic__({}), f__symbolic__({}))).\n", site, "axiom: p__less__(f__symbolic__(s0), f__symbolic__(s1))")
    if ok_loop:
        ctx.add("CHAIN", "direction", args[1:] == (leaves.norm(left), leaves.norm(right)), site, "the smaller element of each pair is the left argument of p__less__ (first < second after sorting)")
    # no other axiom text is produced by the problem printer itself
    own = [o[2][1] for o in p.out if o[2][0] == "write" and ", axiom," in o[2][1]]
    ctx.add("OWN-AXIOMS", "problem-printer", own == [item[1]], site, "the only axiom written by Display for Problem itself is the symbol order: %s" % [x[:40] for x in own])
    # strict order on sorted distinct strings: symbols() is a set (IndexSet)
    sy = fx.fn("Problem::symbols")
    ctx.add("CHAIN", "distinct", sy.get("ret_ty", "").startswith("indexmap::IndexSet<"), ctx.site(sy), "self.symbols() is a set, so consecutive sorted elements are different (strictly ordered)")


def rule_transition(ctx):
    sub = type(ctx)(ctx.prop, ctx.tier, ctx.facts)
    c03.rule_transition(sub)
    for o in sub.obls:
        o = dict(o)
        o["rule"] = "TRANS"
        o["key"] = "TRANS:" + o["key"].split(":", 1)[1]
        ctx.obls.append(o)
    # `hp -> tp` speaks about the h- and the t-copy of p only if here() / there() rename every atom, whatever its name: the prefix rules of C05
    from . import c05
    sub = type(ctx)(ctx.prop, ctx.tier, ctx.facts)
    c05.rule_apply(sub)
    c05.rule_prefix(sub)
    ctx.obls.extend(sub.obls)


def rule_every_symbol_collected(ctx):
    """the order chain and the symbol declarations are built from Problem::symbols(): a constant that the collectors miss (say, one that only
    occurs on the left of a comparison) is neither declared nor ordered.  The collectors must reach every place a symbolic term can occur
    (C09's collector obligations for `symbols`)."""
    from . import c09
    sub = type(ctx)(ctx.prop, ctx.tier, ctx.facts)
    c09.rule_declarations(sub)
    ctx.obls.extend(o for o in sub.obls if o["key"].startswith("COLLECT:") and ("symbols" in o["key"] or "leaf:symbol" in o["key"]))


def rule_identity(ctx):
    """items kept in sets are the same element exactly when all their fields agree: see collect.check_structural_identity"""
    from .. import collect as _collect
    _collect.check_structural_identity(ctx, "IDENT", ctx.facts)


RULES = [rule_pre1, rule_pre2, rule_chain, rule_transition, rule_every_symbol_collected, rule_identity]
