"""C18 — fixpoint simplification terminates; all outputs are deterministic."""
import re

from ..facts import AnalysisGap, callee, callee_generic, local_id_of, strip, walk
from .. import callgraph, flow, hq, sym

EXPLANATION = (
    "DET-1: no value of type HashMap / HashSet (type-resolved, any crate) is iterated anywhere in the crate (iter, keys, values, into_iter, drain, "
    "for loops, extend-from); hash maps are only inserted into and indexed, every collection that reaches output is an IndexSet/IndexMap/Vec. DET-2: "
    "on the call graph (MIR, closures and unresolved trait calls over-approximated) the sources of nondeterminism - clock, CPU count, thread pool, "
    "channels, environment, process spawning, random numbers - are unreachable from the translation, simplification, parsing, analysis entry points, "
    "from every Task::decompose and from Display for Problem. DET-3: directory walks are sorted by file name (C20). FIXPOINT: apply_fixpoint exits only when previous == current with "
    "current = previous.apply(f), so the result r satisfies r.apply(f) == r for a deterministic f. RW-3 (necessary for termination): no composed "
    "portfolio contains a rule together with its inverse. TERM: every portfolio member that is a schema `pattern => template` strictly decreases "
    "(number of nodes, number of reverse implications) lexicographically without duplicating a metavariable, or is the identity; every other member "
    "must be one of the eight rewrites whose termination argument was reviewed by hand (TERM_TABLE), so a new rewrite that does neither is reported. SHARED: `--strategy fixpoint` runs apply_fixpoint (C07's strategy dispatch).")
UNDECIDED = ["termination of the eight non-schematic rewrites (quantifier and comparison rules): their measure arguments are a reviewed table, not derived; a change inside one of them that makes it oscillate is not detected by TERM",
             "address-space / allocator effects cannot influence output because no pointer value is printed (no `{:p}`, checked) - scheduler effects are C10"]
ASSUMPTIONS = ["indexmap preserves insertion order", "the simplification rules are functions (no interior state)"]

HASH = ("std::collections::HashMap<", "std::collections::HashSet<", "std::collections::hash::map::HashMap<", "std::collections::hash::set::HashSet<", "hashbrown::")
ITER_METHODS = {"iter", "iter_mut", "keys", "values", "values_mut", "into_iter", "drain", "into_keys", "into_values", "retain", "extract_if"}


def is_hash(ty):
    t = ty.lstrip("&").replace("mut ", "")
    return t.startswith(HASH)


def rule_det1(ctx):
    fx = ctx.facts
    n_hash = 0
    for b in fx.body_list:
        if b["body"].get("mac", "").startswith("#"):
            continue
        for n in walk(b["body"]):
            k = n.get("k")
            if k == "MethodCall" and is_hash(n["recv"].get("ty", "")):
                n_hash += 1
                bad = n["method"] in ITER_METHODS
                ctx.add("DET-1", "%s:%s#%d" % (hq.last(b["def_path"], 2), n["method"], n_hash), not bad, ctx.site(b, n),
                        "hash container method `%s` (%s)" % (n["method"], "iteration order is unspecified" if bad else "order-independent use"), nontrivial=bad)
            if k == "Index" and is_hash(n["e"].get("ty", "")):
                n_hash += 1
                ctx.ok("DET-1", "%s:index#%d" % (hq.last(b["def_path"], 2), n_hash), ctx.site(b, n), "hash map is indexed by key (order-independent)", nontrivial=False)
            if k == "Call" and (callee_generic(n) or "").endswith("IntoIterator::into_iter") and n.get("args") and is_hash(n["args"][0].get("ty", "")):
                ctx.bad("DET-1", "%s:for-loop" % hq.last(b["def_path"], 2), ctx.site(b, n), "a hash container is iterated by a for loop")
            if k == "MethodCall" and n["method"] in ("extend", "from_iter", "collect") and any(is_hash(a.get("ty", "")) for a in n.get("args", [])):
                ctx.bad("DET-1", "%s:extend-from-hash" % hq.last(b["def_path"], 2), ctx.site(b, n), "a collection is filled from a hash container")
            elif k in ("Call", "MethodCall") and any(is_hash(strip(a).get("ty", "")) for a in n.get("args", [])):
                # a hash container handed to any other function by value / reference: its iteration order can leak (Vec::from_iter(set), chain(set), ..)
                c = callee_generic(n) or ""
                if not c.endswith(("::len", "::is_empty", "mem::drop", "::contains", "::contains_key", "::get", "::eq", "::ne")) and not c.endswith("IntoIterator::into_iter"):
                    ctx.bad("DET-1", "%s:hash-argument:%s" % (hq.last(b["def_path"], 2), hq.last(c, 2)), ctx.site(b, n),
                            "a hash container is passed to %s: whatever it builds inherits an unspecified order (a later sort must be total to repair that)" % (hq.last(c, 2) or "a function"))
    # no floor: replacing a hash container by an ordered one lowers this count and is an improvement, not a loss of coverage.
    ctx.count("hash_container_uses", n_hash)
    ctx.add("DET-1", "detector-self-check", is_hash("std::collections::HashMap<K, V>") and is_hash("std::collections::HashSet<T>") and not is_hash("indexmap::IndexMap<K, V>"), "",
            "the hash-container type test recognises std HashMap / HashSet and not IndexMap", nontrivial=False)
    # pointer formatting
    ptr = [b["def_path"] for b in fx.body_list for n in walk(b["body"]) if "mac_src" in n and "{:p}" in n["mac_src"]]
    ctx.add("DET-1", "no-pointer-formatting", not ptr, "", "no `{:p}` formatting in the crate: %s" % ptr)


SOURCES = ("std::time::Instant::now", "std::time::SystemTime::now", "num_cpus::get", "threadpool::ThreadPool::new", "std::sync::mpsc::channel", "std::env::",
           "std::process::Command::new", "std::thread::", "rand::", "std::process::id", "std::collections::hash::map::RandomState::new")


def roots(fx, cg):
    out = {}

    def add(label, pred):
        hits = cg.find(pred)
        if not hits:
            raise AnalysisGap("DET-2 root `%s` not found" % label)
        out[label] = hits

    add("tau_star", lambda d: d.endswith("TauStar>::tau_star"))
    add("mu", lambda d: d.endswith("Mu>::mu"))
    add("natural", lambda d: d.endswith("Natural>::natural"))
    add("gamma", lambda d: d.endswith("Gamma>::gamma"))
    add("completion", lambda d: d.endswith("Completion>::completion"))
    add("decompose", lambda d: d.endswith("Task>::decompose"))
    add("problem-display", lambda d: d == "<verifying::problem::Problem as std::fmt::Display>::fmt")
    add("parse", lambda d: d.endswith("parsing::Parser>::parse") or d == "parsing::PestParser::translate_pairs")
    add("apply", lambda d: d.endswith("Apply>::apply") or d == "convenience::apply::Apply::apply_fixpoint")
    add("simplifiers", lambda d: d.startswith("simplifying::fol::sigma_0::") and d.count("::") <= 5 and "{" not in d)
    add("analysis", lambda d: d.endswith(">::is_tight") or d.endswith(">::is_regular") or d.endswith(">::has_private_recursion"))
    add("formatters", lambda d: d.startswith("<formatting::") and d.endswith("std::fmt::Display>::fmt"))
    return out


def rule_det2(ctx):
    fx = ctx.facts
    cg = callgraph.CallGraph(fx)
    rs = roots(fx, cg)
    n = 0
    for label, rr in rs.items():
        reach = cg.reachable(rr)
        bad = []
        for dp in reach:
            for c, line, blk, exp in cg.ext_calls[dp]:
                if c.startswith(SOURCES):
                    bad.append((c, cg.path_to(dp, rr)))
        n += len(reach)
        ctx.add("DET-2", "root:" + label, not bad, "", "from %d root(s) `%s`: %d functions reachable, nondeterminism sources reached: %s" % (
            len(rr), label, len(reach), [(c, " -> ".join(hq.last(x, 2) for x in p)) for c, p in bad[:3]] or "none"),
            construct={"roots": len(rr), "reachable": len(reach)})
    ctx.count("functions_reachable_total", n)
    # positive control: the same analysis must find the sources from main (Verify arm uses the clock and the prover)
    r = cg.reachable(["command_line::procedures::main"])
    found = {c for dp in r for c, _, _, _ in cg.ext_calls[dp] if c.startswith(SOURCES)}
    ctx.add("DET-2", "positive-control", {"std::time::Instant::now", "std::process::Command::new", "threadpool::ThreadPool::new"} <= found, "",
            "control: from main the analysis does reach the clock, the thread pool and the prover process: %s" % sorted(found), nontrivial=False)


def rule_sort(ctx):
    fx = ctx.facts
    n = 0
    for b in fx.body_list:
        if b["body"].get("mac", "").startswith("#"):
            continue
        for c in walk(b["body"]):
            if c.get("k") == "MethodCall" and c["method"].startswith(("sort", "dedup", "binary_search", "max_by", "min_by")):
                n += 1
                ty = c["recv"].get("ty", "")
                custom = c["method"] in ("sort_by", "sort_unstable_by", "sort_by_key", "sort_unstable_by_key", "sort_by_cached_key", "dedup_by", "dedup_by_key", "max_by", "min_by")
                floaty = "f32" in ty or "f64" in ty
                ctx.add("SORT", "%s:%s#%d" % (hq.last(b["def_path"], 2), c["method"], n), not custom and not floaty, ctx.site(b, c),
                        "`%s` on %s uses the derived total order" % (c["method"], ty[:60]))
    ctx.floor("SORT", "sort_sites", n, 5)
    v = fx.adt("syntax_tree::fol::sigma_0::Variable")
    imp = [i for i in fx.impls if i["self_ty"] == v["path"] and i.get("trait", "").endswith("cmp::Ord") and i["from_expansion"]]
    ctx.add("SORT", "variable-order-derived", len(imp) == 1, "src/syntax_tree/fol/sigma_0.rs", "fol::Variable orders by the derived Ord (name, then sort)")


def rule_fixpoint(ctx):
    """FIXPOINT, by one symbolic iteration and a shift argument.  The statements before the loop give the initial state S0 (terms over `self`);
    the loop body is evaluated once on S0.  (i) Every way out of the loop (break / return) is taken only when X == X.apply(f) holds for
    X = self, and yields X or X.apply(f).  (ii) The state after the iteration is S0 with `self` replaced by `self.apply(f)`.  By (ii) the k-th
    iteration is the first one with self := apply^k(self), so by (i) every result r satisfies r == r.apply(f).  The shape of the loop
    (while / loop + return, one or two state variables) does not matter."""
    from .. import leaves
    fx = ctx.facts
    b = fx.fn("Apply::apply_fixpoint")
    site = ctx.site(b)
    body = b["body"]
    stmts = body.get("stmts", [])
    li = [i_ for i_, st in enumerate(stmts) if st.get("k") != "LetStmt" and isinstance(st.get("e"), dict) and strip(st["e"]).get("k") == "Loop"]
    tail = body.get("expr")
    loop = None
    if len(li) == 1:
        loop = strip(stmts[li[0]]["e"])
        pre, post = stmts[:li[0]], stmts[li[0] + 1:]
    elif not li and tail is not None and strip(tail).get("k") == "Loop":
        loop = strip(tail)
        pre, post, tail = stmts, [], None
    if loop is None or [n for n in walk(body) if n.get("k") == "Loop"] != [loop]:
        ctx.bad("FIXPOINT", "loop", site, "apply_fixpoint is not one loop over whole passes `x -> x.apply(f)` at the top level of its body (loops found: %d)" % len([n for n in walk(body) if n.get("k") == "Loop"]))
        return
    ev = sym.Eval(fx, inline_depth=0)
    env = {}
    for p_ in b["params"]:
        ev.bind_pat(p_, None, env, default_param=True)
    ev._prefix = [()]
    for st in pre:
        ev.stmt(st, env, 0)
    SELF, F_ = ("param", "self"), ("param", "f")
    A = lambda x: ("call", "Apply::apply", (x, F_))
    carried = sorted(set(ev.mutated_locals(loop)) & set(env))
    s0 = {i_: env[i_] for i_ in carried}
    ev.breaks = []
    ev.returns = []
    e1 = dict(env)
    ev.effect({"k": "Block", **loop["body"]} if "k" not in loop["body"] else loop["body"], e1, 0)
    exits = []
    for conds, val in ev.returns:
        exits.append((conds, val))
    for conds, benv in ev.breaks:
        ev2 = sym.Eval(fx, inline_depth=0)
        ev2.names = dict(ev.names)
        be = dict(benv)
        for st in post:
            ev2.stmt(st, be, 0)
        exits.append((conds, ev2.expr(tail, be, 0) if tail is not None else ("unit",)))
    eq = ("cond", ("bin", "Eq") + tuple(sorted((SELF, A(SELF)), key=repr)), True)
    ok_exit = bool(exits)
    detail = []
    for conds, val in exits:
        ts = []
        for c, pol in conds:
            ts += leaves.cond_tests(c, pol) or [("dead",)]
        val = leaves.norm(leaves.strip_acc(val))
        detail.append((list(map(str, ts)), sym.pretty(val)[:80]))
        if eq not in ts or val not in (SELF, A(SELF)):
            ok_exit = False
    ctx.add("FIXPOINT", "loop", ok_exit, site, "every way out of the loop is taken only when x == x.apply(f) and yields x or x.apply(f) (first iteration, x = self): %s" % detail)
    # state after one iteration = initial state shifted by one application
    shifted = {i_: leaves.replace(leaves.norm(t), {SELF: A(SELF)}) for i_, t in s0.items()}
    after = {}
    for i_ in carried:
        t = e1.get(i_)
        # the value on the path that stays in the loop: drop the exit paths (the equality holds there)
        cand = [x for ts, x in leaves.leaves(t) if eq not in ts] if isinstance(t, tuple) else [t]
        after[i_] = [leaves.norm(leaves.strip_acc(x)) for x in cand]
    ok_shift = bool(carried) and all(after[i_] == [shifted[i_]] for i_ in carried)
    ctx.add("FIXPOINT", "init", bool(carried) and all(leaves.norm(t) in (SELF, A(SELF)) for t in s0.values()), site,
            "the loop state starts from self (and self.apply(f)): %s" % {ev.names.get(i_, i_): sym.pretty(t)[:60] for i_, t in s0.items()})
    ctx.add("FIXPOINT", "result", ok_shift, site, "one iteration turns the state S(self) into S(self.apply(f)), so iteration k is iteration 0 on apply^k(self): %s" % {
        ev.names.get(i_, i_): [sym.pretty(x)[:70] for x in after[i_]] for i_ in carried})
    eq_ = [i for i in fx.impls if i["self_ty"] == "syntax_tree::fol::sigma_0::Formula" and i.get("trait", "").endswith("cmp::PartialEq") and i["from_expansion"]]
    ctx.add("FIXPOINT", "structural-equality", len(eq_) == 1, "src/syntax_tree/fol/sigma_0.rs", "Formula equality is the derived structural equality")


def rule_det3(ctx):
    from . import c20
    sub = type(ctx)(ctx.prop, ctx.tier, ctx.facts)
    c20.rule_det3(sub)
    ctx.obls.extend(sub.obls)


def rule_rw3(ctx):
    try:
        from . import c07
    except ImportError:
        return
    sub = type(ctx)(ctx.prop, ctx.tier, ctx.facts)
    c07.rule_rw3(sub)
    ctx.obls.extend(sub.obls)


LOOP_TABLE = {
    "convenience::apply::Apply::apply_fixpoint": "the fixpoint iteration itself: it ends when a pass changes nothing (FIXPOINT:* decides its shape; that every portfolio reaches a fixpoint is not decided)",
}
PROGRESS_CALL = re.compile(r"::(next|next_back|pop|pop_front|pop_back|recv|recv_timeout|try_recv|remove|swap_remove|shift_remove|drain|truncate|read_line|read|nth|advance_by)$")


_LOCAL = re.compile(r"_(\d+)\b")


def _tested_state_changes(blocks, succ, body, m):
    """True when some exit test of the loop `body` depends on a local that is live into the loop and written inside it (assigned, or borrowed
    `&mut` and passed to a call), or on the result of a progress call (next / pop / recv ..) made inside it; False when no exit test does;
    None when the loop has no exit test inside (e.g. it is left by `return` / `?` only through calls we do not follow)."""
    defs_in, defs_out = {}, set(range(0, (m.get("arg_count") or 0) + 1))
    for i, b in blocks.items():
        for st in b.get("stmts", []):
            if st.get("dst") is None:
                continue
            if i in body:
                defs_in.setdefault(st["dst"], []).append(("stmt", st.get("rv", "")))
            else:
                defs_out.add(st["dst"])
        t = b["term"]
        if t.get("t") == "Call" and t.get("dst") is not None:
            if i in body:
                defs_in.setdefault(t["dst"], []).append(("call", t))
            else:
                defs_out.add(t["dst"])
    # locals written in the loop: assigned, or `&mut` borrowed (directly or through a reborrow) and handed to a call
    written = set(defs_in)
    mut_of = {}
    for i in body:
        for st in blocks[i].get("stmts", []):
            rv = st.get("rv", "")
            mm = re.match(r"&mut (?:\(\*)?_(\d+)", rv)
            if mm and st.get("dst") is not None:
                mut_of[st["dst"]] = int(mm.group(1))

    def root_of(x, seen=()):
        while x in mut_of and x not in seen:
            seen = seen + (x,)
            x = mut_of[x]
        return x
    for i in body:
        t = blocks[i]["term"]
        if t.get("t") == "Call":
            for a in t.get("args") or []:
                if isinstance(a, dict) and a.get("local") in mut_of:
                    written.add(root_of(a["local"]))
    tests = [i for i in body if blocks[i]["term"].get("t") == "SwitchInt" and any(s_ not in body for s_ in succ[i]) and any(s_ in body for s_ in succ[i])]
    if not tests:
        return None
    for i in tests:
        d = blocks[i]["term"].get("discr") or {}
        start = d.get("local")
        if start is None:
            return True
        seen, todo = set(), [start]
        while todo:
            x = todo.pop()
            if x in seen:
                continue
            seen.add(x)
            for kind, what in defs_in.get(x, []):
                if kind == "stmt":
                    todo += [int(n_) for n_ in _LOCAL.findall(what)]
                else:
                    if PROGRESS_CALL.search(what.get("callee_res") or what.get("callee") or ""):
                        return True
                    todo += [a["local"] for a in what.get("args") or [] if isinstance(a, dict) and "local" in a]
        carried = {x for x in seen if x in defs_out}
        if carried & written:
            return True
    return False


def rule_loop_progress(ctx):
    """LOOP-PROGRESS (MIR): in every loop of the crate, every cycle from the loop header back to itself executes a progress step - an
    iterator / queue advance (`next`, `pop`, `recv`, ..) or a counter update (checked add / sub).  A cycle without one re-tests the same state
    forever (the `while taken.contains(&candidate)` searches for fresh names are the instances that matter here)."""
    from .. import callgraph
    fx = ctx.facts
    cg = callgraph.CallGraph(fx)
    n_loops = 0
    for dp, m in sorted(cg.mir.items()):
        if not m["file"].startswith("src/") or "::tests::" in dp:
            continue
        blocks = {b["id"]: b for b in m["blocks"] if not b.get("cleanup")}
        succ = {i: [s_ for s_ in (b["term"].get("succ") or []) if s_ in blocks] for i, b in blocks.items()}
        idom = {i: b.get("idom") for i, b in blocks.items()}
        pred = {}
        for a, ss in succ.items():
            for t in ss:
                pred.setdefault(t, []).append(a)

        def dominates(a, b_):
            cur, seen = b_, set()
            while cur is not None and cur not in seen:
                if cur == a:
                    return True
                seen.add(cur)
                nxt = idom.get(cur)
                if nxt == cur:
                    break
                cur = nxt
            return False

        ARITH = re.compile(r"(?:(?:Add|Sub)WithOverflow|\bAdd|\bSub)\((?:copy|move) _(\d+)")
        # a counter update is `x = x +/- c`: the sum must be stored back into the local it was computed from (a shadowing
        # `let m = m + 1;` computes a sum but leaves the tested variable as it was)
        all_stmts = [st for b2 in blocks.values() for st in b2.get("stmts", [])]

        def stored_back(st):
            mm = ARITH.search(st.get("rv", ""))
            if not mm:
                return False
            x, d = int(mm.group(1)), st.get("dst")
            if d == x:
                return True
            pat = re.compile(r"\b_%s\b" % d)
            return any(s2.get("dst") == x and pat.search(s2.get("rv", "")) for s2 in all_stmts)

        def progress(b_):
            for st in b_.get("stmts", []):
                if stored_back(st):
                    return True
            t = b_["term"]
            return t.get("t") == "Call" and bool(PROGRESS_CALL.search(t.get("callee_res") or t.get("callee") or ""))
        headers = {}
        for u, ss in succ.items():
            for h in ss:
                if dominates(h, u):
                    headers.setdefault(h, []).append(u)
        for h, latches in sorted(headers.items()):
            n_loops += 1
            body = {h} | set(latches)
            todo = list(latches)
            while todo:
                x = todo.pop()
                if x == h:
                    continue
                for p_ in pred.get(x, []):
                    if p_ not in body:
                        body.add(p_)
                        todo.append(p_)
            stuck = False
            if not progress(blocks[h]):
                seen, todo = {h}, [h]
                while todo and not stuck:
                    x = todo.pop()
                    for s_ in succ[x]:
                        if s_ == h and x in body:
                            stuck = True
                            break
                        if s_ in body and s_ not in seen and not progress(blocks[s_]):
                            seen.add(s_)
                            todo.append(s_)
            owner = dp.split("::{closure")[0]
            if not stuck and owner not in LOOP_TABLE:
                # the state an exit test looks at must be changed somewhere in the loop: a search `while taken.contains(&candidate)` whose body
                # builds the next candidate into a *new* local (a shadowing `let mut candidate`) counts and formats forever
                verdict = _tested_state_changes(blocks, succ, body, m)
                if verdict is False:
                    ctx.bad("LOOP-PROGRESS", "%s:tested-state" % hq.last(owner, 2), "%s:%s" % (m["file"], blocks[h]["term"].get("line")),
                            "no exit test of this loop reads anything the loop changes: the variables it tests are assigned (or handed out as &mut) nowhere in the loop body")
            if stuck and owner in LOOP_TABLE:
                ctx.ok("LOOP-PROGRESS", "%s:exempt" % hq.last(owner, 2), "%s:%s" % (m["file"], blocks[h]["term"].get("line")), LOOP_TABLE[owner], nontrivial=False)
            elif stuck:
                ctx.bad("LOOP-PROGRESS", "%s" % hq.last(owner, 2), "%s:%s" % (m["file"], blocks[h]["term"].get("line")),
                        "a cycle of this loop makes no progress: no iterator / queue advance and no counter update between two tests of the loop condition")
    ctx.count("loops_analysed", n_loops)
    ctx.add("LOOP-PROGRESS", "loops-found", n_loops >= 20, "", "%d loops analysed in the crate's MIR" % n_loops, nontrivial=False)


# portfolio members that are not `pattern => template` schemas: the termination argument of each was read, not computed
TERM_TABLE = {
    "evaluate_comparisons": "replaces a comparison of two numerals / identical terms by a truth constant, splits a chain of n guards into n binary comparisons (chains of length 1 are left alone)",
    "remove_orphaned_variables": "removes quantified variables that do not occur in the body: the number of quantified variables drops",
    "remove_empty_quantifications": "removes a quantifier without variables: one node less",
    "join_nested_quantifiers": "merges two nested quantifiers of the same kind: one node less",
    "substitute_defined_variables": "eliminates an existentially quantified variable that has a definition: one bound variable less",
    "restrict_quantifier_domain": "turns a general variable into an integer one: the number of general variables drops",
    "extend_quantifier_scope": "moves a quantifier outwards over a conjunct that does not mention its variables: the sum of quantifier depths drops",
    "simplify_transitive_equality": "drops one of two equalities that define the same variable: one conjunct less",
}


def rule_termination(ctx):
    """TERM: every member of a portfolio that is a schema `pattern => template` strictly decreases the measure (number of nodes, number of
    reverse implications) lexicographically - no metavariable is duplicated, the template is smaller, or equally large with fewer `<-` - or
    leaves the formula unchanged; so does every finite composition, and apply_fixpoint stops.  Members that are not schemas must be in
    TERM_TABLE (argument reviewed by hand); a new member of either kind that does neither is reported."""
    from .. import rw
    from . import c07
    fx = ctx.facts
    pf = c07.portfolios(fx)

    def size(s_):
        k = s_[0]
        if k == "not":
            return 1 + size(s_[1])
        if k == "bin":
            return 1 + size(s_[2]) + size(s_[3])
        return 1

    def rimps(s_):
        k = s_[0]
        if k == "not":
            return rimps(s_[1])
        if k == "bin":
            return (1 if s_[1] == "rimp" else 0) + rimps(s_[2]) + rimps(s_[3])
        return 0

    def count(s_, acc):
        k = s_[0]
        if k == "var":
            acc[s_[1]] = acc.get(s_[1], 0) + 1
        elif k == "not":
            count(s_[1], acc)
        elif k == "bin":
            count(s_[2], acc)
            count(s_[3], acc)
        return acc
    seen = set()
    n = 0
    for name, ps in pf.items():
        for p in ps:
            if p in seen:
                continue
            seen.add(p)
            if p not in fx.bodies:
                ctx.bad("TERM", "member:" + hq.last(p), "", "portfolio member %s is not a function of the crate" % p)
                continue
            b = fx.bodies[p][0]
            try:
                rules = rw.rules_of_fn(b)
            except rw.NotSchematic as e:
                ctx.add("TERM", "table:" + b["name"], b["name"] in TERM_TABLE, ctx.site(b),
                        "non-schematic member of %s: %s" % (name, TERM_TABLE.get(b["name"], "no reviewed termination argument for this rewrite (%s)" % e)), nontrivial=False)
                continue
            for lab, l, r, eqs in rules:
                try:
                    l2, r2 = rw.unify_equalities(l, r, eqs)
                except rw.NotSchematic as e:
                    ctx.gap("TERM", "%s:%s" % (b["name"], lab), ctx.site(b), str(e))
                    continue
                n += 1
                cl, cr = count(l2, {}), count(r2, {})
                nodup = all(cr[v] <= cl.get(v, 0) for v in cr)
                ok = l2 == r2 or (nodup and (size(r2) < size(l2) or (size(r2) == size(l2) and rimps(r2) < rimps(l2))))
                ctx.add("TERM", "%s:%s" % (b["name"], lab), ok, ctx.site(b),
                        "%s  =>  %s: %s" % (rw.show(l2), rw.show(r2), "identity" if l2 == r2 else "size %d -> %d, reverse implications %d -> %d, no metavariable duplicated: %s" % (
                            size(l2), size(r2), rimps(l2), rimps(r2), nodup)))
    ctx.floor("TERM", "schematic_rules", n, 10)


def rule_fixpoint_strategy_shared(ctx):
    """`--strategy fixpoint` promises a result no rule of the portfolio changes any more: the command handler must run apply_fixpoint for it
    (and a single pass for the other strategies) - C07's strategy dispatch obligations"""
    from . import c07
    sub = type(ctx)(ctx.prop, ctx.tier, ctx.facts)
    c07.rule_strategy(sub)
    ctx.obls.extend(sub.obls)


RULES = [rule_det1, rule_det2, rule_det3, rule_fixpoint, rule_rw3, rule_termination, rule_loop_progress, rule_fixpoint_strategy_shared]
