"""C05 — gamma reduces here-and-there satisfaction to classical satisfaction."""
from ..facts import AnalysisGap, walk
from .. import hq, sym

EXPLANATION = (
    "TPL: `Gamma for Formula` is evaluated to one term per match arm and compared with the published definition of gamma (Pearce 2004, as used by "
    "Heuer 2023): atomic -> here; not F -> not there(F); and/or homomorphic with gamma on both sides; ->, <-, <-> -> (gamma F o gamma G) and "
    "(there F o there G) with the same connective o; quantifiers homomorphic with the quantification unchanged. TAB-DISPATCH: the match has no "
    "wildcard arm and its patterns cover all connectives of the enums. Apply::apply is a complete post-order traversal (all four formula "
    "variants, both children of a binary formula, f applied to the rebuilt node). FRESH-LIT(ii): here/there are prepend_predicate with two "
    "different literal prefixes, inserted at index 0 of the predicate symbol of every atom and of nothing else, so the two copies of a predicate "
    "are distinct and the renaming is a total injective map per world. With these two facts the property follows by induction on the formula "
    "from the cited definition; the induction itself is the literature's. SHARED: gamma's result reaches the user as text - the default printer's precedence and dispatch obligations (C15) run here too.")
UNDECIDED = ["the induction proof that the definition of gamma has the stated semantics (literature)",
             "a user predicate whose name already starts with h/t colliding with a copy, e.g. p/1 and hp/1 with tp/1 (namespace overlap, C09)"]
ASSUMPTIONS = ["Pearce's gamma characterises HT satisfaction over (H,T) with H subset of T"]

F = "syntax_tree::fol::sigma_0::Formula"
SELF = ("param", "self")


def P(*path):
    return ("proj", SELF, tuple(path))


def G(x):
    return ("call", "Gamma::gamma", (x,))


def T(x):
    return ("call", "There::there", (x,))


UF, BF, QFm = "Formula::UnaryFormula", "Formula::BinaryFormula", "Formula::QuantifiedFormula"


def bin_(conn, l, r):
    return ("ctor", BF, (("connective", conn), ("lhs", l), ("rhs", r)))


CONN = P((BF, "connective"))
L, R = P((BF, "lhs")), P((BF, "rhs"))
REF = {
    "Formula::AtomicFormula(_)": ("call", "Here::here", (SELF,)),
    "Formula::UnaryFormula{connective: UnaryConnective::Negation}": ("ctor", UF, (("connective", P((UF, "connective"))), ("formula", T(P((UF, "formula")))))),
    "Formula::BinaryFormula{connective: BinaryConnective::Conjunction | BinaryConnective::Disjunction}": bin_(CONN, G(L), G(R)),
    "Formula::BinaryFormula{connective: BinaryConnective::Equivalence | BinaryConnective::Implication | BinaryConnective::ReverseImplication}":
        bin_(("ctor", "BinaryConnective::Conjunction", ()), bin_(CONN, G(L), G(R)), bin_(CONN, T(L), T(R))),
    "Formula::QuantifiedFormula{}": ("ctor", QFm, (("formula", G(P((QFm, "formula")))), ("quantification", P((QFm, "quantification"))))),
}


def rule_gamma(ctx):
    """One specialisation of gamma per constructor of Formula (and per connective): the result must be the published clause, however the
    match is written (merged arms, inner matches on the connective, helper functions for the two-world case are all transparent)."""
    fx = ctx.facts
    b = fx.fn("gamma", impl_self=F)
    site = ctx.site(b)
    S_ = "syntax_tree::fol::sigma_0::"

    def ev(arg):
        return sym.Eval(fx, inline_depth=0).function(b, [arg])

    def c(name, **f):
        return ("ctor", name, tuple(sorted(f.items())))
    PL, PR, PF, PQ, PA = ("param", "$l"), ("param", "$r"), ("param", "$f"), ("param", "$q"), ("param", "$a")
    # atomic
    at = c("Formula::AtomicFormula", **{"0": PA})
    ctx.add("TPL", "gamma:atomic", ev(at) == ("call", "Here::here", (at,)), site, "gamma(atomic) = here(atomic)", construct=ev(at))
    # negation
    uns = fx.variants(S_ + "UnaryConnective")
    ctx.add("TAB-DISPATCH", "gamma:unary-connectives", uns == ["Negation"], site, "negation is the only unary connective")
    for u in uns:
        conn = c("UnaryConnective::" + u)
        v = ev(c(UF, connective=conn, formula=PF))
        ctx.add("TPL", "gamma:negation", v == c(UF, connective=conn, formula=T(PF)), site, "gamma(not F) = not there(F)", construct=v)
    # binary connectives
    bins = fx.variants(S_ + "BinaryConnective")
    both = {"Conjunction", "Disjunction"}
    two_worlds = {"Implication", "ReverseImplication", "Equivalence"}
    ctx.add("TAB-DISPATCH", "gamma:binary-connectives", set(bins) == both | two_worlds, site, "binary connectives: %s" % sorted(bins))
    for k in bins:
        conn = c("BinaryConnective::" + k)
        v = ev(c(BF, connective=conn, lhs=PL, rhs=PR))
        if k in both:
            ref = bin_(conn, G(PL), G(PR))
            what = "gamma(F %s G) = gamma(F) %s gamma(G)" % (k, k)
        else:
            ref = bin_(("ctor", "BinaryConnective::Conjunction", ()), bin_(conn, G(PL), G(PR)), bin_(conn, T(PL), T(PR)))
            what = "gamma(F %s G) = (gamma(F) %s gamma(G)) and (there(F) %s there(G))" % (k, k, k)
        ctx.add("TPL", "gamma:%s" % ("and-or" if k in both else "implications") + ":" + k, v == ref, site, what, construct=v)
    # quantifiers
    v = ev(c(QFm, quantification=PQ, formula=PF))
    ctx.add("TPL", "gamma:quantifier", v == c(QFm, formula=G(PF), quantification=PQ), site, "gamma(Q X F) = Q X gamma(F)", construct=v)
    ctx.add("TAB-DISPATCH", "gamma:formula-variants", sorted(fx.variants(S_ + "Formula")) == ["AtomicFormula", "BinaryFormula", "QuantifiedFormula", "UnaryFormula"], site,
            "constructors of Formula: %s" % fx.variants(S_ + "Formula"))
    th = fx.fn("gamma", impl_self="syntax_tree::fol::sigma_0::Theory")
    vt = sym.Eval(fx, inline_depth=0).function(th)
    ctx.add("TPL", "gamma:theory", vt == ("call", "Iterator::map", (SELF, ("fn", "gamma"))) or vt == ("call", "Iterator::map", (SELF, ("fn", "Gamma::gamma"))), ctx.site(th),
            "gamma of a theory maps gamma over every formula", construct=vt)


def _unbox(t):
    if not isinstance(t, tuple):
        return t
    if t[:2] in (("call", "Box::new"), ("call", "Into::into"), ("call", "From::from")) and len(t[2]) == 1:
        return _unbox(t[2][0])
    if t[:1] == ("conv",) and len(t) == 3:
        return _unbox(t[2])
    return tuple(_unbox(x) for x in t)


def rule_apply(ctx):
    fx = ctx.facts
    b = fx.fn("apply", impl_self=F)
    # decided per kind of node: the node is rebuilt from its recursively transformed children (in the order lhs, rhs), then f is applied to it
    from ..leaves import norm as _norm
    fpar = ("param", "$f")

    def A(x):
        return ("call", "Apply::apply", (x, fpar))
    cases = {
        "AtomicFormula": (("ctor", "Formula::AtomicFormula", (("0", ("param", "$a")),)), ("ctor", "Formula::AtomicFormula", (("0", ("param", "$a")),))),
        "UnaryFormula": (("ctor", UF, (("connective", ("param", "$u")), ("formula", ("param", "$g")))), ("ctor", UF, (("connective", ("param", "$u")), ("formula", A(("param", "$g")))))),
        "BinaryFormula": (("ctor", BF, (("connective", ("param", "$c")), ("lhs", ("param", "$l")), ("rhs", ("param", "$r")))),
                          ("ctor", BF, (("connective", ("param", "$c")), ("lhs", A(("param", "$l"))), ("rhs", A(("param", "$r")))))),
        "QuantifiedFormula": (("ctor", QFm, (("formula", ("param", "$g")), ("quantification", ("param", "$q")))), ("ctor", QFm, (("formula", A(("param", "$g"))), ("quantification", ("param", "$q"))))),
    }
    if set(fx.variants(F)) != set(cases):
        raise AnalysisGap("Formula has constructors the case analysis of Apply::apply does not know: %s" % sorted(fx.variants(F)))
    got = {}
    for k_, (node_, want_) in cases.items():
        r_ = _norm(sym.Eval(fx, inline_depth=0).function(b, [node_, fpar]))
        # Box::new(x) / x.into() are the same boxing of a child
        r_ = _unbox(r_)
        got[k_] = r_ == ("callv", fpar, (want_,))
    v = got
    ctx.add("TPL", "apply:post-order", all(got.values()), ctx.site(b), "Apply::apply rebuilds every variant from its recursively transformed children and then applies f to the node", construct=got)
    af = fx.fn("Apply::apply_fixpoint")
    v2 = sym.Eval(fx, inline_depth=0).function(af)
    ctx.add("TPL", "apply:fixpoint-uses-apply", "Apply::apply" in repr(v2), ctx.site(af), "apply_fixpoint iterates Apply::apply", nontrivial=False)


def rule_prefix(ctx):
    """here() / there(): every atom of the formula gets the world's prefix in front of its predicate symbol, nothing else changes.  Anchored on
    the two trait methods; the private helpers of gamma.rs they go through (one that walks the formula, or one that rewrites a single node
    handed to Apply::apply) are evaluated in place, so how the work is split between them does not matter."""
    fx = ctx.facts
    GAMMA = "translating::classical_reduction::gamma::"
    bodies = {name: fx.fn(name, impl_self=F) for name in ("here", "there")}

    def transformer(name, arg):
        """the node transformer that `name` hands to Apply::apply, specialised on the node `arg`"""
        ev = sym.Eval(fx, inline_depth=3, inline=lambda dp: dp.startswith(GAMMA) and not dp.endswith("::gamma"))
        ev.closure_args = [[arg]]
        t = ev.function(bodies[name], [SELF])
        if t[:2] != ("call", "Apply::apply") or t[2][0] != SELF:
            return None, t
        f = t[2][1]
        return (f[2], t) if f[0] == "closure" else (None, t)
    ATOM = ("ctor", "Atom", (("predicate_symbol", ("param", "$p")), ("terms", ("param", "$ts"))))
    node = ("ctor", "Formula::AtomicFormula", (("0", ("ctor", "AtomicFormula::Atom", (("0", ATOM),))),))
    from ..leaves import norm as _norm

    def prefix_of(t):
        """the literal put in front of the predicate symbol when t is the atom node with that prefix (by insert_str(0, ..) or by
        format!("{prefix}{symbol}")) and nothing else changed; None otherwise"""
        if t is None:
            return None
        nt = _norm(t)
        for x in sym.subterms(nt):
            if isinstance(x, tuple) and x[:2] == ("format", "{}{}") and len(x[2]) == 2 and x[2][1] == ("param", "$p") and x[2][0][:1] == ("lit",):
                built = ("ctor", "Formula::AtomicFormula", (("0", ("ctor", "AtomicFormula::Atom", (("0", ("ctor", "Atom", (("predicate_symbol", x), ("terms", ("param", "$ts"))))),))),))
                return x[2][0][1] if nt == built else None
        ups = [x for x in sym.subterms(t) if isinstance(x, tuple) and x[:1] == ("upd",) and str(x[2]).startswith("insert_str")]
        if len(ups) != 1 or len(ups[0][3]) != 2 or ups[0][3][0] != ("lit", 0) or ups[0][3][1][:1] != ("lit",):
            return None

        def strip_upd(x):
            if isinstance(x, tuple) and x and x[0] == "upd" and str(x[2]).startswith("insert_str"):
                return strip_upd(x[1])
            if isinstance(x, tuple):
                return tuple(strip_upd(y) for y in x)
            return x
        return ups[0][3][1][1] if strip_upd(t) == node else None
    pre, got = {}, {}
    for name in ("here", "there"):
        got[name], _ = transformer(name, node)
        pre[name] = prefix_of(got[name])
    site = ctx.site(bodies["here"])
    ctx.add("FRESH-LIT", "prepend:every-atom", all(isinstance(pre[n_], str) for n_ in pre), site,
            "the transformer applied by here / there (through Apply::apply, i.e. to every node) puts the prefix in front of an atom's predicate symbol and keeps its terms", construct=got)
    others = {
        "truth": ("ctor", "Formula::AtomicFormula", (("0", ("ctor", "AtomicFormula::Truth", ())),)),
        "comparison": ("ctor", "Formula::AtomicFormula", (("0", ("ctor", "AtomicFormula::Comparison", (("0", ("param", "$c")),))),)),
        "negation": ("ctor", UF, (("connective", ("param", "$u")), ("formula", ("param", "$f")))),
        "binary": ("ctor", BF, (("connective", ("param", "$b")), ("lhs", ("param", "$l")), ("rhs", ("param", "$r")))),
        "quantified": ("ctor", QFm, (("formula", ("param", "$f")), ("quantification", ("param", "$q")))),
    }
    for nm, n_ in others.items():
        gs = [_norm(transformer(name, n_)[0]) if transformer(name, n_)[0] is not None else None for name in ("here", "there")]
        ctx.add("FRESH-LIT", "prepend:unchanged:" + nm, all(g_ == n_ for g_ in gs), site, "a %s node is returned unchanged by the transformer (its children are visited by Apply::apply)" % nm,
                construct=gs)
    for name in ("here", "there"):
        ctx.add("FRESH-LIT", "prefix:" + name, isinstance(pre[name], str) and len(pre[name]) > 0, ctx.site(bodies[name]), "%s puts %r in front of every predicate symbol" % (name, pre[name]))
    a, bb = pre.get("here"), pre.get("there")
    ok = isinstance(a, str) and isinstance(bb, str) and a != bb and not a.startswith(bb) and not bb.startswith(a)
    ctx.add("FRESH-LIT", "prefix:distinct", ok, "src/translating/classical_reduction/gamma.rs",
            "the h- and t-prefix are different and neither is a prefix of the other, so hp and tq are different symbols for all p, q of equal ... and hp = tp never: %r / %r" % (a, bb))
    # the private helpers of gamma.rs that do the renaming serve here / there only
    helpers = sorted(dp for dp in fx.bodies if dp.startswith(GAMMA) and "::tests" not in dp and "{" not in dp and dp.split("::")[-1] not in ("gamma",)
                     and any("insert_str" in str(n.get("method", "")) or (n.get("mac") == "format") for n in walk(fx.bodies[dp][0]["body"])))
    callers = sorted({x["def_path"] for x in fx.body_list for h in helpers for n in hq.calls(x["body"], h)} - set(helpers))
    ctx.add("FRESH-LIT", "prepend:callers", all(c.endswith(("::here", "::there")) for c in callers), "src/translating/classical_reduction/gamma.rs",
            "the renaming helpers %s are used only by here and there: %s" % ([h.split("::")[-1] for h in helpers], callers))


def rule_printed_as_read(ctx):
    """gamma's result reaches the user as text (`translate --with gamma`): the default printer must put parentheses wherever the grammar
    would otherwise read another formula (C15's precedence and dispatch obligations)"""
    from . import c15
    sub = type(ctx)(ctx.prop, ctx.tier, ctx.facts)
    c15.rule_precedence(sub)
    c15.rule_dispatch(sub)
    ctx.obls.extend(o for o in sub.obls if o["key"].startswith("PRN-P:"))


RULES = [rule_gamma, rule_apply, rule_prefix, rule_printed_as_read]
