"""C05 — gamma reduces here-and-there satisfaction to classical satisfaction."""
from ..facts import AnalysisGap
from .. import hq, sym

EXPLANATION = (
    "TPL: `Gamma for Formula` is evaluated to one term per match arm and compared with the published definition of gamma (Pearce 2004, as used by "
    "Heuer 2023): atomic -> here; not F -> not there(F); and/or homomorphic with gamma on both sides; ->, <-, <-> -> (gamma F o gamma G) and "
    "(there F o there G) with the same connective o; quantifiers homomorphic with the quantification unchanged. TAB-DISPATCH: the match has no "
    "wildcard arm and its patterns cover all connectives of the enums. Apply::apply is a complete post-order traversal (all four formula "
    "variants, both children of a binary formula, f applied to the rebuilt node). FRESH-LIT(ii): here/there are prepend_predicate with two "
    "different literal prefixes, inserted at index 0 of the predicate symbol of every atom and of nothing else, so the two copies of a predicate "
    "are distinct and the renaming is a total injective map per world. With these two facts the property follows by induction on the formula "
    "from the cited definition; the induction itself is the literature's.")
UNDECIDED = ["the induction proof that the definition of gamma has the stated semantics (literature)",
             "a user predicate whose name already starts with h/t colliding with a copy, e.g. p/1 and hp/1 with tp/1 (namespace overlap, C09)"]
ASSUMPTIONS = ["Pearce's gamma characterises HT satisfaction over (H,T) with H subset of T"]

F = "syntax_tree::fol::sigma_0::Formula"
SELF = ("param", "self")


def P(*path):
    return ("proj", SELF, tuple(path))


def G(x):
    return ("call", "Gamma::gamma", (x,))


def T(x):
    return ("call", "There::there", (x,))


UF, BF, QFm = "Formula::UnaryFormula", "Formula::BinaryFormula", "Formula::QuantifiedFormula"


def bin_(conn, l, r):
    return ("ctor", BF, (("connective", conn), ("lhs", l), ("rhs", r)))


CONN = P((BF, "connective"))
L, R = P((BF, "lhs")), P((BF, "rhs"))
REF = {
    "Formula::AtomicFormula(_)": ("call", "Here::here", (SELF,)),
    "Formula::UnaryFormula{connective: UnaryConnective::Negation}": ("ctor", UF, (("connective", P((UF, "connective"))), ("formula", T(P((UF, "formula")))))),
    "Formula::BinaryFormula{connective: BinaryConnective::Conjunction | BinaryConnective::Disjunction}": bin_(CONN, G(L), G(R)),
    "Formula::BinaryFormula{connective: BinaryConnective::Equivalence | BinaryConnective::Implication | BinaryConnective::ReverseImplication}":
        bin_(("ctor", "BinaryConnective::Conjunction", ()), bin_(CONN, G(L), G(R)), bin_(CONN, T(L), T(R))),
    "Formula::QuantifiedFormula{}": ("ctor", QFm, (("formula", G(P((QFm, "formula")))), ("quantification", P((QFm, "quantification"))))),
}


def rule_gamma(ctx):
    fx = ctx.facts
    b = fx.fn("gamma", impl_self=F)
    site = ctx.site(b)
    v = sym.Eval(fx, inline_depth=0).function(b)
    if v[0] != "match" or v[1] != SELF:
        raise AnalysisGap("Gamma for Formula is not a match on self")
    got = {a[0]: a[-1] for a in v[2]}
    guards = [a for a in v[2] if len(a) == 3]
    ctx.add("TAB-DISPATCH", "gamma:no-wildcard", "_" not in got and not guards, site, "no wildcard / guarded arm: %d arms" % len(got))
    # coverage of the connective enums by the arm patterns
    covered = set()
    for k in got:
        for c in fx.variants("syntax_tree::fol::sigma_0::BinaryConnective"):
            if "BinaryConnective::" + c in k:
                covered.add(c)
    ctx.add("TAB-DISPATCH", "gamma:binary-connectives", covered == set(fx.variants("syntax_tree::fol::sigma_0::BinaryConnective")), site, "all binary connectives have an arm: %s" % sorted(covered))
    ctx.add("TAB-DISPATCH", "gamma:unary-connectives", fx.variants("syntax_tree::fol::sigma_0::UnaryConnective") == ["Negation"], site, "negation is the only unary connective")
    names = {"Formula::AtomicFormula(_)": "atomic", "Formula::UnaryFormula{connective: UnaryConnective::Negation}": "negation",
             "Formula::BinaryFormula{connective: BinaryConnective::Conjunction | BinaryConnective::Disjunction}": "and-or",
             "Formula::BinaryFormula{connective: BinaryConnective::Equivalence | BinaryConnective::Implication | BinaryConnective::ReverseImplication}": "implications",
             "Formula::QuantifiedFormula{}": "quantifier"}
    for k, ref in REF.items():
        ctx.add("TPL", "gamma:" + names[k], got.get(k) == ref, site, "arm `%s` builds the published clause" % names[k], construct=got.get(k))
    ctx.add("TPL", "gamma:arms", sorted(got) == sorted(REF), site, "exactly the five clauses of the definition")
    th = fx.fn("gamma", impl_self="syntax_tree::fol::sigma_0::Theory")
    vt = sym.Eval(fx, inline_depth=0).function(th)
    ctx.add("TPL", "gamma:theory", vt == ("call", "Iterator::map", (SELF, ("fn", "gamma"))) or vt == ("call", "Iterator::map", (SELF, ("fn", "Gamma::gamma"))), ctx.site(th),
            "gamma of a theory maps gamma over every formula", construct=vt)


def rule_apply(ctx):
    fx = ctx.facts
    b = fx.fn("apply", impl_self=F)
    v = sym.Eval(fx, inline_depth=0).function(b)
    fpar = ("param", "f")

    def A(x):
        return ("call", "Apply::apply", (x, fpar))

    ref = ("callv", fpar, (("match", SELF, (
        ("Formula::AtomicFormula(_)", SELF),
        ("Formula::UnaryFormula{}", ("ctor", UF, (("connective", P((UF, "connective"))), ("formula", A(P((UF, "formula"))))))),
        ("Formula::BinaryFormula{}", ("ctor", BF, (("connective", CONN), ("lhs", A(L)), ("rhs", A(R))))),
        ("Formula::QuantifiedFormula{}", ("ctor", QFm, (("formula", A(P((QFm, "formula")))), ("quantification", P((QFm, "quantification")))))),
    )),))
    ctx.add("TPL", "apply:post-order", v == ref, ctx.site(b), "Apply::apply rebuilds every variant from its recursively transformed children and then applies f to the node", construct=v)
    af = fx.fn("Apply::apply_fixpoint")
    v2 = sym.Eval(fx, inline_depth=0).function(af)
    ctx.add("TPL", "apply:fixpoint-uses-apply", "Apply::apply" in repr(v2), ctx.site(af), "apply_fixpoint iterates Apply::apply", nontrivial=False)


def rule_prefix(ctx):
    fx = ctx.facts
    pp = fx.fn("gamma::prepend_predicate")
    v = sym.Eval(fx, inline_depth=0).function(pp)
    atom = ("proj", ("param", "formula"), (("Formula::AtomicFormula", "0"), ("AtomicFormula::Atom", "0")))
    ref = ("call", "Apply::apply", (("param", "formula"), ("closure", ("formula",), ("match", ("param", "formula"), (
        ("Formula::AtomicFormula(AtomicFormula::Atom(_))", ("ctor", "Formula::AtomicFormula", (("0", ("ctor", "AtomicFormula::Atom", (
            ("0", ("upd", atom, "insert_str@predicate_symbol", (("lit", 0), ("param", "prefix")))),))),))),
        ("_", ("param", "formula")))))))
    ctx.add("FRESH-LIT", "prepend:every-atom", v == ref, ctx.site(pp),
            "prepend_predicate inserts the prefix at index 0 of the predicate symbol of every atom (via Apply::apply) and changes nothing else", construct=v)
    pre = {}
    for name in ("here", "there"):
        b = fx.fn(name, impl_self=F)
        t = sym.Eval(fx, inline_depth=0).function(b)
        ok = t[:2] == ("call", "gamma::prepend_predicate") and t[2][0] == SELF and t[2][1][0] == "lit"
        pre[name] = t[2][1][1] if ok else None
        ctx.add("FRESH-LIT", "prefix:" + name, ok and isinstance(pre[name], str) and len(pre[name]) > 0, ctx.site(b), "%s = prepend_predicate(self, %r)" % (name, pre[name]))
    a, bb = pre.get("here"), pre.get("there")
    ok = a is not None and bb is not None and a != bb and not a.startswith(bb) and not bb.startswith(a)
    ctx.add("FRESH-LIT", "prefix:distinct", ok, "src/translating/classical_reduction/gamma.rs",
            "the h- and t-prefix are different and neither is a prefix of the other, so hp and tq are different symbols for all p, q of equal ... and hp = tp never: %r / %r" % (a, bb))
    # who else calls prepend_predicate / here / there
    callers = sorted({x["def_path"] for x in fx.body_list for n in hq.calls(x["body"], "gamma::prepend_predicate")})
    ctx.add("FRESH-LIT", "prepend:callers", len(callers) == 2 and all(c.endswith(("::here", "::there")) for c in callers), "src/translating/classical_reduction/gamma.rs",
            "prepend_predicate is used only by here and there: %s" % callers)


RULES = [rule_gamma, rule_apply, rule_prefix]
