"""C05 — gamma reduces here-and-there satisfaction to classical satisfaction."""
from ..facts import AnalysisGap
from .. import hq, sym

EXPLANATION = (
    "TPL: `Gamma for Formula` is evaluated to one term per match arm and compared with the published definition of gamma (Pearce 2004, as used by "
    "Heuer 2023): atomic -> here; not F -> not there(F); and/or homomorphic with gamma on both sides; ->, <-, <-> -> (gamma F o gamma G) and "
    "(there F o there G) with the same connective o; quantifiers homomorphic with the quantification unchanged. TAB-DISPATCH: the match has no "
    "wildcard arm and its patterns cover all connectives of the enums. Apply::apply is a complete post-order traversal (all four formula "
    "variants, both children of a binary formula, f applied to the rebuilt node). FRESH-LIT(ii): here/there are prepend_predicate with two "
    "different literal prefixes, inserted at index 0 of the predicate symbol of every atom and of nothing else, so the two copies of a predicate "
    "are distinct and the renaming is a total injective map per world. With these two facts the property follows by induction on the formula "
    "from the cited definition; the induction itself is the literature's.")
UNDECIDED = ["the induction proof that the definition of gamma has the stated semantics (literature)",
             "a user predicate whose name already starts with h/t colliding with a copy, e.g. p/1 and hp/1 with tp/1 (namespace overlap, C09)"]
ASSUMPTIONS = ["Pearce's gamma characterises HT satisfaction over (H,T) with H subset of T"]

F = "syntax_tree::fol::sigma_0::Formula"
SELF = ("param", "self")


def P(*path):
    return ("proj", SELF, tuple(path))


def G(x):
    return ("call", "Gamma::gamma", (x,))


def T(x):
    return ("call", "There::there", (x,))


UF, BF, QFm = "Formula::UnaryFormula", "Formula::BinaryFormula", "Formula::QuantifiedFormula"


def bin_(conn, l, r):
    return ("ctor", BF, (("connective", conn), ("lhs", l), ("rhs", r)))


CONN = P((BF, "connective"))
L, R = P((BF, "lhs")), P((BF, "rhs"))
REF = {
    "Formula::AtomicFormula(_)": ("call", "Here::here", (SELF,)),
    "Formula::UnaryFormula{connective: UnaryConnective::Negation}": ("ctor", UF, (("connective", P((UF, "connective"))), ("formula", T(P((UF, "formula")))))),
    "Formula::BinaryFormula{connective: BinaryConnective::Conjunction | BinaryConnective::Disjunction}": bin_(CONN, G(L), G(R)),
    "Formula::BinaryFormula{connective: BinaryConnective::Equivalence | BinaryConnective::Implication | BinaryConnective::ReverseImplication}":
        bin_(("ctor", "BinaryConnective::Conjunction", ()), bin_(CONN, G(L), G(R)), bin_(CONN, T(L), T(R))),
    "Formula::QuantifiedFormula{}": ("ctor", QFm, (("formula", G(P((QFm, "formula")))), ("quantification", P((QFm, "quantification"))))),
}


def rule_gamma(ctx):
    """One specialisation of gamma per constructor of Formula (and per connective): the result must be the published clause, however the
    match is written (merged arms, inner matches on the connective, helper functions for the two-world case are all transparent)."""
    fx = ctx.facts
    b = fx.fn("gamma", impl_self=F)
    site = ctx.site(b)
    S_ = "syntax_tree::fol::sigma_0::"

    def ev(arg):
        return sym.Eval(fx, inline_depth=0).function(b, [arg])

    def c(name, **f):
        return ("ctor", name, tuple(sorted(f.items())))
    PL, PR, PF, PQ, PA = ("param", "$l"), ("param", "$r"), ("param", "$f"), ("param", "$q"), ("param", "$a")
    # atomic
    at = c("Formula::AtomicFormula", **{"0": PA})
    ctx.add("TPL", "gamma:atomic", ev(at) == ("call", "Here::here", (at,)), site, "gamma(atomic) = here(atomic)", construct=ev(at))
    # negation
    uns = fx.variants(S_ + "UnaryConnective")
    ctx.add("TAB-DISPATCH", "gamma:unary-connectives", uns == ["Negation"], site, "negation is the only unary connective")
    for u in uns:
        conn = c("UnaryConnective::" + u)
        v = ev(c(UF, connective=conn, formula=PF))
        ctx.add("TPL", "gamma:negation", v == c(UF, connective=conn, formula=T(PF)), site, "gamma(not F) = not there(F)", construct=v)
    # binary connectives
    bins = fx.variants(S_ + "BinaryConnective")
    both = {"Conjunction", "Disjunction"}
    two_worlds = {"Implication", "ReverseImplication", "Equivalence"}
    ctx.add("TAB-DISPATCH", "gamma:binary-connectives", set(bins) == both | two_worlds, site, "binary connectives: %s" % sorted(bins))
    for k in bins:
        conn = c("BinaryConnective::" + k)
        v = ev(c(BF, connective=conn, lhs=PL, rhs=PR))
        if k in both:
            ref = bin_(conn, G(PL), G(PR))
            what = "gamma(F %s G) = gamma(F) %s gamma(G)" % (k, k)
        else:
            ref = bin_(("ctor", "BinaryConnective::Conjunction", ()), bin_(conn, G(PL), G(PR)), bin_(conn, T(PL), T(PR)))
            what = "gamma(F %s G) = (gamma(F) %s gamma(G)) and (there(F) %s there(G))" % (k, k, k)
        ctx.add("TPL", "gamma:%s" % ("and-or" if k in both else "implications") + ":" + k, v == ref, site, what, construct=v)
    # quantifiers
    v = ev(c(QFm, quantification=PQ, formula=PF))
    ctx.add("TPL", "gamma:quantifier", v == c(QFm, formula=G(PF), quantification=PQ), site, "gamma(Q X F) = Q X gamma(F)", construct=v)
    ctx.add("TAB-DISPATCH", "gamma:formula-variants", sorted(fx.variants(S_ + "Formula")) == ["AtomicFormula", "BinaryFormula", "QuantifiedFormula", "UnaryFormula"], site,
            "constructors of Formula: %s" % fx.variants(S_ + "Formula"))
    th = fx.fn("gamma", impl_self="syntax_tree::fol::sigma_0::Theory")
    vt = sym.Eval(fx, inline_depth=0).function(th)
    ctx.add("TPL", "gamma:theory", vt == ("call", "Iterator::map", (SELF, ("fn", "gamma"))) or vt == ("call", "Iterator::map", (SELF, ("fn", "Gamma::gamma"))), ctx.site(th),
            "gamma of a theory maps gamma over every formula", construct=vt)


def rule_apply(ctx):
    fx = ctx.facts
    b = fx.fn("apply", impl_self=F)
    v = sym.Eval(fx, inline_depth=0).function(b)
    fpar = ("param", "f")

    def A(x):
        return ("call", "Apply::apply", (x, fpar))

    ref = ("callv", fpar, (("match", SELF, (
        ("Formula::AtomicFormula(_)", SELF),
        ("Formula::UnaryFormula{}", ("ctor", UF, (("connective", P((UF, "connective"))), ("formula", A(P((UF, "formula"))))))),
        ("Formula::BinaryFormula{}", ("ctor", BF, (("connective", CONN), ("lhs", A(L)), ("rhs", A(R))))),
        ("Formula::QuantifiedFormula{}", ("ctor", QFm, (("formula", A(P((QFm, "formula")))), ("quantification", P((QFm, "quantification")))))),
    )),))
    ctx.add("TPL", "apply:post-order", v == ref, ctx.site(b), "Apply::apply rebuilds every variant from its recursively transformed children and then applies f to the node", construct=v)
    af = fx.fn("Apply::apply_fixpoint")
    v2 = sym.Eval(fx, inline_depth=0).function(af)
    ctx.add("TPL", "apply:fixpoint-uses-apply", "Apply::apply" in repr(v2), ctx.site(af), "apply_fixpoint iterates Apply::apply", nontrivial=False)


def rule_prefix(ctx):
    fx = ctx.facts
    pp = fx.fn("gamma::prepend_predicate")
    # the node transformer handed to Apply::apply, specialised on one node of every kind (so that `match`, `if let`, or an extracted helper
    # that edits the atom in place all give the same result)
    def transformer(arg):
        ev = sym.Eval(fx, inline_depth=0)
        ev.closure_args = [[arg]]
        t = ev.function(pp, [("param", "$formula"), ("param", "$prefix")])
        if t[:2] != ("call", "Apply::apply") or t[2][0] != ("param", "$formula"):
            return None, t
        f = t[2][1]
        if f[0] == "closure":
            return f[2], t
        return None, t
    ATOM = ("ctor", "Atom", (("predicate_symbol", ("param", "$p")), ("terms", ("param", "$ts"))))
    node = ("ctor", "Formula::AtomicFormula", (("0", ("ctor", "AtomicFormula::Atom", (("0", ATOM),))),))
    got, whole = transformer(node)
    pref = ("upd", ("param", "$p"), "insert_str", (("lit", 0), ("param", "$prefix")))

    def prefixed(t):
        """t is the atom node with `insert_str(0, prefix)` applied to its predicate symbol (whichever way the update is recorded)"""
        if t is None:
            return False
        # the node rebuilt with `format!("{prefix}{symbol}")` as its symbol: the prefix in front, the terms as they were
        built = ("ctor", "Formula::AtomicFormula", (("0", ("ctor", "AtomicFormula::Atom", (("0", ("ctor", "Atom", (
            ("predicate_symbol", ("format", "{}{}", (("param", "$prefix"), ("param", "$p")))), ("terms", ("param", "$ts"))))),))),))
        from ..leaves import norm as _norm
        if _norm(t) == built:
            return True
        r = repr(t)
        if r.count("insert_str") != 1 or "('lit', 0), ('param', '$prefix')" not in r:
            return False
        # remove the update: the rest must be the original node
        def strip_upd(x):
            if isinstance(x, tuple) and x and x[0] == "upd" and str(x[2]).startswith("insert_str"):
                return strip_upd(x[1])
            if isinstance(x, tuple):
                return tuple(strip_upd(y) for y in x)
            return x
        return strip_upd(t) == node
    ctx.add("FRESH-LIT", "prepend:every-atom", prefixed(got), ctx.site(pp),
            "the transformer applied by prepend_predicate (through Apply::apply, i.e. to every node) inserts the prefix at index 0 of an atom's predicate symbol and keeps its terms", construct=got)
    others = {
        "truth": ("ctor", "Formula::AtomicFormula", (("0", ("ctor", "AtomicFormula::Truth", ())),)),
        "comparison": ("ctor", "Formula::AtomicFormula", (("0", ("ctor", "AtomicFormula::Comparison", (("0", ("param", "$c")),))),)),
        "negation": ("ctor", UF, (("connective", ("param", "$u")), ("formula", ("param", "$f")))),
        "binary": ("ctor", BF, (("connective", ("param", "$b")), ("lhs", ("param", "$l")), ("rhs", ("param", "$r")))),
        "quantified": ("ctor", QFm, (("formula", ("param", "$f")), ("quantification", ("param", "$q")))),
    }
    for nm, n_ in others.items():
        g_, _ = transformer(n_)
        ctx.add("FRESH-LIT", "prepend:unchanged:" + nm, g_ == n_, ctx.site(pp), "a %s node is returned unchanged by the transformer (its children are visited by Apply::apply)" % nm, construct=g_)
    pre = {}
    for name in ("here", "there"):
        b = fx.fn(name, impl_self=F)
        t = sym.Eval(fx, inline_depth=0).function(b)
        ok = t[:2] == ("call", "gamma::prepend_predicate") and t[2][0] == SELF and t[2][1][0] == "lit"
        pre[name] = t[2][1][1] if ok else None
        ctx.add("FRESH-LIT", "prefix:" + name, ok and isinstance(pre[name], str) and len(pre[name]) > 0, ctx.site(b), "%s = prepend_predicate(self, %r)" % (name, pre[name]))
    a, bb = pre.get("here"), pre.get("there")
    ok = a is not None and bb is not None and a != bb and not a.startswith(bb) and not bb.startswith(a)
    ctx.add("FRESH-LIT", "prefix:distinct", ok, "src/translating/classical_reduction/gamma.rs",
            "the h- and t-prefix are different and neither is a prefix of the other, so hp and tq are different symbols for all p, q of equal ... and hp = tp never: %r / %r" % (a, bb))
    # who else calls prepend_predicate / here / there
    callers = sorted({x["def_path"] for x in fx.body_list for n in hq.calls(x["body"], "gamma::prepend_predicate")})
    ctx.add("FRESH-LIT", "prepend:callers", len(callers) == 2 and all(c.endswith(("::here", "::there")) for c in callers), "src/translating/classical_reduction/gamma.rs",
            "prepend_predicate is used only by here and there: %s" % callers)


RULES = [rule_gamma, rule_apply, rule_prefix]
