"""C06 — TPTP rendering of a formula preserves its meaning."""
import re

from ..facts import AnalysisGap
from .. import collect, hq, peval, prec, printers, sym, tff

EXPLANATION = (
    "TAB-MAP: every token table of formatting/fol/sigma_0/tptp.rs is extracted (Display impls evaluated to write-templates) and compared with the "
    "TPTP standard: connectives, quantifiers, $true/$false, $sum/$difference/$product/$uminus, the integer relation table ($less..) and the "
    "general relation table (p__less__..), = and != shared. TAB-SIB: the sort suffix of a variable / function constant is the same at its binder "
    "(Format<Variable>, Format<FunctionConstant>, declarations) and at every occurrence (Format<GeneralTerm|IntegerTerm|SymbolicTerm>), and the "
    "binder type names are general / $int / symbol. DISPATCH: Format<Comparison> uses the $int relation symbols only in the arm where both "
    "operands are integer terms (printed without injection), symbolic = / != on symbol-sorted operands, and the general predicates on operands "
    "printed as general terms (with f__integer__/f__symbolic__ injections). PRN-T: for every (parent, child, position) over the node kinds, the "
    "parenthesisation decision of fmt_unary/fmt_binary evaluated on the extracted precedence tables must give a TFF-unitary operand; a Display "
    "impl that writes a connective between separately formatted parts (chained comparison -> ` & `) must be parenthesised whenever it is an "
    "operand (PRN-T-INLINE). NUM: negative numerals are rendered without overflow. PRE-1: every built-in identifier the printer can emit is "
    "declared in the preamble with the arity / type it is emitted at. SHARED: the renaming of clashing symbols is the last step of every problem chain and uses one clash set for the whole problem (C09's obligations). SHARED: the preamble's axioms are true in the standard interpretation (C12 PRE-2).")
UNDECIDED = ["equality of truth values of source formula and rendered text in all interpretations (needs a TPTP semantics for arbitrary terms)",
             "identifier clashes between user names and generated names: C09"]
ASSUMPTIONS = ["TPTP v9 TFF syntax: <=>, =>, <= take unitary operands; & and | chain only with themselves; ~ and quantifiers take a unitary formula"]

REF = {
    "UnaryOperator": {"UnaryOperator::Negative": "$uminus"},
    "BinaryOperator": {"BinaryOperator::Add": "$sum", "BinaryOperator::Subtract": "$difference", "BinaryOperator::Multiply": "$product"},
    "Quantifier": {"Quantifier::Forall": "!", "Quantifier::Exists": "?"},
    "UnaryConnective": {"UnaryConnective::Negation": "~"},
    "BinaryConnective": {"BinaryConnective::Equivalence": "<=>", "BinaryConnective::Implication": "=>", "BinaryConnective::ReverseImplication": "<=",
                         "BinaryConnective::Conjunction": "&", "BinaryConnective::Disjunction": "|"},
}
REF_INT = {"Relation::Equal": "=", "Relation::NotEqual": "!=", "Relation::GreaterEqual": "$greatereq", "Relation::LessEqual": "$lesseq",
           "Relation::Greater": "$greater", "Relation::Less": "$less"}
REF_GEN = {"Relation::Equal": "=", "Relation::NotEqual": "!=", "Relation::GreaterEqual": "p__greater_equal__", "Relation::LessEqual": "p__less_equal__",
           "Relation::Greater": "p__greater__", "Relation::Less": "p__less__"}
SUFFIX = {"Sort::General": "_g", "Sort::Integer": "_i", "Sort::Symbol": "_s"}
TYPE = {"Sort::General": "general", "Sort::Integer": "$int", "Sort::Symbol": "symbol"}


def rule_tokens(ctx):
    fx = ctx.facts
    for ty, ref in REF.items():
        b = printers.display_impl(fx, "tptp", ty)
        t = printers.token_table(printers.evaluate(fx, b).value)
        for k, tok in ref.items():
            ctx.add("TAB-MAP", "%s:%s" % (ty, k.split("::")[1]), t is not None and t.get(k) == tok, ctx.site(b), "%s is printed as `%s` (TPTP: `%s`)" % (k, (t or {}).get(k), tok))
        ctx.add("TAB-MAP", "%s:total" % ty, t is not None and sorted(t) == sorted(ref), ctx.site(b), "table covers exactly the variants of %s" % ty, nontrivial=False)
    for name, ref in (("repr_integer", REF_INT), ("repr_general", REF_GEN)):
        b = printers.inherent(fx, "tptp", "Relation", name)
        t = printers.token_table(printers.evaluate(fx, b).value)
        for k, tok in ref.items():
            ctx.add("TAB-MAP", "%s:%s" % (name, k.split("::")[1]), t is not None and t.get(k) == tok, ctx.site(b), "%s: %s -> `%s` (reference `%s`)" % (name, k, (t or {}).get(k), tok))
    b = printers.display_impl(fx, "tptp", "Relation")
    v = printers.evaluate(fx, b).value
    ctx.add("TAB-MAP", "Relation:display", v == ("write", "{}", (("call", "Format::repr_general", (("param", "self"),)),)), ctx.site(b), "Display for Relation is the general table")
    b = printers.display_impl(fx, "tptp", "AtomicFormula")
    v = printers.evaluate(fx, b).value
    arms = {a[0]: a[-1] for a in v[2]} if v[0] == "match" else {}
    ctx.add("TAB-MAP", "AtomicFormula:truth", arms.get("AtomicFormula::Truth") == ("write", "$true", ()) and arms.get("AtomicFormula::Falsity") == ("write", "$false", ()), ctx.site(b),
            "#true / #false are printed as $true / $false")
    b = printers.display_impl(fx, "tptp", "GeneralTerm")
    t = printers.token_table(printers.evaluate(fx, b).value) or {}
    ref = {"GeneralTerm::Infimum": "c__infimum__", "GeneralTerm::Supremum": "c__supremum__", "GeneralTerm::FunctionConstant(_)": "{}_g", "GeneralTerm::Variable(_)": "{}_g",
           "GeneralTerm::IntegerTerm(_)": "f__integer__({})", "GeneralTerm::SymbolicTerm(_)": "f__symbolic__({})"}
    for k, tok in ref.items():
        ctx.add("TAB-MAP", "GeneralTerm:%s" % k.split("::")[1], t.get(k) == tok, ctx.site(b), "%s -> `%s` (reference `%s`)" % (k, t.get(k), tok))
    b = printers.display_impl(fx, "tptp", "IntegerTerm")
    p = printers.evaluate(fx, b)
    arms = {pat: ws[0][2] for pat, ws in printers.arm_writes(p.out).items() if len(ws) == 1 and not ws[0][0] and not ws[0][1]}
    ok = arms.get("IntegerTerm::UnaryOperation{}", ("",) * 2)[1] == "{}({})" and arms.get("IntegerTerm::BinaryOperation{}", ("",) * 2)[1] == "{}({}, {})"
    ctx.add("TAB-MAP", "IntegerTerm:application", ok, ctx.site(b), "arithmetic is printed in prefix form op(args) with the operator's token")
    if ok:
        bo = arms["IntegerTerm::BinaryOperation{}"][2]
        order = [x[2][0][1][2][-1][-1] if x[0] == "ctor" else None for x in bo]
        ctx.add("TAB-MAP", "IntegerTerm:operand-order", order == ["op", "lhs", "rhs"], ctx.site(b), "operands in source order: %s" % order)
    # numerals: what is written for a negative, a zero and a positive numeral
    from .. import leaves as _lv
    N = _lv.norm(("proj", ("place", "self.0"), (("IntegerTerm::Numeral", "0"),)))
    NT = printers.flat(fx, b)
    SELF0 = _lv.norm(("place", "self.0"))

    def numeral_text(k):
        def decide(c):
            if c[:1] == ("arm",) and c[1] == SELF0:
                return c[2] == "IntegerTerm::Numeral(_)"
            return sym.decide_bool(_lv.replace(c, {N: ("lit", k)}))
        try:
            return [ps for _, ps in NT.under(decide)]
        except printers.Undecided:
            return None
    negs = [numeral_text(k) for k in (-1, -5)]
    poss = [numeral_text(k) for k in (0, 1, 5)]
    neg = [(None, None, ("write", "$uminus({})", (negs[0][0][1][2],)))] if all(t_ and len(t_) == 1 and len(t_[0]) == 3 and t_[0][0] == "$uminus(" and t_[0][2] == ")" and t_[0][1][:2] == ("hole", "{}") for t_ in negs) and negs[0] == negs[1] else []
    ok = bool(neg) and all(t_ == [[("hole", "{}", N)]] for t_ in poss)
    ctx.add("TAB-MAP", "IntegerTerm:numeral", ok, ctx.site(b), "n >= 0 is printed as n, n < 0 as $uminus(|n|)")
    if ok:
        m = neg[0][2][2][0]
        ctx.add("NUM", "numeral:abs-overflow", m[:2] == ("call", "isize::unsigned_abs") or (m[0] == "call" and "unsigned_abs" in m[1]), ctx.site(b),
                "|n| must be computed without overflow for n = isize::MIN (found %s)" % (m[1] if m[0] == "call" else m,), construct=m)


def _arm_args(v, pat):
    """the arguments of the write! in the arm of that pattern"""
    for a in v[2] if v[0] == "match" else ():
        if a[0] == pat and a[-1][0] == "write":
            return a[-1][2]
    return None


def rule_sorts(ctx):
    fx = ctx.facts
    tabs = {}
    for ty in ("Variable", "FunctionConstant"):
        b = printers.display_impl(fx, "tptp", ty)
        v = printers.evaluate(fx, b).value
        t = printers.token_table(v) or {}
        tabs[ty] = t
        # what is written for an item of each sort: its name, then the suffix of the sort (a table in place, a helper, one write or two)
        from .. import leaves as _lvs
        T_ = printers.flat(fx, b)
        SORT_, NAME_ = _lvs.norm(("place", "self.0.sort")), _lvs.norm(("place", "self.0.name"))
        for s, suf in SUFFIX.items():
            try:
                text = T_.under(lambda c: (c[2] == s) if (c[:1] == ("arm",) and c[1] == SORT_) else sym.decide_bool(c))
            except printers.Undecided:
                text = None
            ctx.add("TAB-SIB", "%s:%s" % (ty, s.split("::")[1]), text == [((), [("hole", "{}", NAME_), suf])], ctx.site(b), "%s of sort %s is printed as name%s" % (ty, s, suf), construct=text)
    occ = {"Sort::General": ("GeneralTerm", "GeneralTerm::Variable(_)", "{}_g", "GeneralTerm::FunctionConstant(_)", "{}_g"),
           "Sort::Integer": ("IntegerTerm", "IntegerTerm::Variable(_)", "{}_i", "IntegerTerm::FunctionConstant(_)", "{}_i"),
           "Sort::Symbol": ("SymbolicTerm", "SymbolicTerm::Variable(_)", "{}_s", "SymbolicTerm::FunctionConstant(_)", "{}_s")}
    for s, (ty, vk, vt, ck, ct) in occ.items():
        b = printers.display_impl(fx, "tptp", ty)
        t = printers.token_table(printers.evaluate(fx, b).value) or {}
        suf = SUFFIX[s]
        ctx.add("TAB-SIB", "occurrence:%s:variable" % ty, t.get(vk, "").endswith(suf) and re.fullmatch(r"\{\w*\}" + suf, t.get(vk, "")) is not None, ctx.site(b),
                "a %s-sorted variable occurrence carries the binder's suffix %s: `%s`" % (s, suf, t.get(vk)))
        ctx.add("TAB-SIB", "occurrence:%s:constant" % ty, re.fullmatch(r"\{\w*\}" + suf, t.get(ck, "")) is not None, ctx.site(b),
                "a %s-sorted function constant occurrence carries the declaration's suffix %s: `%s`" % (s, suf, t.get(ck)))
    b = printers.display_impl(fx, "tptp", "SymbolicTerm")
    t = printers.token_table(printers.evaluate(fx, b).value) or {}
    ctx.add("TAB-SIB", "occurrence:symbol", t.get("SymbolicTerm::Symbol(_)") == "{}", ctx.site(b), "a symbolic constant is printed as its bare name (declared as `name: symbol`)")
    # binder types: what the quantification printer writes for a variable of each sort, first or later in the list
    b = printers.display_impl(fx, "tptp", "Quantification")
    from .. import leaves
    T = printers.flat(fx, b, inline=("Sort",))
    root = leaves.norm(("place", "self.0.variables"))
    V, IDX = ("each", root), ("idx", root)
    SORT_OF_V = leaves.norm(("fieldof", V, "sort"))
    hole_v = ("hole", "{}", ("ctor", "Format", (("0", V),)))
    hole_q = ("hole", "{}", ("ctor", "Format", (("0", leaves.norm(("place", "self.0.quantifier"))),)))

    def written(sort, k):
        def decide(c):
            if c[:1] == ("arm",) and c[1] == SORT_OF_V:
                return c[2] == sort
            return sym.decide_bool(leaves.replace(c, {IDX: ("lit", k)}))
        try:
            return T.under(decide)
        except printers.Undecided as e:
            return [("undecided", [repr(e.args[0])[:200]])]
    texts = {(s_, k): written(s_, k) for s_ in TYPE for k in (0, 1, 2)}
    got = {}
    for s_ in TYPE:
        inner = [ps for n, ps in texts[(s_, 0)] if n == (root,)]
        if len(inner) == 1 and len(inner[0]) == 2 and inner[0][0] == hole_v and isinstance(inner[0][1], str) and inner[0][1].startswith(": "):
            got[s_] = inner[0][1][2:]
    ctx.add("TAB-SIB", "binder-types", got == TYPE, ctx.site(b), "binder types per sort: %s (reference %s)" % (got, TYPE), construct=got)
    # every variable of the quantification gets a binder: the binder is written in one loop over the whole variable list
    nests = {n for (s_, k), segs in texts.items() for n, ps in segs if hole_v in ps}
    others = {repr(p_)[:160] for segs in texts.values() for n, ps in segs for p_ in ps if not isinstance(p_, str) and p_ not in (hole_v, hole_q)}
    ok = nests == {(root,)} and not others and all(sum(ps.count(hole_v) for _, ps in segs) == 1 for segs in texts.values())
    ctx.add("TAB-MAP", "binder-every-variable", ok, ctx.site(b),
            "the binder list is written by one loop over all of `variables` (no filter / dedup / skip: two variables of one name and different sorts are two binders): %s"
            % sorted(str(n)[:160] for n in nests | others))
    want = {(s_, k): [((), [hole_q, "["]), ((root,), ([", "] if k > 0 else []) + [hole_v, ": " + TYPE[s_]]), ((), ["]"])] for s_ in TYPE for k in (0, 1, 2)}
    bad = sorted("%s #%d: %s" % (s_, k, texts[(s_, k)]) for (s_, k) in texts if texts[(s_, k)] != want[(s_, k)])
    ctx.add("TAB-MAP", "binder-syntax", not bad, ctx.site(b), "quantifier syntax Q[v: t, ...]: `Q[`, then per variable `v: t` with `, ` before all but the first, then `]`", construct=bad[:3] or None)
    # declarations in Display for Problem
    pb = fx.fn("fmt", impl_self="verifying::problem::Problem", impl_trait="std::fmt::Display")
    PT = printers.flat(fx, pb, inline=("Sort",))
    FCS = leaves.norm(("call", "Problem::function_constants", (("place", "self"),)))
    ok = True
    for s_ in TYPE:
        try:
            segs = PT.only(lambda n_, ps_: n_ == (FCS,)).under(lambda c: (c[2] == s_) if (c[:1] == ("arm",) and c[1] == ("fieldof", ("each", FCS), "sort")) else sym.decide_bool(c))
        except printers.Undecided:
            ok = False
            break
        decl = [ps for n, ps in segs if ps and isinstance(ps[0], str) and ps[0].startswith("tff(type_function_constant")]
        ok = ok and decl == [["tff(type_function_constant_", ("hole", "{}", ("idx", FCS)), ", type, ", ("hole", "{}", ("ctor", "Format", (("0", ("each", FCS)),))), ": %s).\n" % TYPE[s_]]]
    ctx.add("TAB-SIB", "declaration:function-constant", ok, ctx.site(pb), "a placeholder is declared under the same suffixed name the printer uses, with the type of its sort")


def rule_comparison(ctx):
    fx = ctx.facts
    b = printers.display_impl(fx, "tptp", "Comparison")
    p = printers.evaluate(fx, b)
    site = ctx.site(b)
    # one specialisation of the loop body per (left term kind, relation, right term kind): the individual comparison that is written
    def c(n, **f):
        return ("ctor", n, tuple(sorted(f.items())))

    def term(kind, side):
        if kind == "integer":
            return c("GeneralTerm::IntegerTerm", **{"0": ("param", "$%si" % side)})
        if kind == "symbolic":
            return c("GeneralTerm::SymbolicTerm", **{"0": ("param", "$%ss" % side)})
        if kind == "variable":
            return c("GeneralTerm::Variable", **{"0": ("param", "$%sv" % side)})
        return c("GeneralTerm::" + kind)
    FMT = lambda x: ("ctor", "Format", (("0", x),))
    kinds = ["integer", "symbolic", "variable", "Infimum"]
    gts = set(fx.variants("syntax_tree::fol::sigma_0::GeneralTerm"))
    ctx.add("DISPATCH", "comparison:term-kinds", gts == {"Infimum", "Supremum", "FunctionConstant", "Variable", "IntegerTerm", "SymbolicTerm"}, site, "general term constructors: %s" % sorted(gts))
    rels = fx.variants("syntax_tree::fol::sigma_0::Relation")
    n_cases = 0
    bad_cases = {}
    for lk in kinds:
        for rk in kinds:
            for rel in rels:
                n_cases += 1
                ev = sym.Eval(fx, inline_depth=0)
                L_, R_ = term(lk, "l"), term(rk, "r")
                RELc = c("Relation::" + rel)
                ev.loop_args = [("list", (("param", "$counter"), ("list", (L_, RELc, R_))))]
                ev.function(b)
                writes = [o[2] for o in ev.out if o[2][0] == "write" and o[2][1] != " & " and not o[0]]
                eq = rel in ("Equal", "NotEqual")
                if lk == rk == "integer":
                    ops = (FMT(("param", "$li")), FMT(("param", "$ri")))
                    relt = ("call", "Format::repr_integer", (FMT(RELc),))
                    cls = "int-int-" + ("equality" if eq else "order")
                elif lk == rk == "symbolic" and eq:
                    ops = (FMT(("param", "$ls")), FMT(("param", "$rs")))
                    relt = FMT(RELc)
                    cls = "sym-sym-equality"
                else:
                    ops = (FMT(L_), FMT(R_))
                    relt = FMT(RELc)
                    cls = "mixed-" + ("equality" if eq else "order")
                relts = {relt, ("call", "Format::repr_general", (FMT(RELc),))} if relt[0] == "ctor" else {relt}
                ok = len(writes) == 1
                if ok:
                    tmpl = re.sub(r"\{\w*\}", "{}", writes[0][1])
                    args = writes[0][2]
                    if eq:
                        ok = tmpl == "{} {} {}" and len(args) == 3 and args[0] == ops[0] and args[1] in relts and args[2] == ops[1]
                    else:
                        ok = tmpl == "{}({}, {})" and len(args) == 3 and args[0] in relts and args[1] == ops[0] and args[2] == ops[1]
                if not ok:
                    bad_cases.setdefault(cls, []).append((lk, rel, rk, writes[:1]))
    for cls in ("int-int-equality", "int-int-order", "sym-sym-equality", "mixed-equality", "mixed-order"):
        b_ = bad_cases.get(cls)
        ctx.add("DISPATCH", "comparison:" + cls, not b_, site,
                {"int-int-equality": "integer = / != integer: infix on the bare integer terms with the integer relation symbol",
                 "int-int-order": "integer < <= > >= integer: $less / $lesseq / .. applied to the bare integer terms",
                 "sym-sym-equality": "symbol = / != symbol: infix on the bare symbolic terms",
                 "mixed-equality": "any other = / !=: infix on the terms injected into `general`",
                 "mixed-order": "any other order comparison: the general order predicate applied to the injected terms"}[cls] + (": %s" % (b_[0],) if b_ else ""),
                construct=b_[:3] if b_ else None)
    ctx.floor("DISPATCH", "comparison_cases", n_cases, 96)
    # the int arm must come first (PEG-like ordered arms) and individuals() pairs consecutive terms
    ind = fx.fn("Comparison::individuals")
    nxt = [x for x in fx.body_list if x["name"] == "next" and "Comparison::individuals" in x["def_path"]]
    ok = False
    if len(nxt) == 1:
        ev = sym.Eval(fx, inline_depth=0)
        t = ev.function(nxt[0])
        # decided on a present and on an exhausted guard list (`if let Some(g) = next()`, `let g = next()?`, `match` are the same to it)
        from .. import comp as _comp, leaves as _lv2
        _comp.use(fx)
        G = ("call", "Iterator::next", (("place", "self.guards_iter"),))
        SOME_G = ("ctor", "Option::Some", (("0", ("ctor", "Guard", (("relation", ("param", "$R")), ("term", ("param", "$T"))))),))
        NONE_G = ("ctor", "Option::None", ())
        on = lambda term, val: _comp.decide_literals(_comp.case_of_case(_lv2.replace(term, {G: val})))
        s_v, n_v = on(t, SOME_G), on(t, NONE_G)
        n_v = _comp.early_exit(n_v) or n_v
        tri = dict(s_v[2]).get("0") if isinstance(s_v, tuple) and s_v[:2] == ("ctor", "Option::Some") else None
        tri = tri[1] if isinstance(tri, tuple) and tri[:1] == ("list",) else None
        yields = tri is not None and len(tri) == 3 and tri[0][0] == "fieldof" and tri[0][2] == "lhs" and tri[1] == ("param", "$R") and tri[2] == ("param", "$T")
        st = ev.last_env.get("self", [None])[-1]
        st_s = on(st, SOME_G) if st is not None else None
        advances = st_s is not None and repr(("assign-field:self.lhs", (("param", "$T"),)))[1:-1] in repr(st_s)
        ok = yields and advances and n_v == NONE_G
    ivs = sym.Eval(fx, inline_depth=0).function(ind)
    start = ivs[:2] == ("ctor", "Individuals") and dict(ivs[2]).get("lhs") == ("place", "self.term") and "self.guards" in repr(dict(ivs[2]).get("guards_iter"))
    ctx.add("DISPATCH", "comparison:chain-pairs", ok and start, ctx.site(ind),
            "a chain t0 r1 t1 r2 t2 is split into (t0 r1 t1), (t1 r2 t2): starts at the comparison's term, the right term becomes the next left term")
    sep = [o for o in p.out if o[2][0] == "write" and o[2][1] == " & "]
    ok = len(sep) == 1 and sep[0][0][0][0][:2] == ("bin", "Gt") and sep[0][0][0][0][3] == ("lit", 0)
    ctx.add("DISPATCH", "comparison:conjunction", ok, site, "the parts of a chain are joined by ` & ` (conjunction), one separator between consecutive parts")


def tff_unitary(kind):
    return kind in ("truth", "falsity", "atom", "comparison1", "not", "forall", "exists")


def rule_prec(ctx):
    fx = ctx.facts
    m = prec.Model(fx, "tptp", "Formula")
    kinds = prec.formula_kinds(fx)
    site = ctx.site(m.prec)
    # what does a chained comparison print?  (a connective between separately formatted parts)
    cb = printers.display_impl(fx, "tptp", "Comparison")
    conn = set(REF["BinaryConnective"].values())
    inline = sorted({item[1].strip() for _, loops, item in printers.evaluate(fx, cb).out if item[0] == "write" and item[1].strip() in conn and item[1] != item[1].strip()})
    n = 0
    for pk, pv in kinds.items():
        if pk.startswith("bin:"):
            positions = ("lhs", "rhs")
        elif pk == "not":
            positions = ("inner",)
        else:
            continue
        for ck, cv in kinds.items():
            for pos in positions:
                n += 1
                try:
                    par = m.parens(pv, cv, pos)
                except AnalysisGap as e:
                    ctx.gap("PRN-T", "%s/%s/%s" % (pk, ck, pos), site, str(e))
                    continue
                if ck == "comparison2" and inline:
                    # `q & a & b` is the same conjunction: only other parents need the parentheses
                    ok = par or (pk == "bin:Conjunction" and inline == ["&"])
                    rule = "PRN-T-INLINE"
                    why = "a chained comparison prints `a %s b`; as operand of %s it %s parenthesised" % (inline[0], pk, "is" if par else "is NOT")
                else:
                    need = not tff_unitary(ck)
                    # & / | may chain with themselves on the left without parentheses
                    if need and pos == "lhs" and pk == ck and pk in ("bin:Conjunction", "bin:Disjunction"):
                        need = False
                    ok = par or not need
                    rule = "PRN-T"
                    why = "child %s at %s of %s: parenthesised=%s, TFF needs parentheses=%s" % (ck, pos, pk, par, need)
                ctx.add(rule, "%s/%s/%s" % (pk, ck, pos), ok, site, why)
    ctx.floor("PRN-T", "parent_child_cases", n, 100)
    # quantified formulas always parenthesise their body
    fb = printers.display_impl(fx, "tptp", "Formula")
    v = printers.evaluate(fx, fb).value
    arms = {a[0]: a[-1] for a in v[2]} if v[0] == "match" else {}
    q = arms.get("Formula::QuantifiedFormula{}")
    okq = q is not None and q[:2] == ("write", "{}: ({})")
    if not okq:
        # the same text written in pieces (the operator through fmt_operator, then the parenthesised body): evaluated on a quantified node
        evq = sym.Eval(fx, inline_depth=2, inline=lambda dp: dp.endswith("::fmt_operator"))
        qn = ("ctor", "Formula::QuantifiedFormula", (("formula", ("param", "$g")), ("quantification", ("param", "$q"))))
        evq.function(fb, [("ctor", "Format", (("0", qn),)), ("param", "$f")])
        ws = []
        for o in evq.out:
            if o[2][0] == "write" and not (ws and ws[-1] == o[2]):      # the tail expression of the block is recorded as effect and as value
                ws.append(o[2])
        text = "".join(w_[1] for w_ in ws)
        args_ = [a_ for w_ in ws for a_ in w_[2]]
        okq = text == "{}: ({})" and len(args_) == 2 and "$q" in repr(args_[0]) and "$g" not in repr(args_[0]) and "$g" in repr(args_[1]) and not [o for o in evq.out if o[2][0] == "emit" and o[2][1] != "Precedence::fmt_operator"]
    ctx.add("PRN-T", "quantified-body", okq, ctx.site(fb), "Q[..]: (body) - the body of a quantifier is always parenthesised")
    un = arms.get("Formula::UnaryFormula{}")
    bi = arms.get("Formula::BinaryFormula{}")
    ok = un is not None and un[:2] == ("call", "Precedence::fmt_unary") and bi is not None and bi[:2] == ("call", "Precedence::fmt_binary") and \
        "'lhs'" in repr(bi[2][1]) and "'rhs'" in repr(bi[2][2])
    ctx.add("PRN-T", "operand-order", ok, ctx.site(fb), "binary formulas print lhs, operator, rhs through fmt_binary (operands not swapped)")
    # top level: tff(name, role, formula).
    af = fx.fn("fmt", impl_self="verifying::problem::AnnotatedFormula", impl_trait="std::fmt::Display")
    va = printers.evaluate(fx, af)
    w = [item for _, _, item in va.out if item[0] == "write"]
    ctx.add("PRN-T", "annotated", len(w) == 1 and w[0][1] == "tff({}, {}, {}).\n" and "tptp" in af["body"].__repr__()[:0] + "tptp", ctx.site(af), "tff(name, role, formula). with the TPTP formatter")
    uses = [n_ for n_ in hq.walk(af["body"]) if n_.get("k") == "Call" and (hq.ctor_of(n_) or ("",))[0].endswith("tptp::Format")]
    ctx.add("PRN-T", "annotated-formatter", len(uses) == 1, ctx.site(af), "problem formulas are rendered with formatting::fol::sigma_0::tptp::Format")


def rule_pre1(ctx):
    fx = ctx.facts
    text = fx.read_source("src/verifying/problem/standard_interpretation.p")
    items = tff.parse(text)
    sig, types, pr = tff.signature(items)
    # identifiers the printer emits as literals
    emitted = {}
    for b in fx.fns_in_file(printers.FILES["tptp"]) + [fx.fn("fmt", impl_self="verifying::problem::Problem", impl_trait="std::fmt::Display")]:
        p = printers.evaluate(fx, b)
        lits = [x[1] for x in sym.subterms(p.value) if isinstance(x, tuple) and x[:1] in (("write",), ("lit",)) and isinstance(x[1], str)]
        lits += [item[1] for _, _, item in p.out if item[0] == "write"]
        for t in lits:
            for m in re.finditer(r"([a-z]\w*__|\$[a-z]+)(\()?", t):
                name = m.group(1)
                if name in ("$o", "$int", "$tType"):
                    continue
                ar = None
                if m.group(2):
                    depth, i, ar = 0, m.end(), 1
                    while i < len(t):
                        ch = t[i]
                        if ch == "(":
                            depth += 1
                        elif ch == ")":
                            if depth == 0:
                                break
                            depth -= 1
                        elif ch == "," and depth == 0:
                            ar += 1
                        i += 1
                emitted.setdefault(name, set()).add(ar)
    # relation symbols are applied to two arguments by the `{}({}, {})` templates; operator tokens by `{op}({lhs}, {rhs})` / `{op}({arg})`
    for k in list(emitted):
        if k.startswith(("p__", "$less", "$greater")):
            emitted[k] = {2}
    for ty, ar in (("BinaryOperator", 2), ("UnaryOperator", 1)):
        t = printers.token_table(printers.evaluate(fx, printers.display_impl(fx, "tptp", ty)).value) or {}
        it = printers.token_table(printers.evaluate(fx, printers.display_impl(fx, "tptp", "IntegerTerm")).value) or {}
        tmpl = it.get("IntegerTerm::BinaryOperation{}" if ar == 2 else "IntegerTerm::UnaryOperation{}", "")
        n_args = tmpl.count(",") + 1 if "(" in tmpl else 0
        for tok in t.values():
            if tok in emitted:
                emitted[tok] = {a for a in emitted[tok] if a is not None} | {n_args}
    ctx.floor("PRE-1", "emitted_builtins", len(emitted), 14)
    for name, ars in sorted(emitted.items()):
        s = sig.get(name) or tff.BUILTIN.get(name)
        ok = s is not None and s != ("type",)
        if ok:
            want = len(s[0])
            ok = all((a if a is not None else 0) == want for a in ars)
        ctx.add("PRE-1", "declared:" + name, ok, "src/verifying/problem/standard_interpretation.p",
                "`%s` is emitted with arity %s and declared as %s" % (name, sorted(a if a is not None else 0 for a in ars), s))
    for t in ("general", "symbol"):
        ctx.add("PRE-1", "type:" + t, t in types, "src/verifying/problem/standard_interpretation.p", "type %s is declared in the preamble" % t)


def rule_one_constant_per_symbol(ctx):
    """a symbol is rendered as the same TPTP constant in every formula of a problem (shared with C09)"""
    from .c09 import rule_problem_rename
    rule_problem_rename(ctx)


def rule_collected_sorts(ctx):
    """the declarations of a problem are generated from the collectors: a placeholder / variable occurrence must be collected at the sort its
    occurrence is printed at (suffix _g / _i / _s), else the file declares one constant and uses another"""
    collect.check_function_constant_leaves(ctx, "COLLECT", ctx.facts)
    collect.check_variable_leaves(ctx, "COLLECT", ctx.facts)


def rule_rename_covers_the_whole_problem(ctx):
    """a symbol that collides with a predicate is renamed in every formula of the problem, conclusions included: the renaming is the last
    step of every problem chain (C09's chain obligations)"""
    from . import c09
    sub = type(ctx)(ctx.prop, ctx.tier, ctx.facts)
    c09.rule_problem_rename(sub)
    c09.rule_names(sub)
    ctx.obls.extend(o for o in sub.obls if o["key"].startswith(("NS:problem-rename", "NAMES:chain:", "NAMES:all-chains-seen")))


def rule_preamble_axioms_shared(ctx):
    """a rendered `p__greater__(t1, t2)` means t1 > t2 only if the preamble defines the predicate that way: the preamble's axioms are true
    in the standard interpretation (C12's PRE-2 obligations)"""
    from . import c12
    sub = type(ctx)(ctx.prop, ctx.tier, ctx.facts)
    c12.rule_pre2(sub)
    ctx.obls.extend(sub.obls)


RULES = [rule_tokens, rule_sorts, rule_comparison, rule_prec, rule_pre1, rule_one_constant_per_symbol, rule_collected_sorts, rule_rename_covers_the_whole_problem, rule_preamble_axioms_shared]
