"""C02 — external-equivalence obligations are refuted exactly by behavioural differences."""
import itertools

from ..facts import AnalysisGap, callee, callee_generic, ctor_of, local_id_of, local_of, pat_bindings, strip, walk
from .. import flow, hq, sym, tasks

EXPLANATION = (
    "TPL: ExternalEquivalenceTask::decompose is evaluated to terms (closures beta-reduced); the translation of each program must be "
    "completion(replace_placeholders(tau_star(P), placeholders), user_guide.input_predicates()) optionally followed by the fixpoint of "
    "[INTUITIONISTIC, HT, CLASSIC], applied to both sides by the same closure; control translation must map a completed definition of a public "
    "predicate to spec/universal, of any other predicate to assumption/universal, a constraint to spec/universal, leaving the formula untouched; "
    "head_predicate recognises exactly (forall-prefixed) equivalences with an atom on the left. FLOW-ROUTE: "
    "ValidatedExternalEquivalenceTask::decompose is evaluated, for every (side, role, direction, break flag) of the finite enum space, on a task whose "
    "side is the singleton list [F] of one formula with that role and direction, and the buckets are read off the assembled task it builds; "
    "the resulting table (bucket, problem role, broken?) must equal the reference table of the manual and the right side must be the mirror image "
    "of the left; equivalences are broken only on conclusions. FLOW-READ/ROUTE: AssembledExternalEquivalenceTask::decompose: per direction the "
    "fields read, the order of the builder chain (stable premises, premises of the direction, lemma consequences, conclusions), direction gates, "
    "mirror symmetry. FLOW-SAN: all four formula sources pass replace_placeholders with the map built from user_guide.placeholders(). "
    "FLOW-PIPE: only the program side is renamed, with the intersection of both private sets, before taken_predicates is computed. FRESH-LIT: the "
    "`{symbol}_p` rename is not checked for freshness (known finding). TAB-DEFAULT: what an omitted annotation means is decided on the parser (a placeholder without a sort is general, a formula without a direction universal). SHARED: the integer relation table (C06) and the symbol order chain (C12) run here too.")
UNDECIDED = ["that COMP[tau*P] with open inputs captures external behaviour (Fandinno et al. 2023) — literature, with C01/C04",
             "truth of the assembled problems in models"]
ASSUMPTIONS = ["C01 (tau*), C04 (completion), C07 (simplifiers) for the meaning of the formulas that are routed"]

EE = "verifying::task::external_equivalence::"
UG = ("place", "self.user_guide")
PH = ("call", "Iterator::map", (("call", "UserGuide::placeholders", (UG,)), ("closure", ("p",), ("list", (("place", "p.name"), ("param", "p"))))))
INP = ("call", "UserGuide::input_predicates", (UG,))


def translate_ref(program):
    x = ("call", "Option::expect", (("call", "Completion::completion", (
        ("call", "Theory::replace_placeholders", (("call", "TauStar::tau_star", (program,)), PH)), INP)),
        ("lit", "tau_star did not create a completable theory")))
    return x


def check_translation(ctx, b, label, theory, program):
    """theory: the term whose .formulas feed the control translation."""
    site = ctx.site(b)
    x = translate_ref(program)
    if theory[0] == "phi" and theory[1] == ("if", ("place", "self.simplify")):
        br = dict(theory[2])
        ctx.add("TPL", "%s:translation" % label, br.get("else") == x, site,
                "without --simplify the theory is completion(replace_placeholders(tau_star(%s), placeholders), input predicates)" % (program,), construct=br.get("else"))
        t = br.get("then")
        ok = t is not None and t[:2] == ("call", "Iterator::map") and t[2][0] == x
        consts = sorted(c[1] for c in sym.subterms(t) if isinstance(c, tuple) and len(c) == 2 and c[0] == "const") if t else []
        fix = [c for c in sym.subterms(t) if isinstance(c, tuple) and c[:2] == ("call", "Apply::apply_fixpoint")] if t else []
        ctx.add("TPL", "%s:simplified" % label, ok and consts == ["CLASSIC", "HT", "INTUITIONISTIC"] and len(fix) == 1, site,
                "with simplification the same theory is mapped through apply_fixpoint of %s" % consts)
    else:
        ctx.add("TPL", "%s:translation" % label, theory == x, site, "theory is completion(replace_placeholders(tau_star(P), placeholders), inputs)", construct=theory)


def control_closure_rows(cl):
    """closure formula -> match head_predicate(formula) {..}: rows (pattern, guard, role, direction, passthrough)."""
    if cl[0] != "closure" or cl[2][0] != "match":
        return None
    par = cl[1][0]
    m = cl[2]
    if m[1] != ("call", "decompose::head_predicate", (("param", par),)):
        return None
    rows = []
    for arm in m[2]:
        pat = arm[0]
        guard = arm[1] if len(arm) == 3 else None
        v = arm[-1]
        if v[0] != "ctor" or v[1] != "AnnotatedFormula":
            return None
        f = dict(v[2])
        rows.append((pat, guard, f.get("role"), f.get("direction"), f.get("formula") == ("param", par)))
    return rows


HP = lambda par: ("proj", ("call", "decompose::head_predicate", (("param", par),)), (("Option::Some", "0"),))


def rule_translation(ctx):
    fx = ctx.facts
    b = fx.fn("decompose", impl_self=EE + "ExternalEquivalenceTask")
    site = ctx.site(b)
    ev = sym.Eval(fx, inline_depth=0)
    ev.function(b)
    rights = ev.last_env.get(hq.local_name_of_field(b["body"], "ValidatedExternalEquivalenceTask", "right", "right"), [])
    lefts = ev.last_env.get(hq.local_name_of_field(b["body"], "ValidatedExternalEquivalenceTask", "left", "left"), [])
    if not rights or not lefts:
        raise AnalysisGap("decompose: locals left/right not found")
    left = lefts[-1]
    # `right` is first the translated program, then rebound to its renamed version
    r0 = [t for t in rights if t[0] == "ctor" and t[1] == "Specification"]
    rN = [t for t in rights if t[:2] == ("call", "RenamePredicates::rename_predicates")]
    if len(r0) != 1:
        raise AnalysisGap("decompose: expected right = control_translate(theory_translate(self.program)); found %d candidates" % len(r0))
    r0 = r0[0]
    if len(rN) != 1:
        ctx.bad("FLOW-PIPE", "rename:program-side", site, "the translated program (`right`) is not passed through rename_predicates (found %d renamed bindings of it)" % len(rN))
        if any("rename_predicates" in repr(t) for t in lefts):
            ctx.bad("FLOW-PIPE", "rename:not-specification", site, "the specification side is renamed")
        return
    rN = rN[0]

    def split(spec):
        f = dict(spec[2]).get("formulas")
        if not f or f[:2] != ("call", "Iterator::map"):
            raise AnalysisGap("control translation is not a map over the theory's formulas")
        src, cl = f[2]
        if src[0] != "fieldof" or src[2] != "formulas":
            raise AnalysisGap("control translation does not iterate theory.formulas")
        return src[1], cl

    th_r, cl_r = split(r0)
    check_translation(ctx, b, "program", th_r, ("place", "self.program"))
    if left[0] != "match" or left[1] != ("place", "self.specification"):
        raise AnalysisGap("left is not a match on self.specification")
    arms = dict((a[0], a[-1]) for a in left[2])
    lspec = arms.get("Either::Left(_)")
    if lspec is None or lspec[0] != "ctor":
        raise AnalysisGap("left/Either::Left arm is not a control translation")
    th_l, cl_l = split(lspec)
    check_translation(ctx, b, "specification-program", th_l, ("proj", ("place", "self.specification"), (("Either::Left", "0"),)))
    ctx.add("FLOW-PIPE", "same-control-translation", cl_l == cl_r, site, "both programs go through the same control translation closure")
    rspec = arms.get("Either::Right(_)")
    ctx.add("FLOW-SAN", "placeholders:specification", rspec == ("call", "Specification::replace_placeholders", (("proj", ("place", "self.specification"), (("Either::Right", "0"),)), PH)),
            site, "a .spec specification is used after replace_placeholders(placeholders) and nothing else", construct=rspec)
    # control translation, decided per shape of the formula: the closure is applied to a completed definition, to an unquantified equivalence
    # and to a constraint; the function that finds the defined predicate (whatever it is called, nested or not) is evaluated in place
    from .. import leaves as _lv, comp as _comp
    _comp.use(fx)
    if not (cl_r[0] == "closure" and len(cl_r[1]) == 1):
        raise AnalysisGap("control translation is not a closure over the formula")
    par = cl_r[1][0]

    def K(n, **f):
        return ("ctor", n, tuple(sorted(f.items())))
    ATOMF = K("Formula::AtomicFormula", **{"0": K("AtomicFormula::Atom", **{"0": ("param", "$atom")})})
    EQV = K("Formula::BinaryFormula", connective=K("BinaryConnective::Equivalence"), lhs=ATOMF, rhs=("param", "$B"))
    shapes = {"definition": K("Formula::QuantifiedFormula", quantification=K("Quantification", quantifier=K("Quantifier::Forall"), variables=("param", "$vs")), formula=EQV),
              "unquantified-definition": EQV,
              "constraint": K("Formula::QuantifiedFormula", quantification=K("Quantification", quantifier=K("Quantifier::Forall"), variables=("param", "$vs")),
                              formula=K("Formula::BinaryFormula", connective=K("BinaryConnective::Implication"), lhs=("param", "$B"), rhs=K("Formula::AtomicFormula", **{"0": K("AtomicFormula::Falsity")}))),
              "equivalence-of-non-atom": K("Formula::BinaryFormula", connective=K("BinaryConnective::Equivalence"),
                                           lhs=K("Formula::UnaryFormula", connective=("param", "$u"), formula=("param", "$g")), rhs=("param", "$B")),
              "exists": K("Formula::QuantifiedFormula", quantification=K("Quantification", quantifier=K("Quantifier::Exists"), variables=("param", "$vs")), formula=EQV)}
    finders = [dp for dp in fx.bodies if len(fx.bodies[dp]) == 1 and fx.bodies[dp][0]["file"] == b["file"] and "::tests" not in dp
               and fx.bodies[dp][0].get("ret_ty", "").startswith("std::option::Option<syntax_tree::fol::sigma_0::Predicate>") and len(fx.bodies[dp][0].get("params", [])) == 1
               and "Formula" in str(fx.bodies[dp][0]["params"][0].get("ty", ""))]

    def expand(t, depth=0):
        """calls of the predicate finder on a literal formula evaluated in place (it recurses through universal quantifiers)"""
        if not isinstance(t, tuple) or depth > 6:
            return t
        t = tuple(expand(x, depth) if isinstance(x, tuple) else x for x in t)
        if t[:1] == ("call",) and len(t) == 3 and len(t[2]) == 1 and isinstance(t[2][0], tuple) and t[2][0][:1] == ("ctor",):
            from ..flow import short as _short
            for dp in finders:
                if _short(dp) == t[1] or (len(finders) == 1 and t[1].split("::")[-1] == dp.split("::")[-1]):      # a free function, or the method of a private trait
                    return expand(_comp.decide_literals(sym.Eval(fx, inline_depth=0).function(fx.bodies[dp][0], [t[2][0]])), depth + 1)
        return t
    PUB = ("call", "IndexSet::contains", (("call", "UserGuide::public_predicates", (UG,)), ("call", "Atom::predicate", (("param", "$atom"),))))

    def outcome(shape):
        body = _comp.decide_literals(expand(sym.subst(cl_r[2], {par: shape})))
        out = []
        for ts_, v_ in _lv.leaves(_comp.case_of_case(_lv.lift(body))):
            v_ = _comp.decide_literals(_lv.norm(v_))
            f_ = dict(v_[2]) if v_[:2] == ("ctor", "AnnotatedFormula") else {}
            ctor_name = lambda x_: x_[1] if isinstance(x_, tuple) and x_[:1] == ("ctor",) else "?"
            out.append((tuple(sorted(ts_, key=_lv.stable_key)), ctor_name(f_.get("role")), ctor_name(f_.get("direction")), f_.get("formula") == shape))
        return sorted(out, key=_lv.stable_key)
    pub_t, pub_f = ("cond", _lv.norm(PUB), True), ("cond", _lv.norm(PUB), False)
    two = sorted([((pub_t,), "Role::Spec", "Direction::Universal", True), ((pub_f,), "Role::Assumption", "Direction::Universal", True)], key=_lv.stable_key)
    one = [((), "Role::Spec", "Direction::Universal", True)]
    got_def, got_unq = outcome(shapes["definition"]), outcome(shapes["unquantified-definition"])
    ctx.add("FLOW-ROUTE", "control:public-definition", got_def == two and got_unq == two and any(o[1] == "Role::Spec" for o in got_def), site,
            "the completed definition of a public predicate -> role Spec, direction Universal, formula unchanged", construct=got_def)
    ctx.add("FLOW-ROUTE", "control:private-definition", got_def == two and got_unq == two and any(o[1] == "Role::Assumption" for o in got_def), site,
            "the completed definition of a private predicate -> role Assumption, direction Universal, formula unchanged", construct=got_def)
    others_ = {k_: outcome(shapes[k_]) for k_ in ("constraint", "equivalence-of-non-atom", "exists")}
    ctx.add("FLOW-ROUTE", "control:constraint", all(v_ == one for v_ in others_.values()), site,
            "any other formula (a constraint, an equivalence whose left side is no atom, an existential) -> role Spec, direction Universal, formula unchanged", construct=others_)
    ctx.add("FLOW-ROUTE", "control:arms", len(finders) == 1, site, "one function finds the defined predicate of a formula: %s" % [hq.last(f_) for f_ in finders])
    hp = fx.bodies[finders[0]][0] if len(finders) == 1 else None
    if hp is None:
        raise AnalysisGap("the function that finds the defined predicate of a formula was not found")
    # the finder per shape: through universal quantifiers to an equivalence whose left side is an atom
    got_hp = {k_: _lv.norm(expand(("call", __import__("rules.flow", fromlist=["short"]).short(finders[0]), (sh_,)))) for k_, sh_ in shapes.items()}
    some_p = K("Option::Some", **{"0": ("call", "Atom::predicate", (("param", "$atom"),))})
    none_p = K("Option::None")
    ok = got_hp == {"definition": some_p, "unquantified-definition": some_p, "constraint": none_p, "equivalence-of-non-atom": none_p, "exists": none_p}
    # every other way to miss the accepted shape: each connective but <-> with an atom on the left, the atom on the right only, a bare atom,
    # a negated atom - bare and under a universal quantifier
    FA = lambda f_: K("Formula::QuantifiedFormula", quantification=K("Quantification", quantifier=K("Quantifier::Forall"), variables=("param", "$vs")), formula=f_)
    misses = {}
    for conn in fx.variants("syntax_tree::fol::sigma_0::BinaryConnective"):
        if conn != "Equivalence":
            misses["atom %s F" % conn] = K("Formula::BinaryFormula", connective=K("BinaryConnective::" + conn), lhs=ATOMF, rhs=("param", "$B"))
        misses["(not G) %s atom" % conn] = K("Formula::BinaryFormula", connective=K("BinaryConnective::" + conn), lhs=K("Formula::UnaryFormula", connective=("param", "$u"), formula=("param", "$g")), rhs=ATOMF)
    misses["atom"] = ATOMF
    misses["not atom"] = K("Formula::UnaryFormula", connective=("param", "$u"), formula=ATOMF)
    for k_, sh_ in sorted(misses.items()):
        for name_, shape_ in ((k_, sh_), ("forall " + k_, FA(sh_))):
            r_ = _lv.norm(expand(("call", __import__("rules.flow", fromlist=["short"]).short(finders[0]), (shape_,))))
            got_hp[name_] = r_
            ok = ok and r_ == none_p
    ok = ok and _lv.norm(expand(("call", __import__("rules.flow", fromlist=["short"]).short(finders[0]), (FA(FA(EQV)),)))) == some_p
    ctx.add("TPL", "head_predicate", ok, ctx.site(hp), "the defined predicate: forall* (p(..) <-> F) gives p, every other formula none", construct=got_hp)
    # renaming: only the program side, with the intersection of the private sets, suffix "p"
    mapping = rN[2][1]
    inter = [x for x in sym.subterms(mapping) if isinstance(x, tuple) and x[:2] == ("call", "IndexSet::intersection")]
    # the two private sets are the operands of that intersection: the one computed from self.program is the program's
    ops = list(inter[0][2]) if len(inter) == 1 and len(inter[0][2]) == 2 else [None, None]
    pp = next((o for o in ops if o is not None and "self.program" in repr(o)), None)
    sp = next((o for o in ops if o is not None and o is not pp), None)
    ok = rN[2][0] == r0 and len(inter) == 1 and set(inter[0][2]) == {sp, pp} and sp is not None and pp is not None
    ctx.add("FLOW-PIPE", "rename:program-side", ok, site, "rename_predicates is applied to the translated program with the intersection of both private predicate sets")
    ctx.add("FLOW-PIPE", "rename:not-specification", "rename_predicates" not in repr(left), site, "the specification side is never renamed")
    # private predicates of a side = ALL its predicates (heads and bodies) that are not public
    PUBLIC = ("call", "UserGuide::public_predicates", (("place", "self.user_guide"),))
    NOTPUB = ("closure", ("p",), ("op", "Not", ("call", "IndexSet::contains", (PUBLIC, ("param", "p")))))

    def private_of(src):
        return {("call", "Iterator::filter", (src, NOTPUB)), ("call", "Iterator::filter", (("call", "Iterator::map", (src, ("fn", "from"))), NOTPUB))}
    pp_ok = pp in private_of(("call", "Program::predicates", (("place", "self.program"),)))
    sp_ok = False
    if sp is not None and sp[0] == "match" and sp[1] == ("place", "self.specification"):
        arms = {a[0]: a[-1] for a in sp[2]}
        L = ("proj", ("place", "self.specification"), (("Either::Left", "0"),))
        R_ = ("proj", ("place", "self.specification"), (("Either::Right", "0"),))
        sp_ok = len(arms) == 2 and arms.get("Either::Left(_)") in private_of(("call", "Program::predicates", (L,))) and \
            arms.get("Either::Right(_)") in private_of(("call", "Specification::predicates", (R_,)))
    ctx.add("FLOW-PIPE", "private-sets", pp_ok and sp_ok, site,
            "private predicates of a side = all predicates of that side (Program::predicates / Specification::predicates: heads and bodies) that are not public: program %s, specification %s" % (pp_ok, sp_ok))
    tk_name = hq.local_name_of_arg(b["body"], "ProofOutline::from_specification", 1, "taken_predicates")
    tk = ev.last_env.get(tk_name, [None])[-1]
    rt = repr(tk)
    try:
        ct_ = repr(_comp.canon(tk)) if tk is not None else ""      # one chain over both lists, flat-mapped, scans each list like a loop of its own
    except Exception:
        ct_ = ""
    ctx.add("FLOW-PIPE", "taken-after-rename", tk is not None and "rename_predicates" in rt and max(rt.count("Formula::predicates"), ct_.count("'at', ('call', 'Formula::predicates'")) >= 2 and "input_predicates" in rt, site,
            "taken_predicates = inputs + predicates of left + predicates of the renamed right")
    # user guide assumptions and proof outline placeholders
    uga = ev.last_env.get(hq.local_name_of_field(b["body"], "ValidatedExternalEquivalenceTask", "user_guide_assumptions", "user_guide_assumptions"), [None])[-1]
    pushes = [x for x in sym.subterms(uga) if isinstance(x, tuple) and x[:1] == ("upd",) and x[2] == "push"]
    ok = len(pushes) == 1 and pushes[0][3] == (("call", "AnnotatedFormula::replace_placeholders", (("each", ("call", "UserGuide::formulas", (UG,))), PH)),)
    ctx.add("FLOW-SAN", "placeholders:user-guide", ok, site, "every kept user-guide assumption is pushed after replace_placeholders(placeholders)", construct=pushes[:1])
    poc = ev.last_env.get(hq.local_name_of_let_with_call(b["body"], "ProofOutline::from_specification", "proof_outline_construction"), [None])[-1]
    ok = poc is not None and poc[0] == "try" and poc[1][:2] == ("call", "ProofOutline::from_specification") and poc[1][2][0] == ("place", "self.proof_outline") and poc[1][2][2] == PH \
        and poc[1][2][1] == tk
    ctx.add("FLOW-SAN", "placeholders:proof-outline", ok, site, "the proof outline is built by from_specification(self.proof_outline, taken_predicates, placeholders)")
    fs = fx.fn("ProofOutline::from_specification")
    loops = [l for l in hq.for_loops(fs["body"]) if hq.field_path(l[1]) == "specification.formulas"]
    ok = False
    if len(loops) == 1:
        _, _, pat, lbody = loops[0]
        vids = [p["id"] for p in pat_bindings(pat)]
        first = hq.stmts_of(lbody)[0] if lbody.get("k") == "Block" and hq.stmts_of(lbody) else None
        uses = hq.uses_of(lbody, vids[0]) if len(vids) == 1 else []
        if first is not None and first["k"] == "LetStmt" and len(uses) == 1:
            init = strip(first["init"])
            ok = init.get("k") == "MethodCall" and (callee(init) or "").endswith("AnnotatedFormula::replace_placeholders") and hq.contains(init["recv"], uses[0]) \
                and local_of(init["args"][0]) in {p_.get("name") for p_ in fs["params"]}
    ctx.add("FLOW-SAN", "placeholders:outline-entries", ok, ctx.site(fs),
            "every outline entry is rebound to its placeholder-free version as the first statement of the loop and the raw entry is not used otherwise")
    # validated task fields
    vt = [x for x in sym.subterms(ev.function(b)) if isinstance(x, tuple) and x[:2] == ("ctor", "ValidatedExternalEquivalenceTask")]
    if len(vt) != 1:
        raise AnalysisGap("ValidatedExternalEquivalenceTask literal not found")
    f = dict(vt[0][2])
    ok = f.get("left") == ("fieldof", left, "formulas") and f.get("right") == ("fieldof", rN, "formulas") and f.get("user_guide_assumptions") == uga \
        and f.get("direction") == ("place", "self.direction") and f.get("break_equivalences") == ("place", "self.break_equivalences") \
        and f.get("decomposition") == ("place", "self.decomposition")
    ctx.add("FLOW-ROUTE", "validated-fields", ok, site, "the validated task receives left, the renamed right, the kept assumptions and the three flags unchanged")


# ---------------------------------------------------------------------------------------
ROLES = ["Assumption", "Spec"]
DIRS = ["Universal", "Forward", "Backward"]

REF_LEFT = {
    ("Assumption", "Universal"): [("stable_premises", "Axiom", False)],
    ("Assumption", "Forward"): [("forward_premises", "Axiom", False)],
    ("Assumption", "Backward"): [("warning", None, False)],
    ("Spec", "Universal"): [("forward_premises", "Axiom", False), ("backward_conclusions", "Conjecture", "BREAK")],
    ("Spec", "Forward"): [("forward_premises", "Axiom", False)],
    ("Spec", "Backward"): [("backward_conclusions", "Conjecture", "BREAK")],
}


def mirror_name(s):
    if s is None:
        return s
    return s.replace("forward", "\0").replace("backward", "forward").replace("\0", "backward")


def mirror_dir(d):
    return {"Forward": "Backward", "Backward": "Forward"}.get(d, d)


def route_table(ctx, b, side):
    """The routing of one formula, decided per (role, direction, break flag): `decompose` is evaluated on a task whose `side` is the singleton
    list [F] (F an annotated formula with that role and direction), the other side empty; the buckets are read off the assembled task that
    is built at the end.  Entry: (bucket, role given to the problem formula, is it an element of break_equivalences(F)?)."""
    from .. import ftpl
    fx = ctx.facts

    def C(n, **f):
        return ("ctor", n, tuple(sorted(f.items())))
    other = "right" if side == "left" else "left"
    table = {}
    for role, d, brk in itertools.product(ROLES + ["Lemma", "Definition", "InductiveLemma"], DIRS, [False, True]):
        F = C("AnnotatedFormula", role=C("Role::" + role), direction=C("Direction::" + d), name=("param", "$n"), formula=("param", "$f"))
        BR = ("call", "ht::break_equivalences_annotated_formula", (F,))
        selfv = C("ValidatedExternalEquivalenceTask", user_guide_assumptions=("param", "$uga"), proof_outline=("param", "$po"), decomposition=("param", "$dec"),
                  direction=("param", "$dir"), break_equivalences=("lit", brk), **{side: ("list", (F,)), other: ("list", ())})
        ev = sym.Eval(fx, inline_depth=0)
        ev.unroll_literal_lists = True
        ev.panics = []
        v = ev.function(b, [selfv])
        effs = []
        if any(not c for c, _ in ev.panics) or any(isinstance(x, tuple) and x[:1] == ("panic",) for x in sym.subterms(v)) or (isinstance(v, tuple) and v[:1] == ("panic",)):
            table[(role, d, brk)] = [("panic", None, False)]
            continue
        asm = [x for x in sym.subterms(v) if isinstance(x, tuple) and x[:2] == ("ctor", "AssembledExternalEquivalenceTask")]
        if len(asm) != 1:
            raise AnalysisGap("routing of self.%s (%s, %s, break=%s): no single assembled task in the result" % (side, role, d, brk))
        buckets = {k_: t for k_, t in asm[0][2] if k_.endswith(("_premises", "_conclusions"))}
        pw = [x for x in sym.subterms(v) if isinstance(x, tuple) and x[:2] == ("call", "WithWarnings::preface_warnings") and len(x[2]) == 2]
        if pw:
            buckets["warning"] = pw[0][2][1]

        def item(x, bucket):
            if isinstance(x, tuple) and x[:2] == ("call", "AnnotatedFormula::into_problem_formula") and len(x[2]) == 2 and x[2][1][:1] == ("ctor",):
                prole = x[2][1][1].split("::")[-1]
                src = x[2][0]
                if src == F:
                    return (bucket, prole, False)
                if src in (("each", BR), ("at", BR), ("each", ("fieldof", BR, "formulas")), ("at", ("fieldof", BR, "formulas"))):
                    return (bucket, prole, True)     # an element of the broken formula (iterated as a Specification or through its `formulas`)
                return ("?foreign-formula", prole, False)
            if bucket == "warning":
                return ("warning", None, False)
            return ("?" + sym.pretty(x)[:40], None, False)

        def parse(t, bucket):
            if not isinstance(t, tuple):
                return [("?" + repr(t)[:30], None, False)]
            if t[:1] == ("acc",):
                return parse(t[1], bucket)
            if t == ("call", "Vec::new", ()) or t == ("list", ()):
                return []
            if t[:1] == ("upd",) and t[2] == "push" and len(t[3]) == 1:
                return parse(t[1], bucket) + [item(t[3][0], bucket)]
            if t[:1] == ("upd",) and t[2] in ("extend", "append") and len(t[3]) == 1:
                y = t[3][0]
                if isinstance(y, tuple) and y[:1] == ("list",):
                    return parse(t[1], bucket) + [item(x, bucket) for x in y[1]]
                # an iterator chain (map over a literal list, over the parts of the broken formula, through a closure or a helper): its elements
                from .. import comp as _comp
                _comp.use(fx)
                try:
                    gs_ = _comp.coll(y)
                except _comp.NotAComprehension:
                    gs_ = None
                if gs_ is not None and gs_ and all(len(alts_) == 1 and not alts_[0][0] for _, alts_ in gs_):
                    return parse(t[1], bucket) + [item(alts_[0][1], bucket) for _, alts_ in gs_]
                cy = ftpl.canon_iter(y)
                if isinstance(cy, tuple) and cy[:1] == ("upd",) and cy[2] == "push" and leaves_strip(cy[1]) == ("call", "Vec::new", ()):
                    return parse(t[1], bucket) + [item(cy[3][0], bucket)]
                return parse(t[1], bucket) + [("?" + sym.pretty(y)[:40], None, False)]
            if bucket == "stable_premises" and t[:2] == ("call", "Iterator::map"):
                return []   # the user-guide assumptions (checked separately: route:user-guide)
            return [("?" + sym.pretty(t)[:40], None, False)]
        for bucket, t in sorted(buckets.items()):
            effs += parse(t, bucket)
        table[(role, d, brk)] = effs
    return table


def leaves_strip(t):
    from .. import leaves
    return leaves.strip_acc(t)


def rule_routing(ctx):
    fx = ctx.facts
    b = fx.fn("decompose", impl_self=EE + "ValidatedExternalEquivalenceTask")
    site = ctx.site(b)
    tl = route_table(ctx, b, "left")
    tr = route_table(ctx, b, "right")
    n = 0
    for side, table in (("left", tl), ("right", tr)):
        for role in ROLES:
            for d in DIRS:
                for brk in (False, True):
                    if side == "left":
                        ref = REF_LEFT[(role, d)]
                    else:
                        ref = [(mirror_name(bk), pr, x) for bk, pr, x in REF_LEFT[(role, mirror_dir(d))]]
                    ref = [(bk, pr, (brk if x == "BREAK" else x)) for bk, pr, x in ref]
                    got = table[(role, d, brk)]
                    n += 1
                    ctx.add("FLOW-ROUTE", "route:%s/%s/%s/break=%s" % (side, role, d, brk), sorted(got, key=repr) == sorted(ref, key=repr), site,
                            "%s formula with role %s, direction %s -> %s (reference %s)" % (side, role, d, got, ref), construct=got)
        for role in ("Lemma", "Definition", "InductiveLemma"):
            got = {tuple(table[(role, d, brk)]) for d in DIRS for brk in (False, True)}
            ctx.add("FLOW-ROUTE", "route:%s/%s" % (side, role), got == {(("panic", None, False),)}, site,
                    "outline-only role %s is not routed (unreachable after validation, see TAB-VALID)" % role, nontrivial=False)
    # mirror symmetry, independent of the reference
    sym_ok = all(sorted((mirror_name(bk), pr, x) for bk, pr, x in tl[(role, d, brk)]) == sorted(tr[(role, mirror_dir(d), brk)])
                 for role in ROLES for d in DIRS for brk in (False, True))
    ctx.add("FLOW-ROUTE", "route:mirror", sym_ok, site, "the routing of the right side is the mirror image (forward<->backward) of the left side")
    ctx.floor("FLOW-ROUTE", "route_cases", n, 24)
    # user guide assumptions: all to stable premises as axioms
    ev = sym.Eval(fx, inline_depth=0)
    ev.function(b)
    sp = ev.last_env.get(hq.local_name_of_field(b["body"], "AssembledExternalEquivalenceTask", "stable_premises", "stable_premises"), [None])[0]
    # initial value before the loops is the first binding; take the `acc` root
    root = sp
    while isinstance(root, tuple) and root[0] in ("upd", "acc", "phi"):
        if root[0] == "phi":
            root = root[2][0][1]
        else:
            root = root[1]
    ref = ("call", "Iterator::map", (("place", "self.user_guide_assumptions"),
                                     ("closure", ("a",), ("call", "AnnotatedFormula::into_problem_formula", (("param", "a"), ("ctor", "Role::Axiom", ()))))))
    ctx.add("FLOW-ROUTE", "route:user-guide", root == ref, site, "every user-guide assumption is a stable premise with role axiom", construct=root)
    # assembled task fields pass through unchanged
    asm = [x for x in sym.subterms(ev.function(b)) if isinstance(x, tuple) and x[:2] == ("ctor", "AssembledExternalEquivalenceTask")]
    f = dict(asm[0][2]) if asm else {}
    ok = f.get("proof_outline") == ("place", "self.proof_outline") and f.get("direction") == ("place", "self.direction") and f.get("decomposition") == ("place", "self.decomposition")
    ctx.add("FLOW-ROUTE", "assembled-fields", ok, site, "proof outline, direction and decomposition are handed on unchanged")


def rule_assembled(ctx):
    fx = ctx.facts
    b = fx.fn("decompose", impl_self=EE + "AssembledExternalEquivalenceTask")
    site = ctx.site(b)
    body = b["body"]
    blocks = {}
    for n in hq.nodes(body, "If"):
        ck = flow.cond_key(n["cond"])
        if ck.startswith("self.direction in"):
            blocks[ck] = n["then"]
    gates = {"forward": "self.direction in {Direction::Forward,Direction::Universal}", "backward": "self.direction in {Direction::Backward,Direction::Universal}"}
    ctx.add("FLOW-ROUTE", "assembled:gates", sorted(blocks) == sorted(gates.values()), site, "direction gates: %s" % sorted(blocks))
    reads = {}
    for d, g in gates.items():
        blk = blocks.get(g)
        if blk is None:
            continue
        r = set()
        for n in walk(blk):
            fp = hq.field_path(n) if n.get("k") == "Field" else None
            if fp and fp.startswith("self."):
                r.add(fp)
        # keep maximal paths only
        r = {p for p in r if not any(q != p and q.startswith(p + ".") for q in r)}
        reads[d] = r
        ref = {"self.stable_premises", "self.%s_premises" % d, "self.%s_conclusions" % d, "self.proof_outline.%s_definitions" % d,
               "self.proof_outline.%s_lemmas" % d, "self.decomposition"}
        ctx.add("FLOW-READ", "assembled:%s" % d, r == ref, site, "the %s problems read exactly %s (reference %s)" % (d, sorted(r), sorted(ref)), construct=sorted(r))
    if len(reads) == 2:
        ctx.add("FLOW-READ", "assembled:mirror", {mirror_name(x) for x in reads["forward"]} == reads["backward"], site, "the backward block reads the mirror image of the forward block")
    # builder chains
    chains = tasks.problem_chains(body)
    by = {c["name"]: c for c in chains}
    from .. import comp
    comp.use(fx)
    cv = comp.canon(sym.Eval(fx, inline_depth=0).function(b, [("param", "$self")]))
    for d in ("forward", "backward"):
        fin = by.get("%s_problem" % d)
        out = by.get("%s_outline_{}_{}" % d)
        if not fin or not out:
            ctx.bad("FLOW-ROUTE", "assembled:%s:chains" % d, site, "builder chains for %s not found: %s" % (d, sorted(by)))
            continue
        lets = hq.let_by_id(body)

        def src(arg):
            s = flow.summ(arg)
            pl = flow.places_in(s)
            loc = [nm for nm, _ in flow.locals_in(s)]
            cs = [c for c in flow.callees_in(s) if c not in ("Iterator::flat_map",)]
            return (tuple(pl), tuple(loc), tuple(cs))

        steps = [(m, src(a[0]) if a else None) for m, a, _ in fin["steps"]]

        def norm_places(s_):
            # closure / loop variable places (`g.consequences`) are kept by their field only
            if s_ is None:
                return None
            return (tuple(p if p.startswith("self.") else "*." + p.split(".", 1)[1] for p in s_[0]), len(s_[1]), s_[2])

        ref = [("add_annotated_formulas", (("self.stable_premises",), 0, ())),
               ("add_annotated_formulas", (("self.%s_premises" % d,), 0, ())),
               ("add_annotated_formulas", (("self.proof_outline.%s_lemmas" % d, "*.consequences"), 0, ())),
               ("add_annotated_formulas", (("self.%s_conclusions" % d,), 0, ())),
               ("rename_conflicting_symbols", None), ("create_unique_formula_names", None), ("decompose", (("self.decomposition",), 0, ()))]
        got = [(m, norm_places(s_)) for m, s_ in steps]
        ctx.add("FLOW-ROUTE", "assembled:%s:final" % d, got == ref, site,
                "final %s problem = stable premises, %s premises, lemma consequences, %s conclusions; then renaming, naming, decomposition" % (d, d, d), construct=steps)
        lem = [a for m, a, _ in fin["steps"] if a and "lemmas" in repr(flow.summ(a[0]))]
        ok = bool(lem) and "consequences" in repr(flow.summ(lem[0][0])) and "conjectures" not in repr(flow.summ(lem[0][0]))
        ctx.add("FLOW-ROUTE", "assembled:%s:lemma-consequences" % d, ok, site, "lemmas enter the final problem through their consequences (axioms), not their conjectures")
        # the outline problems, decided on what decompose computes (comprehension form): one problem per (lemma, conjecture of the lemma), built from
        # the axioms as they stand when the lemma is reached plus that one conjecture
        SELF_ = ("param", "$self")
        LEM = ("fieldof", ("fieldof", SELF_, "proof_outline"), d + "_lemmas")
        CONJ = ("fieldof", ("at", LEM), "conjectures")

        def F(x):
            return ("fieldof", SELF_, x)

        def each_of(srcs, f=lambda e: e):
            return (srcs, ((frozenset(), f(("at", srcs[-1]))),))
        DEFS = ("fieldof", ("fieldof", SELF_, "proof_outline"), d + "_definitions")
        AX0 = ("coll", (each_of((F("stable_premises"),)), each_of((F(d + "_premises"),)),
                        each_of((DEFS,), lambda e: ("call", "AnnotatedFormula::into_problem_formula", (e, ("ctor", "Role::Axiom", ()))))))
        name = ("format", d + "_outline_{}_{}", (("idx", (LEM,)), ("idx", (CONJ,))))
        want = ("call", "Problem::create_unique_formula_names", (("call", "Problem::rename_conflicting_symbols", (("call", "Problem::add_annotated_formulas", (
            ("call", "Problem::add_annotated_formulas", (("call", "Problem::with_name", (name,)), ("loop-head", AX0))), ("call", "iter::once", (("at", CONJ),)))),)),))
        groups = [x for x in sym.subterms(cv) if isinstance(x, tuple) and len(x) == 2 and x[0] == (LEM, CONJ) and isinstance(x[1], tuple)]
        elems = list(dict.fromkeys(e for g in groups for _, e in g[1]))     # the same loop can show up in both branches of the direction test
        ctx.add("FLOW-ROUTE", "assembled:%s:outline" % d, elems == [want], site, "outline problem = accumulated axioms + one conjecture; renaming; naming",
                construct=None if elems == [want] else elems[:2])
        got_ax = list(dict.fromkeys(x[1] for e in elems for x in sym.subterms(e) if isinstance(x, tuple) and x[:1] == ("loop-head",) and len(x) == 2))
        ctx.add("FLOW-ROUTE", "assembled:%s:axioms" % d, got_ax == [AX0], site,
                "outline axioms start from the stable premises and are extended by %s premises, %s definitions (role axiom) and, after each lemma, its consequences "
                "(the last part: C13's SEQ obligations, run below)" % (d, d), construct=None if got_ax == [AX0] else got_ax[:1])
    # after each lemma its own consequences join the axioms (C13's sequencing obligations on the same function)
    from . import c13
    sub = type(ctx)(ctx.prop, ctx.tier, ctx.facts)
    c13.rule_sequencing(sub)
    ctx.obls.extend(o for o in sub.obls if ":append-" in o["key"] or ":outline-problem" in o["key"])


def rule_fresh_rename(ctx):
    fx = ctx.facts
    b = fx.fn("rename_predicates", impl_self="syntax_tree::fol::sigma_0::Atom")
    v = sym.Eval(fx, inline_depth=0).function(b)
    fm = [x for x in sym.subterms(v) if isinstance(x, tuple) and x[:1] == ("format",)]
    tested = "contains" in repr(v) and "taken" in repr(v)
    ctx.add("FRESH-LIT", "rename_predicates:_p", bool(fm) and tested, ctx.site(b),
            "a private predicate of the program that clashes with one of the specification is renamed to `%s`; the new name is not checked against the "
            "predicates already present on either side (source TODO), so it can collide with an existing predicate" % (fm[0][1] if fm else "?"), construct=fm[:1])
    ctx.add("FRESH-LIT", "rename_predicates:keyed-by-predicate", v[0] == "match" and "Atom::predicate" in repr(v[1]) and "IndexMap::get" in repr(v[1]), ctx.site(b),
            "the renaming is keyed by (symbol, arity) of the atom")
    # propagation through all formulas of the specification
    f = fx.fn("rename_predicates", impl_self="syntax_tree::fol::sigma_0::Formula")
    vf = sym.Eval(fx, inline_depth=0).function(f)
    ok = vf[:2] == ("call", "Apply::apply") and "AtomicFormula::rename_predicates" in repr(vf) or "RenamePredicates::rename_predicates" in repr(vf)
    ctx.add("FLOW-PIPE", "rename:all-atoms", ok and vf[:2] == ("call", "Apply::apply"), ctx.site(f), "renaming visits every atomic formula through Apply::apply")


def rule_definitions_survive_simplification(ctx):
    """decompose simplifies the completed theories BEFORE head_predicate classifies each formula as a definition (forall* (atom <-> body)) or a
    constraint.  A rewrite whose left-hand side has `<->` at its root can turn a completed definition (e.g. `p(V) <-> #false`) into a
    non-equivalence; it would then be routed as a constraint (a conjecture) instead of a definition (an assumption)."""
    from .. import rw
    from . import c07
    fx = ctx.facts
    pf = c07.portfolios(fx)
    n = 0
    for name, ps in sorted(pf.items()):
        for p_ in ps:
            bs = fx.bodies.get(p_)
            if not bs:
                continue
            try:
                rules = rw.rules_of_fn(bs[0])
            except rw.NotSchematic:
                continue
            for lab, l, r, eqs in rules:
                n += 1
                root = l[1] if l[0] == "bin" else None
                can_be_iff = root == "iff" or (isinstance(root, tuple) and root[0] == "cvar" and "iff" in root[2])
                keeps = r[0] == "bin" and (r[1] == "iff" or r[1] == root) and r[2] == l[2]
                ctx.add("FLOW-PIPE", "definitions-survive:%s:%s" % (hq.last(p_), lab), (not can_be_iff) or keeps, ctx.site(bs[0]),
                        "%s  =>  %s : %s" % (rw.show(l), rw.show(r), "does not match an equivalence at its root" if not can_be_iff else
                                              ("keeps the defined atom and the equivalence" if keeps else "rewrites the root of an equivalence: a completed definition such as `p(V) <-> #false` would no longer be recognised by head_predicate")),
                        nontrivial=can_be_iff)
    ctx.floor("FLOW-PIPE", "schematic_rules_checked", n, 5)


def rule_break_preserves_meaning(ctx):
    """conclusions are split by break_equivalences before they become conjectures: the split must be meaning preserving (shared with C19)"""
    from .c19 import rule_break
    rule_break(ctx)


def rule_admission_shared(ctx):
    """the obligations are stated for admissible tasks only: the precondition checks (tightness, private recursion against the private predicates
    of the *same* side, input / output discipline) must be enforced where C11 says they are - a recursive private definition that slips
    through becomes an axiom of every problem"""
    from . import c11
    sub = type(ctx)(ctx.prop, ctx.tier, ctx.facts)
    c11.rule_enforcement(sub)
    ctx.obls.extend(sub.obls)


def rule_placeholders_reach_every_term(ctx):
    """FLOW-SAN shows that every formula source passes replace_placeholders; this shows that replace_placeholders itself reaches every term of a
    formula (an assumption `n > 0` must speak about the integer placeholder n, not about a symbolic constant)"""
    from .. import collect
    collect.check_replace_placeholders(ctx, "FLOW-SAN", ctx.facts)


def rule_parser_defaults(ctx):
    """What an omitted annotation means is decided by the parser, before any of the routing above sees the formula: a placeholder declared
    without a sort is a general placeholder (`input: n.`), a formula annotated without a direction is universal (`spec: F.`).  The
    translate_pair functions are evaluated on a missing and on a present optional pair."""
    from .. import leaves as _lv, comp as _comp
    fx = ctx.facts
    _comp.use(fx)
    P = "parsing::fol::sigma_0::pest::"
    NONE, SOME = ("ctor", "Option::None", ()), ("ctor", "Option::Some", (("0", ("param", "$p")),))
    b = fx.fn("translate_pair", impl_self=P + "PlaceholderDeclarationParser")
    v = sym.Eval(fx, inline_depth=0).function(b)
    sort = dict(v[2]).get("sort") if isinstance(v, tuple) and v[:2] == ("ctor", "PlaceholderDeclaration") else None
    nexts = sorted({x for x in sym.subterms(sort) if isinstance(x, tuple) and x[:2] == ("call", "Iterator::next")}, key=repr) if sort else []
    got = {}
    if len(nexts) == 1:
        for k_, val in (("missing", NONE), ("present", SOME)):
            got[k_] = _comp.decide_literals(_comp.case_of_case(_lv.replace(sort, {nexts[0]: val})))
    refs = sorted({n.get("callee_res") for n in walk(b["body"]) if n.get("k") == "Path" and str(n.get("callee_res", "")).endswith("::translate_pair")})
    ok = got.get("missing") == ("ctor", "Sort::General", ()) and got.get("present") == ("call", "translate_pair", (("param", "$p"),)) \
        and refs == ["<%sSortParser as parsing::PestParser>::translate_pair" % P]
    ctx.add("TAB-DEFAULT", "placeholder-sort", ok, ctx.site(b), "a placeholder declared without `-> sort` is general; with one it has the sort the sort parser reads", construct=got)
    d = [x for x in getattr(fx, "all_bodies", fx.body_list) if x["def_path"] == "<syntax_tree::fol::sigma_0::Direction as std::default::Default>::default"]
    dv = sym.Eval(fx, inline_depth=0).function(d[0]) if len(d) == 1 else None
    ctx.add("TAB-DEFAULT", "direction:default", dv == ("ctor", "Direction::Universal", ()), ctx.site(d[0]) if d else "src/syntax_tree/fol/sigma_0.rs",
            "the default direction is universal", construct=dv)
    a = fx.fn("translate_pair", impl_self=P + "AnnotatedFormulaParser")
    ev = sym.Eval(fx, inline_depth=0)
    av = ev.function(a)
    dirs = {dict(x[2]).get("direction") for x in sym.subterms(av) if isinstance(x, tuple) and x[:2] == ("ctor", "AnnotatedFormula")}
    flat_ = {y for t_ in dirs for y in sym.subterms(t_) if isinstance(y, tuple)} | set(dirs)
    has_default = any(y[:2] in (("call", "Default::default"), ("call", "Option::unwrap_or_default")) or y == ("ctor", "Direction::Universal", ()) for y in flat_ if isinstance(y, tuple))
    others = sorted(y[1] for y in flat_ if isinstance(y, tuple) and y[:1] == ("ctor",) and y[1].startswith("Direction::") and y[1] != "Direction::Universal")
    ctx.add("TAB-DEFAULT", "direction:omitted", len(dirs) == 1 and has_default and not others, ctx.site(a),
            "a formula annotated without a direction gets the default direction (no other direction is written into it by the parser): %s" % others, construct=sorted(map(repr, dirs))[:2])


def rule_printed_as_meant_shared(ctx):
    """the obligations reach the prover as TPTP text: integer comparisons go through the integer relation table, which must print each
    relation as itself (C06), and the order axioms over the symbolic constants must state the lexicographic order, consecutive and the
    right way round (C12) - else assumptions such as `n >= 0` or comparisons between constants mean something else than in the programs"""
    from . import c06, c12
    sub = type(ctx)(ctx.prop, ctx.tier, ctx.facts)
    c06.rule_tokens(sub)
    ctx.obls.extend(o for o in sub.obls if o["key"].startswith("TAB-MAP:repr_"))
    sub = type(ctx)(ctx.prop, ctx.tier, ctx.facts)
    c12.rule_chain(sub)
    ctx.obls.extend(sub.obls)


RULES = [rule_parser_defaults, rule_translation, rule_routing, rule_assembled, rule_fresh_rename, rule_definitions_survive_simplification, rule_break_preserves_meaning, rule_admission_shared, rule_placeholders_reach_every_term, rule_printed_as_meant_shared]
