"""C17 — substitution of a term for a variable never captures variables."""
from ..facts import AnalysisGap, callee, callee_generic, local_of, strip, walk
from .. import collect, hq, sym

EXPLANATION = (
    "TPL: Formula::substitute is evaluated per arm: atomic / unary / binary formulas are homomorphic (same constructor, same connective, substitute "
    "on every child); a quantifier that binds the substituted variable returns the formula unchanged; otherwise every bound variable that occurs "
    "in the term is renamed to the first element of Variable::sequence that is neither a variable of the term nor free in the body "
    "(FRESH-TAKEN), the renaming is applied to the body before the outer substitution, the quantifier is rebuilt with the same quantifier symbol "
    "and the renamed variables in place. Term level: GeneralTerm / IntegerTerm / SymbolicTerm::substitute replace a variable only if name and sort "
    "agree and recurse through every operator; Atom and Comparison substitute in every term and guard (COLLECT). SITES: the seven call sites of "
    "Formula::substitute pass a sort-compatible term (table with the origin of each argument), which discharges the two documented panics of "
    "GeneralTerm::substitute. Variable::sequence yields prefix-name + index with the prefix's sort, for all indices.")
UNDECIDED = ["the semantic substitution lemma (logic textbook)", "sufficiency of the candidate test for arbitrarily nested binders beyond the conditions checked"]
ASSUMPTIONS = ["free_variables / variables collectors are complete (checked by COLLECT here)"]

S = "syntax_tree::fol::sigma_0::"
SELF = ("param", "self")
VAR, TERM = ("param", "var"), ("param", "term")
QFm, UF, BF = "Formula::QuantifiedFormula", "Formula::UnaryFormula", "Formula::BinaryFormula"


def P(*path):
    return ("proj", SELF, tuple(path))


def SUB(x):
    return ("call", "Formula::substitute", (x, VAR, TERM))


def rule_formula(ctx):
    fx = ctx.facts
    b = fx.fn("sigma_0::Formula::substitute")
    site = ctx.site(b)
    v = sym.Eval(fx, inline_depth=0).function(b)
    if v[0] != "match" or v[1] != SELF:
        raise AnalysisGap("Formula::substitute is not a match on self")
    arms = list(v[2])
    by = {}
    for a in arms:
        by.setdefault(a[0], []).append(a)
    at = by.get("Formula::AtomicFormula(_)", [None])[0]
    ctx.add("TPL", "atomic", at is not None and at[-1] == ("ctor", "Formula::AtomicFormula", (("0", ("call", "AtomicFormula::substitute", (P(("Formula::AtomicFormula", "0")), VAR, TERM))),)), site,
            "atomic: substitute inside the atomic formula")
    un = by.get("Formula::UnaryFormula{}", [None])[0]
    ctx.add("TPL", "unary", un is not None and un[-1] == ("ctor", UF, (("connective", P((UF, "connective"))), ("formula", SUB(P((UF, "formula")))))), site, "negation: same connective, substitute in the body")
    bi = by.get("Formula::BinaryFormula{}", [None])[0]
    ctx.add("TPL", "binary", bi is not None and bi[-1] == ("ctor", BF, (("connective", P((BF, "connective"))), ("lhs", SUB(P((BF, "lhs")))), ("rhs", SUB(P((BF, "rhs")))))), site,
            "binary: same connective, substitute in both operands (sides kept)")
    q = by.get("Formula::QuantifiedFormula{}", [])
    guarded = [a for a in q if len(a) == 3]
    plain = [a for a in q if len(a) == 2]
    VARS = ("fieldof", P((QFm, "quantification")), "variables")
    BODY = P((QFm, "formula"))
    ok = len(guarded) == 1 and len(plain) == 1 and arms.index(guarded[0]) < arms.index(plain[0]) and \
        guarded[0][1] == ("guard", ("op", "Not", ("call", "slice::contains", (VARS, VAR)))) and plain[0][1] == SELF
    ctx.add("TPL", "bound-variable-untouched", ok, site, "a quantifier that binds the substituted variable (name and sort) returns the formula unchanged; only otherwise the body is entered")
    ctx.add("TPL", "arms", len(arms) == 5, site, "exactly the four formula shapes (quantified split in two)")
    if len(guarded) != 1:
        return
    t = guarded[0][2]
    EACH = ("each", VARS)
    cand = ("call", "Option::unwrap", (("call", "Iterator::find", (("call", "Variable::sequence", (EACH,)), ("closure", ("candidate",), ("bin", "And",
            ("op", "Not", ("call", "IndexSet::contains", (("call", "GeneralTerm::variables", (TERM,)), ("param", "candidate")))),
            ("op", "Not", ("call", "IndexSet::contains", (("call", "Formula::free_variables", (BODY,)), ("param", "candidate")))))))),))
    clash = ("if", ("call", "IndexSet::contains", (("call", "GeneralTerm::variables", (TERM,)), EACH)))
    renamed_body = ("phi", clash, (("then", ("call", "Formula::substitute", (("acc", BODY), EACH, ("call", "From::from[GeneralTerm<-Variable]", (cand,))))), ("else", ("acc", BODY))))
    new_vars = ("phi", clash, (("then", ("upd", ("acc", ("list", ())), "push", (cand,))), ("else", ("upd", ("acc", ("list", ())), "push", (EACH,)))))
    ref = ("call", "Formula::quantify", (("call", "Formula::substitute", (renamed_body, VAR, TERM)), ("fieldof", P((QFm, "quantification")), "quantifier"), new_vars))
    ctx.add("TPL", "quantified", t == ref, site,
            "Q V F: bound variables occurring in the term are renamed first (body and binder list, in place), then the term is substituted, then Q is rebuilt with the same quantifier",
            construct=None if t == ref else sym.pretty(t, width=180)[:1200])
    r = repr(t)
    ctx.add("FRESH-TAKEN", "candidate:not-in-term", repr(("op", "Not", ("call", "IndexSet::contains", (("call", "GeneralTerm::variables", (TERM,)), ("param", "candidate"))))) in r, site,
            "a fresh name must not be a variable of the substituted term")
    ctx.add("FRESH-TAKEN", "candidate:not-free-in-body", repr(("op", "Not", ("call", "IndexSet::contains", (("call", "Formula::free_variables", (BODY,)), ("param", "candidate"))))) in r, site,
            "a fresh name must not be free in the quantifier's body (would be captured by the renamed binder)")
    ctx.add("FRESH-TAKEN", "rename-before-substitute", t[:2] == ("call", "Formula::quantify") and t[2][0][:2] == ("call", "Formula::substitute") and t[2][0][2][0] == renamed_body, site,
            "the renaming substitution of the body happens before (inside) the substitution of the term")
    sq = fx.fn("sigma_0::Variable::sequence")
    vs = sym.Eval(fx, inline_depth=0).function(sq)
    ref = ("call", "Iterator::map", (("ctor", "RangeFrom", (("start", ("lit", 1)),)), ("closure", ("i",), ("ctor", "Variable", (
        ("name", ("format", "{}{}", (("place", "prefix.name"), ("param", "i")))), ("sort", ("place", "prefix.sort")))))))
    ctx.add("FRESH-TAKEN", "sequence", vs == ref, ctx.site(sq), "Variable::sequence(v) = v.name1, v.name2, ... of v's sort: an infinite supply, so find() always succeeds", construct=vs)


def rule_terms(ctx):
    fx = ctx.facts
    ev = lambda n: sym.Eval(fx, inline_depth=0).function(fx.fn(n))
    g = fx.fn("sigma_0::GeneralTerm::substitute")
    v = ev("sigma_0::GeneralTerm::substitute")
    arms = list(v[2]) if v[0] == "match" else []
    keys = [a[0] for a in arms]
    guards = {a[0]: a[1] for a in arms if len(a) == 3}
    ok = keys == ["GeneralTerm::Variable(_)", "GeneralTerm::IntegerTerm(_)", "GeneralTerm::SymbolicTerm(_)", "_"]
    ctx.add("TAB", "general:arms", ok, ctx.site(g), "arms: variable, integer term, symbolic term, everything else unchanged: %s" % keys)
    gv = guards.get("GeneralTerm::Variable(_)")
    ref = ("guard", ("bin", "And", ("bin", "Eq", ("place", "var.name"), ("proj", SELF, (("GeneralTerm::Variable", "0"),))), ("bin", "Eq", ("place", "var.sort"), ("ctor", "Sort::General", ()))))
    ctx.add("TAB", "general:variable", gv == ref and arms and arms[0][2] == TERM, ctx.site(g), "a general variable is replaced iff name and sort (general) agree", construct=gv)
    ctx.add("TAB", "general:integer-gate", guards.get("GeneralTerm::IntegerTerm(_)") == ("guard", ("bin", "Eq", ("place", "var.sort"), ("ctor", "Sort::Integer", ()))), ctx.site(g),
            "integer sub-terms are entered only for an integer variable")
    ctx.add("TAB", "general:symbol-gate", guards.get("GeneralTerm::SymbolicTerm(_)") == ("guard", ("bin", "Eq", ("place", "var.sort"), ("ctor", "Sort::Symbol", ()))), ctx.site(g),
            "symbolic sub-terms are entered only for a symbol variable")
    ctx.add("TAB", "general:other", arms and arms[-1] == ("_", SELF), ctx.site(g), "everything else is returned unchanged")
    i = fx.fn("sigma_0::IntegerTerm::substitute")
    v = ev("sigma_0::IntegerTerm::substitute")
    arms = list(v[2]) if v[0] == "match" else []
    ref0 = ("IntegerTerm::Variable(_)", ("guard", ("bin", "And", ("bin", "Eq", ("place", "var.name"), ("proj", SELF, (("IntegerTerm::Variable", "0"),))), ("bin", "Eq", ("place", "var.sort"), ("ctor", "Sort::Integer", ())))), TERM)
    name_only = ("IntegerTerm::Variable(_)", ("guard", ("bin", "Eq", ("place", "var.name"), ("proj", SELF, (("IntegerTerm::Variable", "0"),)))), TERM)
    gate_ok = guards.get("GeneralTerm::IntegerTerm(_)") == ("guard", ("bin", "Eq", ("place", "var.sort"), ("ctor", "Sort::Integer", ())))
    callers_i = [x["def_path"] for x in fx.body_list for c in hq.calls(x["body"], "sigma_0::IntegerTerm::substitute")]
    only_gated = set(callers_i) <= {i["def_path"], g["def_path"]}
    ctx.add("TAB", "integer:variable", bool(arms) and (arms[0] == ref0 or (arms[0] == name_only and gate_ok and only_gated)), ctx.site(i),
            "an integer variable is replaced iff the name agrees and the substituted variable is integer-sorted (tested here or by the only caller's gate)")

    def IS(x):
        return ("call", "IntegerTerm::substitute", (x, VAR, TERM))
    U, B = "IntegerTerm::UnaryOperation", "IntegerTerm::BinaryOperation"
    d = {a[0]: a[-1] for a in arms}
    ctx.add("TAB", "integer:unary", d.get(U + "{}") == ("ctor", U, (("arg", IS(("proj", SELF, ((U, "arg"),)))), ("op", ("proj", SELF, ((U, "op"),))))), ctx.site(i), "unary minus: same operator, substitute in the argument")
    ctx.add("TAB", "integer:binary", d.get(B + "{}") == ("ctor", B, (("lhs", IS(("proj", SELF, ((B, "lhs"),)))), ("op", ("proj", SELF, ((B, "op"),))), ("rhs", IS(("proj", SELF, ((B, "rhs"),)))))), ctx.site(i),
            "binary operation: same operator, substitute in both operands")
    ctx.add("TAB", "integer:leaves", d.get("IntegerTerm::FunctionConstant(_) | IntegerTerm::Numeral(_) | IntegerTerm::Variable(_)") == SELF, ctx.site(i), "numerals, constants and other variables are unchanged")
    s_ = fx.fn("sigma_0::SymbolicTerm::substitute")
    v = ev("sigma_0::SymbolicTerm::substitute")
    arms = list(v[2]) if v[0] == "match" else []
    ref0 = ("SymbolicTerm::Variable(_)", ("guard", ("bin", "And", ("bin", "Eq", ("place", "var.name"), ("proj", SELF, (("SymbolicTerm::Variable", "0"),))), ("bin", "Eq", ("place", "var.sort"), ("ctor", "Sort::Symbol", ())))), TERM)
    ctx.add("TAB", "symbolic", arms == [ref0, ("_", SELF)], ctx.site(s_), "a symbol variable is replaced iff name and sort (symbol) agree; everything else unchanged")
    # atoms / comparisons / atomic formulas: every term and guard
    at = ev("sigma_0::Atom::substitute")
    ok = at[:2] == ("ctor", "Atom") and dict(at[2]).get("predicate_symbol") == ("place", "self.predicate_symbol") and \
        dict(at[2]).get("terms") == ("upd", ("acc", ("call", "Vec::new", ())), "push", (("call", "GeneralTerm::substitute", (("each", ("place", "self.terms")), VAR, TERM)),))
    ctx.add("COLLECT", "atom", ok, ctx.site(fx.fn("sigma_0::Atom::substitute")), "Atom::substitute: same predicate, every term substituted, order kept", construct=at)
    cm = ev("sigma_0::Comparison::substitute")
    d = dict(cm[2]) if cm[:2] == ("ctor", "Comparison") else {}
    G = ("each", ("place", "self.guards"))
    ok = d.get("term") == ("call", "GeneralTerm::substitute", (("place", "self.term"), VAR, TERM)) and \
        d.get("guards") == ("upd", ("acc", ("call", "Vec::new", ())), "push", (("ctor", "Guard", (("relation", ("fieldof", G, "relation")), ("term", ("call", "GeneralTerm::substitute", (("fieldof", G, "term"), VAR, TERM))))),))
    ctx.add("COLLECT", "comparison", ok, ctx.site(fx.fn("sigma_0::Comparison::substitute")), "Comparison::substitute: the term and every guard term, relations unchanged", construct=cm)
    af = ev("sigma_0::AtomicFormula::substitute")
    d = {a[0]: a[-1] for a in af[2]} if af[0] == "match" else {}
    ok = d.get("AtomicFormula::Atom(_)") == ("ctor", "AtomicFormula::Atom", (("0", ("call", "Atom::substitute", (("proj", SELF, (("AtomicFormula::Atom", "0"),)), VAR, TERM))),)) and \
        d.get("AtomicFormula::Comparison(_)") == ("ctor", "AtomicFormula::Comparison", (("0", ("call", "Comparison::substitute", (("proj", SELF, (("AtomicFormula::Comparison", "0"),)), VAR, TERM))),)) and d.get("_") == SELF
    ctx.add("COLLECT", "atomic-formula", ok, ctx.site(fx.fn("sigma_0::AtomicFormula::substitute")), "atoms and comparisons are entered, #true / #false unchanged")
    # collectors used by substitution
    for meth, leaves in (("variables", {S + "GeneralTerm", S + "IntegerTerm", S + "SymbolicTerm"}),):
        reach = collect.reachable_types(fx, leaves)
        for adt in ("Formula", "AtomicFormula", "GeneralTerm", "IntegerTerm", "Guard"):
            collect.check_method(ctx, "COLLECT", fx, S + adt, meth, reach)
    reach = collect.reachable_types(fx, {S + "GeneralTerm", S + "IntegerTerm", S + "SymbolicTerm"})
    collect.check_method(ctx, "COLLECT", fx, S + "Formula", "free_variables", reach, delegates=("variables",))
    fv = ev("sigma_0::Formula::free_variables")
    q = {a[0]: a[-1] for a in fv[2]}.get("Formula::QuantifiedFormula{}") if fv[0] == "match" else None
    ok = q == ("upd", ("acc", ("call", "Formula::free_variables", (P((QFm, "formula")),))), "shift_remove", (("each", ("fieldof", P((QFm, "quantification")), "variables")),))
    ctx.add("COLLECT", "free_variables:quantifier", ok, ctx.site(fx.fn("sigma_0::Formula::free_variables")), "free(Q V F) = free(F) minus every variable of V (name and sort)", construct=q)


SITES = {
    # enclosing function -> list of (description of the term argument, check on the summary of the argument)
    "sigma_0::Formula::substitute": 5,
    "inductive_lemma": 2,
    "substitute_defined_variables": 1,
    "replacement_helper": 1,
    "simplify_transitive_equality": 1,
}


def rule_sites(ctx):
    fx = ctx.facts
    found = {}
    for b in fx.body_list:
        if b["body"].get("mac", "").startswith("#"):
            continue
        cs = [c for c in walk(b["body"]) if c.get("k") == "MethodCall" and (callee(c) or "").endswith("sigma_0::Formula::substitute")]
        cs += [c for c in walk(b["body"]) if c.get("k") == "Call" and (callee(c) or "").endswith("sigma_0::Formula::substitute")]
        if cs:
            found[b["def_path"]] = (b, cs)
    total = sum(len(v[1]) for v in found.values())
    ctx.floor("SITES", "substitute_call_sites", total, 4)
    for dp, (b, cs) in found.items():
        name = [k for k in SITES if dp.endswith(k) or k in dp]
        ctx.add("SITES", "known-caller:" + hq.last(dp, 2), bool(name) and len(cs) == SITES.get(name[0] if name else "", -1), ctx.site(b),
                "caller of Formula::substitute with %d site(s) is in the sort-compatibility table" % len(cs), nontrivial=False)
    # per-site argument checks
    def arg_of(c):
        return c["args"][1] if c.get("k") == "MethodCall" else c["args"][2]

    def var_of(c):
        return c["args"][0] if c.get("k") == "MethodCall" else c["args"][1]

    for dp, (b, cs) in found.items():
        ev = sym.Eval(fx, inline_depth=0)
        ev.function(b)
        for i, c in enumerate(cs):
            a = strip(arg_of(c))
            key = "%s#%d" % (hq.last(dp, 2), i)
            r = hq.render(a)
            if dp.endswith("Formula::substitute"):
                if local_of(a) == "term":
                    ctx.ok("SITES", key, ctx.site(b, c), "recursive call passes the caller's own (variable, term) pair", nontrivial=False)
                else:
                    raw = arg_of(c)
                    intos = [n for n in walk(raw) if n.get("k") == "MethodCall" and n["method"] == "into" and strip(n["recv"]).get("ty", "").endswith("sigma_0::Variable")]
                    ok = len(intos) == 1 and local_of(a) == "fresh_variable"
                    ctx.add("SITES", key, ok, ctx.site(b, c), "renaming passes Variable.into(): a variable term of the binder's own sort (sequence keeps the sort): %s" % r)
            elif "inductive_lemma" in dp:
                s_ = repr(sym.Eval(fx, inline_depth=0).function(b))
                ok = local_of(a) in ("least_term", "successor") and "('ctor', 'GeneralTerm::IntegerTerm'" in s_ and "Sort::Integer" in s_
                ctx.add("SITES", key, ok, ctx.site(b, c), "the integer induction variable is replaced by an integer term (numeral / successor): %s" % r)
            elif "substitute_defined_variables" in dp:
                ok = local_of(a) == "definition"
                ctx.add("SITES", key, ok, ctx.site(b, c), "the definition comes from find_definition, whose sort table only returns integer terms for integer variables and symbolic terms for symbol variables")
            elif "replacement_helper" in dp:
                ok = local_of(a) == "fvar_term" and "ovar" in hq.render(var_of(c))
                ctx.add("SITES", key, ok, ctx.site(b, c), "a *general* variable (ovar) is replaced by an integer variable term: always compatible")
            elif "simplify_transitive_equality" in dp:
                ok = local_of(a) == "keep" and local_of(var_of(c)) == "drop_var"
                ctx.add("SITES", key, ok, ctx.site(b, c), "drop_var is replaced by the keep variable's term; transitive_equality only returns pairs with sort(keep) a subsort of sort(drop)")
            else:
                ctx.bad("SITES", key, ctx.site(b, c), "unknown caller of Formula::substitute: sort compatibility of %s is not established" % r)
    # the subsort table used by the last site
    sb = fx.fn("unstable::subsort")
    v = sym.Eval(fx, inline_depth=0).function(sb)
    tab = {}
    if v[0] == "match":
        for a in v[2]:
            inner = a[-1]
            if inner[0] == "match":
                for a2 in inner[2]:
                    for alt in a2[0].split(" | "):
                        tab[(a[0], alt)] = a2[-1][1]
    ref = {("Sort::General", "Sort::General"): True, ("Sort::General", "Sort::Integer"): False, ("Sort::General", "Sort::Symbol"): False,
           ("Sort::Integer", "Sort::General"): True, ("Sort::Integer", "Sort::Integer"): True, ("Sort::Integer", "Sort::Symbol"): False,
           ("Sort::Symbol", "Sort::General"): True, ("Sort::Symbol", "Sort::Symbol"): True, ("Sort::Symbol", "Sort::Integer"): False}
    ctx.add("SITES", "subsort-table", tab == ref, ctx.site(sb), "subsort(v1, v2): integer <= general, symbol <= general, reflexive, nothing else", construct=sorted(tab.items()))
    te = fx.fn("unstable::transitive_equality")
    src = [hq.render(n) for n in walk(te["body"]) if n.get("k") == "Call" and (callee(n) or "").endswith("unstable::subsort")]
    ok = len(src) == 8 and all(x.endswith(("subsort(v1, v2)", "subsort(v2, v1)")) for x in src)
    ctx.add("SITES", "keep-is-subsort", ok, ctx.site(te), "every result (keep, drop) of transitive_equality is guarded by subsort(keep, drop): %d tests" % len(src))


RULES = [rule_formula, rule_terms, rule_sites]
