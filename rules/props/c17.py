"""C17 — substitution of a term for a variable never captures variables."""
import re
from ..facts import AnalysisGap, callee, callee_generic, local_of, strip, walk
from .. import collect, hq, sym

EXPLANATION = (
    "Every substitute function is evaluated on each constructor of its receiver (operands opaque; for terms also every sort of the variable and "
    "every constructor of the replacement) and the decision tree of the result must be the one of the definition, so arm order, guards vs tuple "
    "patterns, let-else and extracted helpers do not matter. TPL: Formula::substitute: atomic / unary / binary formulas are homomorphic (same constructor, same connective, substitute "
    "on every child); a quantifier that binds the substituted variable returns the formula unchanged; otherwise every bound variable that occurs "
    "in the term is renamed to the first element of Variable::sequence that is neither a variable of the term nor free in the body "
    "(FRESH-TAKEN), the renaming is applied to the body before the outer substitution, the quantifier is rebuilt with the same quantifier symbol "
    "and the renamed variables in place. Term level: GeneralTerm / IntegerTerm / SymbolicTerm::substitute replace a variable only if name and sort "
    "agree and recurse through every operator; Atom and Comparison substitute in every term and guard (COLLECT). SITES: the seven call sites of "
    "Formula::substitute pass a sort-compatible term (table with the origin of each argument), which discharges the two documented panics of "
    "GeneralTerm::substitute. Variable::sequence yields prefix-name + index with the prefix's sort, for all indices. IDENT: a variable is a set element by name and sort (derived equality).")
UNDECIDED = ["the semantic substitution lemma (logic textbook)", "sufficiency of the candidate test for arbitrarily nested binders beyond the conditions checked"]
ASSUMPTIONS = ["free_variables / variables collectors are complete (checked by COLLECT here)"]

S = "syntax_tree::fol::sigma_0::"
SELF = ("param", "self")
VAR, TERM = ("param", "var"), ("param", "term")
QFm, UF, BF = "Formula::QuantifiedFormula", "Formula::UnaryFormula", "Formula::BinaryFormula"


def P(*path):
    return ("proj", SELF, tuple(path))


def SUB(x):
    return ("call", "Formula::substitute", (x, VAR, TERM))


def _C(n, **f):
    return ("ctor", n, tuple(sorted(f.items())))


def nnf(t):
    """negations pushed inwards (De Morgan, double negation) everywhere in a term"""
    if not isinstance(t, tuple):
        return t
    if t[:2] == ("op", "Not") and isinstance(t[2], tuple):
        x = t[2]
        if x[:2] == ("op", "Not"):
            return nnf(x[2])
        if x[:1] == ("bin",) and x[1] in ("And", "Or"):
            return ("bin", "Or" if x[1] == "And" else "And", nnf(("op", "Not", x[2])), nnf(("op", "Not", x[3])))
    return tuple(nnf(x) for x in t)


def _polar(ts):
    """path facts with `not (single opaque condition)` written as that condition with the opposite polarity"""
    out = []
    for t in ts:
        if t[0] == "not" and len(t[1]) == 1 and t[1][0][0] == "cond":
            c = t[1][0]
            t = ("cond", c[1], not c[2])
        if t[0] == "cond" and isinstance(t[1], tuple) and t[1][:2] == ("op", "Not"):
            t = ("cond", t[1][2], not t[2])
        out.append(t)
    return tuple(out)


def rule_formula(ctx):
    """Formula::substitute decided per case: evaluated on each formula constructor (operands opaque); the decision tree of the result must be the
    one of the definition.  Arm order, guards, extracted helpers and the spelling of boolean conditions do not matter."""
    from .. import leaves
    fx = ctx.facts
    b = fx.fn("sigma_0::Formula::substitute")
    site = ctx.site(b)

    def tree(selfv):
        v = sym.Eval(fx, inline_depth=0).function(b, [selfv, VAR, TERM])
        return sorted(((_polar(ts), nnf(x)) for ts, x in leaves.leaves(v)), key=repr)
    A, CN, Fm, L, R = ("param", "$a"), ("param", "$c"), ("param", "$f"), ("param", "$l"), ("param", "$r")
    got = tree(_C("Formula::AtomicFormula", **{"0": A}))
    ctx.add("TPL", "atomic", got == [((), _C("Formula::AtomicFormula", **{"0": ("call", "AtomicFormula::substitute", (A, VAR, TERM))}))], site, "atomic: substitute inside the atomic formula")
    got = tree(_C(UF, connective=CN, formula=Fm))
    ctx.add("TPL", "unary", got == [((), _C(UF, connective=CN, formula=SUB(Fm)))], site, "negation: same connective, substitute in the body")
    got = tree(_C(BF, connective=CN, lhs=L, rhs=R))
    ctx.add("TPL", "binary", got == [((), _C(BF, connective=CN, lhs=SUB(L), rhs=SUB(R)))], site, "binary: same connective, substitute in both operands (sides kept)")
    Q, VARS, BODY = ("param", "$q"), ("param", "$vars"), ("param", "$body")
    selfq = _C(QFm, quantification=_C("Quantification", quantifier=Q, variables=VARS), formula=BODY)
    got = tree(selfq)
    bound = ("call", "slice::contains", (VARS, VAR))
    kept = [x for ts, x in got if ts == (("cond", bound, True),)]
    entered = [x for ts, x in got if ts == (("cond", bound, False),)]
    ctx.add("TPL", "bound-variable-untouched", len(got) == 2 and kept == [selfq] and len(entered) == 1, site,
            "a quantifier that binds the substituted variable (name and sort) returns the formula unchanged; only otherwise the body is entered: %s" % [list(ts) for ts, _ in got])
    ctx.add("TPL", "arms", len(fx.variants(S + "Formula")) == 4, site, "exactly the four formula shapes")
    if len(entered) != 1:
        return
    t = entered[0]
    EACH = ("each", VARS)
    cand = ("call", "Option::unwrap", (("call", "Iterator::find", (("call", "Variable::sequence", (EACH,)), ("closure", ("candidate",), ("bin", "And",
            ("op", "Not", ("call", "IndexSet::contains", (("call", "GeneralTerm::variables", (TERM,)), ("param", "candidate")))),
            ("op", "Not", ("call", "IndexSet::contains", (("call", "Formula::free_variables", (BODY,)), ("param", "candidate")))))))),))
    clash = ("if", ("call", "IndexSet::contains", (("call", "GeneralTerm::variables", (TERM,)), EACH)))
    renamed_body = ("phi", clash, (("then", ("call", "Formula::substitute", (("acc", BODY), EACH, ("call", "From::from[GeneralTerm<-Variable]", (cand,))))), ("else", ("acc", BODY))))
    new_vars = ("phi", clash, (("then", ("upd", ("acc", ("list", ())), "push", (cand,))), ("else", ("upd", ("acc", ("list", ())), "push", (EACH,)))))
    ref = ("call", "Formula::quantify", (("call", "Formula::substitute", (renamed_body, VAR, TERM)), Q, new_vars))
    t, ref, renamed_body = _shape(t), _shape(ref), _shape(renamed_body)
    ctx.add("TPL", "quantified", t == ref, site,
            "Q V F: bound variables occurring in the term are renamed first (body and binder list, in place), then the term is substituted, then Q is rebuilt with the same quantifier",
            construct=None if t == ref else sym.pretty(t, width=180)[:1200])
    r = repr(t)
    ctx.add("FRESH-TAKEN", "candidate:not-in-term", repr(("op", "Not", ("call", "IndexSet::contains", (("call", "GeneralTerm::variables", (TERM,)), ("param", "$0"))))) in r, site,
            "a fresh name must not be a variable of the substituted term")
    ctx.add("FRESH-TAKEN", "candidate:not-free-in-body", repr(("op", "Not", ("call", "IndexSet::contains", (("call", "Formula::free_variables", (BODY,)), ("param", "$0"))))) in r, site,
            "a fresh name must not be free in the quantifier's body (would be captured by the renamed binder)")
    ctx.add("FRESH-TAKEN", "rename-before-substitute", t[:2] == ("call", "Formula::quantify") and t[2][0][:2] == ("call", "Formula::substitute") and t[2][0][2][0] == renamed_body, site,
            "the renaming substitution of the body happens before (inside) the substitution of the term")
    sq = fx.fn("sigma_0::Variable::sequence")
    vs = sym.Eval(fx, inline_depth=0).function(sq, [("ctor", "Variable", (("name", ("param", "$name")), ("sort", ("param", "$sort"))))])
    ref = ("call", "Iterator::map", (("ctor", "RangeFrom", (("start", ("lit", 1)),)), ("closure", ("$0",), ("ctor", "Variable", (
        ("name", ("format", "{}{}", (("param", "$name"), ("param", "$0")))), ("sort", ("param", "$sort")))))))
    ctx.add("FRESH-TAKEN", "sequence", _shape(vs) == ref, ctx.site(sq), "Variable::sequence(v) = v.name1, v.name2, ... of v's sort: an infinite supply, so find() always succeeds", construct=vs)


def subsort_body(fx):
    """the function that decides `sort(v1) is a subsort of sort(v2)` on two variables: `unstable::subsort`, or - after a refactoring - the one
    function of the classic simplifier with two Variable parameters (receiver included) and a bool result (a trait method for Variable)"""
    try:
        return fx.fn("unstable::subsort")
    except AnalysisGap:
        pass
    VT = "syntax_tree::fol::sigma_0::Variable"
    cands = []
    for b in getattr(fx, "all_bodies", fx.body_list):
        if not b["file"].endswith("simplifying/fol/sigma_0/classic.rs") or "::tests" in b["def_path"] or b.get("ret_ty") != "bool":
            continue
        tys = [str(p_.get("ty", "")).lstrip("&").strip() for p_ in b.get("params", [])]
        if len(tys) == 2 and all(t_ == VT for t_ in tys):
            cands.append(b)
    if len(cands) != 1:
        raise AnalysisGap("anchor: the subsort test on two variables in classic.rs: expected exactly one body, found %d" % len(cands))
    return cands[0]


def _shape(t, depth=0):
    """The term up to the spelling that cannot matter: closure parameters are numbered by nesting depth and position, and a two-way choice on
    a negated condition is the opposite choice on the condition."""
    if not isinstance(t, tuple):
        return t
    if len(t) == 3 and t[0] == "closure" and all(isinstance(p, str) and "/" not in p and "+" not in p for p in t[1]):
        names = tuple("$%d" % (depth + i) for i in range(len(t[1])))
        return ("closure", names, _shape(sym.subst(t[2], {p: ("param", n) for p, n in zip(t[1], names)}), depth + len(names)))
    t = tuple(_shape(x, depth) for x in t)
    if t[:1] == ("call",) and len(t) == 3 and ((t[1] == "Vec::with_capacity" and len(t[2]) == 1) or (t[1] == "Vec::new" and not t[2])):
        return ("list", ())      # an empty list, however it is allocated
    if len(t) == 3 and t[0] == "phi" and t[1][0] == "if" and isinstance(t[1][1], tuple) and t[1][1][:2] == ("op", "Not") and len(t[2]) == 2 \
            and t[2][0][0] == "then" and t[2][1][0] == "else":
        return ("phi", ("if", t[1][1][2]), (("then", t[2][1][1]), ("else", t[2][0][1])))
    return t


def _canon_tests(ts):
    out = []
    for t in ts:
        if t[0] == "cond" and isinstance(t[1], tuple) and t[1][:2] == ("bin", "Eq"):
            a, b = sorted((t[1][2], t[1][3]), key=repr)
            t = ("cond", ("bin", "Eq", a, b), t[2])
        elif t[0] == "not":
            t = ("not", tuple(_canon_tests(t[1])))
        out.append(t)
    return tuple(out)


def rule_terms(ctx):
    """Term substitution decided per case: each substitute function is evaluated on every constructor of its receiver (operands opaque), for
    every sort of the substituted variable (and, where the code looks at it, every constructor of the replacement term); the decision tree of
    the result must be the one of the definition.  Match structure, guards vs tuple patterns, `let else` and helper functions do not matter."""
    from .. import leaves
    fx = ctx.facts
    F = "syntax_tree::fol::sigma_0::"
    SORTS = fx.variants(F + "Sort")
    VN = ("param", "$vn")

    def var(sort):
        return _C("Variable", name=VN, sort=_C("Sort::" + sort))

    def tree(fn, args):
        v = sym.Eval(fx, inline_depth=0).function(fn, args)
        return sorted(((_canon_tests(ts), x) for ts, x in leaves.leaves(v)), key=repr)

    def eq(s_):
        return _canon_tests([("cond", ("bin", "Eq", VN, s_), True)])[0]

    def replaced(s_, term, selfv):
        from ..leaves import negate as _negate
        return sorted([((eq(s_),), term), ((_negate((eq(s_),)),), selfv)], key=repr)
    payload = {"Infimum": {}, "Supremum": {}, "FunctionConstant": {"0": ("param", "$c")}, "Variable": {"0": ("param", "$s")}, "IntegerTerm": {"0": ("param", "$t")},
               "SymbolicTerm": {"0": ("param", "$t")}, "Numeral": {"0": ("param", "$n")}, "Symbol": {"0": ("param", "$c")},
               "UnaryOperation": {"op": ("param", "$op"), "arg": ("param", "$a")}, "BinaryOperation": {"op": ("param", "$op"), "lhs": ("param", "$l"), "rhs": ("param", "$r")}}

    def node(ty, v, suffix=""):
        return _C("%s::%s" % (ty, v), **{k: (x[0], x[1] + suffix) for k, x in payload[v].items()})
    # ---- GeneralTerm
    g = fx.fn("sigma_0::GeneralTerm::substitute")
    gvars = fx.variants(F + "GeneralTerm")
    gate = {"IntegerTerm": "Integer", "SymbolicTerm": "Symbol"}
    gate_ok = True
    for sv in gvars:
        selfv = node("GeneralTerm", sv)
        for sort in SORTS:
            for tv in gvars:
                term = node("GeneralTerm", tv, "'")
                got = tree(g, [selfv, var(sort), term])
                if sv == "Variable" and sort == "General":
                    want = replaced(("param", "$s"), term, selfv)
                elif sv in gate and sort == gate[sv]:
                    if tv == sv:
                        inner = ("call", "%s::substitute" % sv, (("param", "$t"), var(sort), ("param", "$t'")))
                        want = [((), _C("GeneralTerm::" + sv, **{"0": inner}))]
                    else:
                        want = None   # a replacement of the wrong kind: must not produce a term
                else:
                    want = [((), selfv)]
                if want is None:
                    ok = bool(got) and all(x[:1] == ("panic",) for _, x in got)
                else:
                    ok = got == want
                if sv in gate and not ok:
                    gate_ok = False
                ctx.add("TAB", "general:%s/%s/%s" % (sv.lower() if sv == "Variable" else sv, sort, tv), ok, ctx.site(g),
                        "GeneralTerm::%s, variable of sort %s, replacement %s: %s" % (sv, sort, tv, "refused (panic)" if want is None else "; ".join(
                            "%s -> %s" % (list(ts) or "always", sym.pretty(x)[:70].replace("\n", " ")) for ts, x in got)[:300]))
    # ---- IntegerTerm
    i = fx.fn("sigma_0::IntegerTerm::substitute")
    callers_i = [x["def_path"] for x in fx.body_list if x["def_path"] not in fx.helpers for c in hq.calls(x["body"], "sigma_0::IntegerTerm::substitute")]
    only_gated = set(callers_i) <= {i["def_path"], g["def_path"]}
    TI = ("param", "$u")
    for sv in fx.variants(F + "IntegerTerm"):
        selfv = node("IntegerTerm", sv)
        for sort in SORTS:
            got = tree(i, [selfv, var(sort), TI])
            IS = lambda x: ("call", "IntegerTerm::substitute", (x, var(sort), TI))
            if sv == "Variable":
                want = replaced(("param", "$s"), TI, selfv) if sort == "Integer" else [((), selfv)]
                # a test of the name alone is enough when the only caller outside the recursion enters integer terms for integer variables only
                ok = got == want or (sort != "Integer" and got == replaced(("param", "$s"), TI, selfv) and gate_ok and only_gated)
            elif sv == "UnaryOperation":
                ok = got == [((), _C("IntegerTerm::UnaryOperation", op=("param", "$op"), arg=IS(("param", "$a"))))]
            elif sv == "BinaryOperation":
                ok = got == [((), _C("IntegerTerm::BinaryOperation", op=("param", "$op"), lhs=IS(("param", "$l")), rhs=IS(("param", "$r"))))]
            else:
                ok = got == [((), selfv)]
            ctx.add("TAB", "integer:%s/%s" % ({"Variable": "variable", "UnaryOperation": "unary", "BinaryOperation": "binary"}.get(sv, "leaves:" + sv), sort), ok, ctx.site(i),
                    "IntegerTerm::%s, variable of sort %s: %s" % (sv, sort, "; ".join("%s -> %s" % (list(ts) or "always", sym.pretty(x)[:70].replace("\n", " ")) for ts, x in got)[:300]))
    # ---- SymbolicTerm
    s_ = fx.fn("sigma_0::SymbolicTerm::substitute")
    callers_s = [x["def_path"] for x in fx.body_list if x["def_path"] not in fx.helpers for c in hq.calls(x["body"], "sigma_0::SymbolicTerm::substitute")]
    only_gated_s = set(callers_s) <= {s_["def_path"], g["def_path"]}
    for sv in fx.variants(F + "SymbolicTerm"):
        selfv = node("SymbolicTerm", sv)
        for sort in SORTS:
            got = tree(s_, [selfv, var(sort), TI])
            if sv == "Variable":
                want = replaced(("param", "$s"), TI, selfv) if sort == "Symbol" else [((), selfv)]
                ok = got == want or (sort != "Symbol" and got == replaced(("param", "$s"), TI, selfv) and gate_ok and only_gated_s)
            else:
                ok = got == [((), selfv)]
            ctx.add("TAB", "symbolic:%s/%s" % (sv, sort), ok, ctx.site(s_),
                    "SymbolicTerm::%s, variable of sort %s: %s" % (sv, sort, "; ".join("%s -> %s" % (list(ts) or "always", sym.pretty(x)[:70].replace("\n", " ")) for ts, x in got)[:300]))
    ev = lambda n: sym.Eval(fx, inline_depth=0).function(fx.fn(n))
    # atoms / comparisons / atomic formulas: every term and guard
    at = ev("sigma_0::Atom::substitute")
    from ..ftpl import canon_iter as CI
    ok = at[:2] == ("ctor", "Atom") and dict(at[2]).get("predicate_symbol") == ("place", "self.predicate_symbol") and \
        CI(dict(at[2]).get("terms")) == CI(("upd", ("acc", ("call", "Vec::new", ())), "push", (("call", "GeneralTerm::substitute", (("each", ("place", "self.terms")), VAR, TERM)),)))
    ctx.add("COLLECT", "atom", ok, ctx.site(fx.fn("sigma_0::Atom::substitute")), "Atom::substitute: same predicate, every term substituted, order kept", construct=at)
    cm = ev("sigma_0::Comparison::substitute")
    d = dict(cm[2]) if cm[:2] == ("ctor", "Comparison") else {}
    G = ("each", ("place", "self.guards"))
    ok = d.get("term") == ("call", "GeneralTerm::substitute", (("place", "self.term"), VAR, TERM)) and \
        CI(d.get("guards")) == CI(("upd", ("acc", ("call", "Vec::new", ())), "push", (("ctor", "Guard", (("relation", ("fieldof", G, "relation")), ("term", ("call", "GeneralTerm::substitute", (("fieldof", G, "term"), VAR, TERM))))),)))
    ctx.add("COLLECT", "comparison", ok, ctx.site(fx.fn("sigma_0::Comparison::substitute")), "Comparison::substitute: the term and every guard term, relations unchanged", construct=cm)
    af = ev("sigma_0::AtomicFormula::substitute")
    d = {a[0]: a[-1] for a in af[2]} if af[0] == "match" else {}
    ok = d.get("AtomicFormula::Atom(_)") == ("ctor", "AtomicFormula::Atom", (("0", ("call", "Atom::substitute", (("proj", SELF, (("AtomicFormula::Atom", "0"),)), VAR, TERM))),)) and \
        d.get("AtomicFormula::Comparison(_)") == ("ctor", "AtomicFormula::Comparison", (("0", ("call", "Comparison::substitute", (("proj", SELF, (("AtomicFormula::Comparison", "0"),)), VAR, TERM))),)) and d.get("_") == SELF
    ctx.add("COLLECT", "atomic-formula", ok, ctx.site(fx.fn("sigma_0::AtomicFormula::substitute")), "atoms and comparisons are entered, #true / #false unchanged")
    # collectors used by substitution
    for meth, leaves in (("variables", {S + "GeneralTerm", S + "IntegerTerm", S + "SymbolicTerm"}),):
        reach = collect.reachable_types(fx, leaves)
        for adt in ("Formula", "AtomicFormula", "GeneralTerm", "IntegerTerm", "Guard"):
            collect.check_method(ctx, "COLLECT", fx, S + adt, meth, reach)
    collect.check_variable_leaves(ctx, "COLLECT", fx)
    # a renamed binder is replaced by GeneralTerm::from(new variable): it must be an occurrence of the same sort
    collect.check_variable_conversions(ctx, "COLLECT", fx, which=("from",))
    reach = collect.reachable_types(fx, {S + "GeneralTerm", S + "IntegerTerm", S + "SymbolicTerm"})
    collect.check_method(ctx, "COLLECT", fx, S + "Formula", "free_variables", reach, delegates=("variables",))
    fv = ev("sigma_0::Formula::free_variables")
    q = {a[0]: a[-1] for a in fv[2]}.get("Formula::QuantifiedFormula{}") if fv[0] == "match" else None
    ok = q == ("upd", ("acc", ("call", "Formula::free_variables", (P((QFm, "formula")),))), "shift_remove", (("each", ("fieldof", P((QFm, "quantification")), "variables")),))
    if not ok and isinstance(q, tuple) and q[:1] == ("upd",) and q[2] == "retain" and len(q[3]) == 1:
        # the same set difference written as `retain(|v| !V.contains(v))`
        FV_, V_ = ("call", "Formula::free_variables", (P((QFm, "formula")),)), ("fieldof", P((QFm, "quantification")), "variables")
        cl_ = _shape(q[3][0])
        ok = q[1] in (FV_, ("acc", FV_)) and cl_ == ("closure", ("$0",), ("op", "Not", ("call", "slice::contains", (V_, ("param", "$0")))))
    ctx.add("COLLECT", "free_variables:quantifier", ok, ctx.site(fx.fn("sigma_0::Formula::free_variables")), "free(Q V F) = free(F) minus every variable of V (name and sort)", construct=q)


SITES = {
    # enclosing function -> list of (description of the term argument, check on the summary of the argument)
    "sigma_0::Formula::substitute": 5,
    "inductive_lemma": 2,
    "substitute_defined_variables": 1,
    "replacement_helper": 1,
    "simplify_transitive_equality": 1,
}


def rule_sites(ctx):
    fx = ctx.facts
    found = {}
    for b in fx.body_list:
        if b["body"].get("mac", "").startswith("#"):
            continue
        if b["def_path"] in fx.helpers:
            continue   # a later-extracted helper: its body is attached to its call sites and is seen there
        cs = [c for c in walk(b["body"]) if c.get("k") == "MethodCall" and (callee(c) or "").endswith("sigma_0::Formula::substitute")]
        cs += [c for c in walk(b["body"]) if c.get("k") == "Call" and (callee(c) or "").endswith("sigma_0::Formula::substitute")]
        if cs:
            found[b["def_path"]] = (b, cs)
    total = sum(len(v[1]) for v in found.values())
    ctx.floor("SITES", "substitute_call_sites", total, 4)
    for dp, (b, cs) in found.items():
        name = [k for k in SITES if dp.endswith(k) or k in dp]
        ctx.add("SITES", "known-caller:" + hq.last(dp, 2), bool(name) and len(cs) == SITES.get(name[0] if name else "", -1), ctx.site(b),
                "caller of Formula::substitute with %d site(s) is in the sort-compatibility table" % len(cs), nontrivial=False)
    # per-site argument checks
    def arg_of(c):
        return c["args"][1] if c.get("k") == "MethodCall" else c["args"][2]

    def var_of(c):
        return c["args"][0] if c.get("k") == "MethodCall" else c["args"][1]

    for dp, (b, cs) in found.items():
        ev = sym.Eval(fx, inline_depth=0)
        ev.function(b)
        for i, c in enumerate(cs):
            a = strip(arg_of(c))
            key = "%s#%d" % (hq.last(dp, 2), i)
            r = hq.render(a)
            lets_ = hq.let_by_id(b["body"])
            pnames = [p_.get("name") for p_ in b.get("params", [])]

            def init_of(x):
                lid = hq.local_id_of(x) if hasattr(hq, "local_id_of") else None
                from ..facts import local_id_of as _lid
                lid = _lid(x)
                n_ = lets_.get(lid)
                return n_.get("init") if n_ else None
            triples = []
            structs_ = []     # results of a helper taken apart by field: [{field: (id, name)}]
            for n_ in walk(b["body"]):
                if n_.get("p") == "Tuple" and len(n_.get("pats", [])) == 3 and all(q.get("p") == "Bind" for q in n_["pats"][:2]):
                    triples.append((n_["pats"][0]["id"], n_["pats"][1]["id"]))
                if n_.get("p") == "Struct" and len([f_ for f_ in n_.get("fields", []) if f_["pat"].get("p") == "Bind"]) >= 2:
                    structs_.append({f_["name"]: (f_["pat"]["id"], f_["pat"].get("name")) for f_ in n_["fields"] if f_["pat"].get("p") == "Bind"})
            if dp.endswith("Formula::substitute"):
                if local_of(a) is not None and len(pnames) == 3 and local_of(a) == pnames[2]:
                    ctx.ok("SITES", key, ctx.site(b, c), "recursive call passes the caller's own (variable, term) pair", nontrivial=False)
                else:
                    raw = arg_of(c)
                    intos = [n for n in walk(raw) if n.get("k") == "MethodCall" and n["method"] == "into" and strip(n["recv"]).get("ty", "").endswith("sigma_0::Variable")]
                    ok = len(intos) == 1 and local_of(a) is not None and str(a.get("ty", "")).endswith("sigma_0::Variable")
                    ctx.add("SITES", key, ok, ctx.site(b, c), "renaming passes Variable.into(): a variable term of the binder's own sort (sequence keeps the sort): %s" % r)
            elif "inductive_lemma" in dp:
                s_ = repr(sym.Eval(fx, inline_depth=0).function(b))
                ini = init_of(a)
                ok = ini is not None and "IntegerTerm" in hq.render(ini) and "('ctor', 'GeneralTerm::IntegerTerm'" in s_ and "Sort::Integer" in s_
                ctx.add("SITES", key, ok, ctx.site(b, c), "the integer induction variable is replaced by an integer term (numeral / successor): %s" % r)
            elif "substitute_defined_variables" in dp:
                from ..facts import local_id_of as _lid2, pat_bindings as _pb
                def_ids = set()
                for n_ in walk(b["body"]):
                    if n_.get("k") in ("Let", "LetStmt") and "init" in n_ and hq.calls(n_["init"], "find_definition"):
                        def_ids |= {q["id"] for q in _pb(n_["pat"])}
                    if n_.get("k") == "Match" and hq.calls(n_.get("scrut", {}), "find_definition"):
                        for a_ in n_["arms"]:
                            def_ids |= {q["id"] for q in _pb(a_["pat"])}
                ok = _lid2(a) in def_ids
                ctx.add("SITES", key, ok, ctx.site(b, c), "the definition comes from find_definition, whose sort table only returns integer terms for integer variables and symbolic terms for symbol variables")
            elif "replacement_helper" in dp:
                ini = init_of(a)
                vroot = hq._root_local(var_of(c))
                ok = ini is not None and "GeneralTerm::IntegerTerm" in hq.render(ini) and "IntegerTerm::Variable" in hq.render(ini) and len(pnames) >= 2 and vroot is not None and local_of(vroot) == pnames[1]
                ctx.add("SITES", key, ok, ctx.site(b, c), "a *general* variable (ovar) is replaced by an integer variable term: always compatible")
            elif "simplify_transitive_equality" in dp:
                from ..facts import local_id_of as _lid3
                ini = init_of(a)
                vid = _lid3(var_of(c))
                hit = [t_ for t_ in triples if t_[1] == vid]
                keep_names = set()
                for t_ in hit:
                    for n_ in walk(b["body"]):
                        if n_.get("p") == "Bind" and n_.get("id") == t_[0]:
                            keep_names.add(n_.get("name"))
                ok = bool(hit) and ini is not None and any(kn and kn in hq.render(ini) for kn in keep_names)
                if not ok and ini is not None:
                    # the result is a struct: the dropped variable is the field bound to the substituted variable, the kept one the field the
                    # replacement term is built from
                    for st_ in structs_:
                        dropf = [f_ for f_, (i_, _) in st_.items() if i_ == vid]
                        keepf = [f_ for f_, (i_, nm_) in st_.items() if i_ != vid and nm_ and re.search(r"\b%s\b" % re.escape(nm_), hq.render(ini))]
                        if len(dropf) == 1 and len(keepf) == 1:
                            ok = True
                            TE_SELECT["keep"], TE_SELECT["drop"] = keepf[0], dropf[0]
                ctx.add("SITES", key, ok, ctx.site(b, c), "drop_var is replaced by the keep variable's term; transitive_equality only returns pairs with sort(keep) a subsort of sort(drop)")
            else:
                ctx.bad("SITES", key, ctx.site(b, c), "unknown caller of Formula::substitute: sort compatibility of %s is not established" % r)
    # the subsort table used by the last site
    sb = subsort_body(fx)
    tab = {}
    sorts_ = fx.variants(S + "Sort")
    for a in sorts_:
        for b_ in sorts_:
            mk = lambda so, n: ("ctor", "Variable", (("name", ("param", n)), ("sort", ("ctor", "Sort::" + so, ()))))
            r_ = sym.Eval(fx, inline_depth=0).function(sb, [mk(a, "$n1"), mk(b_, "$n2")])
            dv_ = sym.decide_bool(r_)
            tab[("Sort::" + a, "Sort::" + b_)] = dv_ if dv_ is not None else repr(r_)[:60]
    ref = {("Sort::General", "Sort::General"): True, ("Sort::General", "Sort::Integer"): False, ("Sort::General", "Sort::Symbol"): False,
           ("Sort::Integer", "Sort::General"): True, ("Sort::Integer", "Sort::Integer"): True, ("Sort::Integer", "Sort::Symbol"): False,
           ("Sort::Symbol", "Sort::General"): True, ("Sort::Symbol", "Sort::Symbol"): True, ("Sort::Symbol", "Sort::Integer"): False}
    ctx.add("SITES", "subsort-table", tab == ref, ctx.site(sb), "subsort(v1, v2) evaluated on all 9 pairs of sorts: integer <= general, symbol <= general, reflexive, nothing else", construct=sorted(tab.items()))
    te = fx.fn("unstable::transitive_equality")
    from .. import leaves
    ev_te = sym.Eval(fx, inline_depth=0)
    ev_te.opaque_helpers = {sb["def_path"]}      # the subsort test stays a call (it is decided by the table above), whatever form it took
    v = ev_te.function(te)
    res = []
    for ts, x in leaves.leaves(v):
        x = leaves.strip_acc(x)
        if isinstance(x, tuple) and x[:2] == ("ctor", "Option::Some"):
            tup = dict(x[2]).get("0")
            if isinstance(tup, tuple) and tup[:1] == ("ctor",) and isinstance(TE_SELECT.get("keep"), str) and {TE_SELECT["keep"], TE_SELECT["drop"]} <= set(dict(tup[2])):
                tup = ("list", (dict(tup[2])[TE_SELECT["keep"]], dict(tup[2])[TE_SELECT["drop"]], None))
            if isinstance(tup, tuple) and tup[:1] == ("list",) and len(tup[1]) == 3:
                keep, drop = leaves.norm(tup[1][0]), leaves.norm(tup[1][1])
                guarded = any(t[0] == "cond" and t[2] is True and isinstance(t[1], tuple) and t[1][:1] == ("call",) and "subsort" in t[1][1].lower()
                              and tuple(leaves.norm(leaves.strip_acc(a)) for a in t[1][2]) == (keep, drop) for t in ts)
                res.append(guarded)
            else:
                res.append(False)
    ctx.add("SITES", "keep-is-subsort", bool(res) and all(res), ctx.site(te),
            "every result (keep, drop, ..) of transitive_equality is produced under subsort(keep, drop): %d result paths, %d guarded" % (len(res), sum(res)))


TE_SELECT = {}      # how the caller reads (keep, drop) out of transitive_equality's result when it is a struct: field names


def rule_identity(ctx):
    """items kept in sets are the same element exactly when all their fields agree: see collect.check_structural_identity"""
    from .. import collect as _collect
    _collect.check_structural_identity(ctx, "IDENT", ctx.facts)


RULES = [rule_formula, rule_terms, rule_sites, rule_identity]
