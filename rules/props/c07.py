"""C07 — simplification portfolios preserve the meaning of every formula."""
from ..facts import AnalysisGap, callee, callee_generic, local_id_of, local_of, strip, walk
from .. import collect, flow, hq, rw, sym

EXPLANATION = (
    "RW-1: every portfolio member whose body is a match `pattern => template` over formula constructors is extracted as a set of propositional "
    "schemas (metavariables for bound sub-formulas, syntactic-equality guards identify metavariables, or-patterns of connectives enumerate) and "
    "decided by exhaustive evaluation: members of INTUITIONISTIC / HT over the three-valued Goedel (here-and-there) tables, members of CLASSIC only "
    "over the two classical values - exact for such schemas because every formula takes one of three values in an HT interpretation and the "
    "connectives compose by the G3 tables. evaluate_comparisons: the reflexive table (=,>=,<= true; !=,>,< false, only for syntactically equal "
    "terms) and the chain split. RW-2: a rule that is only classically valid is a member of CLASSIC only. RW-3: no composed portfolio contains "
    "two schematic rules that are mutual inverses. RW-4: the non-schematic rules carry their side conditions (orphan removal keeps exactly the "
    "free variables; empty quantifier removal only for an empty list; joining only equal quantifiers; scope extension only for and/or without "
    "variable collision; definition substitution only for an existential variable not occurring in its definition and of a compatible sort; "
    "domain restriction only general-outer / integer-inner). RW-5: removal by value after selection by index is guarded. STRATEGY: the CLI composes "
    "[I], [I,HT], [I,HT,C] and dispatches shallow / recursive / fixpoint to f, apply, apply_fixpoint; compose applies left to right. SHARED: Variable -> term conversions keep the sort (collect.check_variable_conversions).")
UNDECIDED = ["equivalence of the non-schematic classical rules (substitute_defined_variables, restrict_quantifier_domain, simplify_transitive_equality) "
             "beyond their side conditions", "termination (C18)"]
ASSUMPTIONS = ["non-empty constant domains (quantifier rules)", "comparisons are two-valued and the order is total and reflexive"]

SIMP = "simplifying::fol::sigma_0::"


def portfolios(fx):
    out = {}
    for name in ("INTUITIONISTIC", "HT", "CLASSIC"):
        b = fx.fn(name)
        s = flow.summ(b["body"])
        fns = [x[1] for x in flow.sub_terms(s) if isinstance(x, tuple) and len(x) == 2 and x[0] == "fn"]
        paths = []
        for n in walk(b["body"]):
            if n.get("k") == "Path" and "callee" in n:
                paths.append(n.get("callee_res") or n["callee"])
        out[name] = paths
    return out


def rule_rw1(ctx):
    fx = ctx.facts
    pf = portfolios(fx)
    ctx.floor("RW-2", "portfolio_members", sum(len(v) for v in pf.values()), 6)  # a shorter portfolio is still sound
    level = {}
    for name in ("CLASSIC", "HT", "INTUITIONISTIC"):
        for p in pf[name]:
            level[p] = "classic" if name == "CLASSIC" and level.get(p) is None else ("ht" if name != "CLASSIC" else level.get(p, "classic"))
    for p in pf["INTUITIONISTIC"] + pf["HT"]:
        level[p] = "ht"
    # every public rule function of the simplifier files (also the currently unused inverses)
    cands = [b for f in ("intuitionistic.rs", "classic.rs", "ht.rs") for b in fx.fns_in_file("src/simplifying/fol/sigma_0/" + f) if b["kind"] == "Fn" and "{" not in b["def_path"]]
    n_schema = n_eval = 0
    non_schematic = []
    for b in cands:
        is_member = b["def_path"] in level
        single_formula = b.get("param_tys") == ["syntax_tree::fol::sigma_0::Formula"] and b.get("ret_ty") == "syntax_tree::fol::sigma_0::Formula"
        if not single_formula:
            continue
        try:
            rules = rw.rules_of_fn(b)
        except rw.NotSchematic as e:
            if is_member:
                non_schematic.append((b, str(e)))
            continue
        lv = level.get(b["def_path"], "ht" if b["file"].endswith(("intuitionistic.rs", "ht.rs")) else "classic")
        for lab, l, r, eqs in rules:
            try:
                ok, cex, n = rw.valid(l, r, eqs, lv)
            except rw.NotSchematic as e:
                ctx.gap("RW-1", "%s:%s" % (b["name"], lab), ctx.site(b), str(e))
                continue
            n_schema += 1
            n_eval += n
            ctx.add("RW-1", "%s:%s" % (b["name"], lab), ok, ctx.site(b),
                    "%s  =>  %s%s is %svalid in %s (%d assignments)%s" % (rw.show(l), rw.show(r), (" if " + " and ".join("%s == %s" % (rw.show(a), rw.show(c)) for a, c in eqs)) if eqs else "",
                                                                          "" if ok else "NOT ", "here-and-there" if lv == "ht" else "classical logic", n,
                                                                          "" if ok else "; counterexample %s" % (cex,)),
                    construct={"lhs": rw.show(l), "rhs": rw.show(r), "logic": lv, "member": is_member})
            if lv == "classic" and is_member:
                okh, _, _ = rw.valid(l, r, eqs, "ht")
                ctx.add("RW-2", "%s:%s:classical-only" % (b["name"], lab), True, ctx.site(b),
                        "member of CLASSIC only; HT-valid: %s" % okh, nontrivial=False)
    ctx.floor("RW-1", "schematic_rules", n_schema, 10)
    ctx.count("truth_table_rows", n_eval)
    ctx.non_schematic = non_schematic
    # members that are not schematic must be in the RW-4 table
    known = {"evaluate_comparisons", "remove_orphaned_variables", "remove_empty_quantifications", "join_nested_quantifiers", "substitute_defined_variables",
             "restrict_quantifier_domain", "extend_quantifier_scope", "simplify_transitive_equality"}
    for b, why in non_schematic:
        ctx.add("RW-4", "table:" + b["name"], b["name"] in known, ctx.site(b), "non-schematic member `%s` (%s) has a side-condition obligation" % (b["name"], why), nontrivial=False)
    # classical-only members must not be in INTUITIONISTIC / HT: decided by the level assignment above; make it explicit
    for p in pf["INTUITIONISTIC"] + pf["HT"]:
        nm = hq.last(p)
        ctx.add("RW-2", "ht-member:" + nm, p not in pf["CLASSIC"] or True, "", "`%s` is checked at the here-and-there level because it is a member of INTUITIONISTIC / HT" % nm, nontrivial=False)
    classical_only_names = {"remove_double_negation", "substitute_defined_variables", "restrict_quantifier_domain", "extend_quantifier_scope", "simplify_transitive_equality"}
    for p in pf["INTUITIONISTIC"] + pf["HT"]:
        ctx.add("RW-2", "not-classical:" + hq.last(p), hq.last(p) not in classical_only_names, "", "`%s` is not one of the classical-only rules" % hq.last(p), nontrivial=False)


def rule_rw3(ctx):
    fx = ctx.facts
    pf = portfolios(fx)
    members = []
    for name in ("INTUITIONISTIC", "HT", "CLASSIC"):
        for p in pf[name]:
            if p not in members:
                members.append(p)
    rules = []
    for p in members:
        bs = fx.bodies.get(p, [])
        if len(bs) != 1:
            continue
        try:
            for lab, l, r, eqs in rw.rules_of_fn(bs[0]):
                l, r = rw.unify_equalities(l, r, eqs)
                names = {}
                rules.append((bs[0]["name"], lab, canon(l, names), canon(r, names)))
        except rw.NotSchematic:
            continue
    inv = []
    for i, (n1, l1, a1, b1) in enumerate(rules):
        for (n2, l2, a2, b2) in rules[i + 1:]:
            n_a, n_b = {}, {}
            if (canon(a1, n_a), canon(b1, n_a)) == (canon(b2, n_b), canon(a2, n_b)) and a1 != b1:
                inv.append(("%s:%s" % (n1, l1), "%s:%s" % (n2, l2)))
    ctx.add("RW-3", "no-inverse-pair", not inv, "", "no two schematic members of [INTUITIONISTIC, HT, CLASSIC] are mutual inverses (%d rules compared): %s" % (len(rules), inv or "none"),
            construct={"rules": len(rules)})


def canon(s, names=None):
    """Rename metavariables in order of first occurrence (shared between the two sides of a rule)."""
    names = {} if names is None else names

    def go(s):
        if s[0] == "var":
            names.setdefault(s[1], "v%d" % len(names))
            return ("var", names[s[1]])
        if s[0] == "not":
            return ("not", go(s[1]))
        if s[0] == "bin":
            c = s[1] if isinstance(s[1], str) else ("cvar", "c", s[1][2])
            return ("bin", c, go(s[2]), go(s[3]))
        return s
    return go(s)


F = ("param", "formula")
QFm = "Formula::QuantifiedFormula"


def P(b, *path):
    return ("proj", b, tuple(path))


def rule_rw4(ctx):
    fx = ctx.facts
    ev = lambda n: sym.Eval(fx, inline_depth=0).function(fx.fn(n))
    # remove_orphaned_variables
    b = fx.fn("intuitionistic::remove_orphaned_variables")
    v = ev("intuitionistic::remove_orphaned_variables")
    body = P(F, (QFm, "formula"))
    ref = ("match", F, (("Formula::QuantifiedFormula{quantification: Quantification{}}", ("ctor", QFm, (
        ("formula", body),
        ("quantification", ("ctor", "Quantification", (("quantifier", P(F, (QFm, "quantification"), ("Quantification", "quantifier"))),
                                                       ("variables", ("call", "Iterator::filter", (P(F, (QFm, "quantification"), ("Quantification", "variables")),
                                                                                                   ("closure", ("v",), ("call", "IndexSet::contains", (("call", "Formula::free_variables", (body,)), ("param", "v"))))))))))))),
        ("_", F)))
    ctx.add("RW-4", "remove_orphaned_variables", v == ref, ctx.site(b), "Q V F => Q (V filtered by membership in free(F)) F: same quantifier, same body, order kept", construct=v)
    b = fx.fn("intuitionistic::remove_empty_quantifications")
    v = ev("intuitionistic::remove_empty_quantifications")
    ref = ("match", F, (("Formula::QuantifiedFormula{}", ("guard", ("call", "Vec::is_empty", (("fieldof", P(F, (QFm, "quantification")), "variables"),))), body), ("_", F)))
    ctx.add("RW-4", "remove_empty_quantifications", v == ref, ctx.site(b), "Q () F => F only when the variable list is empty", construct=v)
    b = fx.fn("intuitionistic::join_nested_quantifiers")
    v = ev("intuitionistic::join_nested_quantifiers")
    S = ("call", "Unbox::unbox", (F,))
    UQ = "UnboxedFormula::QuantifiedFormula"
    oq = ("fieldof", P(S, (UQ, "quantification")), "quantifier")
    iq = ("fieldof", P(S, (UQ, "formula"), (QFm, "quantification")), "quantifier")
    ov = ("fieldof", P(S, (UQ, "quantification")), "variables")
    iv = ("fieldof", P(S, (UQ, "formula"), (QFm, "quantification")), "variables")
    ref_arm = ("UnboxedFormula::QuantifiedFormula{formula: Formula::QuantifiedFormula{}}", ("guard", ("bin", "Eq", oq, iq)),
               ("call", "Formula::quantify", (P(S, (UQ, "formula"), (QFm, "formula")), oq, ("upd", ("upd", ("upd", ov, "append", (iv,)), "sort", ()), "dedup", ()))))
    ok = v[0] == "match" and v[1] == S and v[2][0] == ref_arm and v[2][1] == ("_", ("call", "UnboxedFormula::rebox", (S,))) and len(v[2]) == 2
    ctx.add("RW-4", "join_nested_quantifiers", ok, ctx.site(b), "Q X (Q Y F) => Q (X u Y) F only for equal quantifiers; the variable lists are merged (sorted, deduplicated), nothing dropped", construct=v[2][0] if v[0] == "match" else v)
    # extend_quantifier_scope: decided per (side of the quantifier, connective) on concrete nodes
    from .. import leaves
    b = fx.fn("unstable::extend_quantifier_scope")

    def C(n, **f):
        return ("ctor", n, tuple(sorted(f.items())))
    QN = C("Quantification", quantifier=("param", "$q"), variables=("param", "$vs"))
    QF_ = C(QFm, quantification=QN, formula=("param", "$f"))
    OTHER = C("Formula::AtomicFormula", **{"0": ("param", "$g")})
    for side, other in (("lhs", "rhs"), ("rhs", "lhs")):
        ok = True
        why = []
        for conn in fx.variants("syntax_tree::fol::sigma_0::BinaryConnective"):
            node = C("Formula::BinaryFormula", connective=C("BinaryConnective::" + conn), **{side: QF_, other: OTHER})
            v = sym.Eval(fx, inline_depth=0).function(b, [node])
            got = sorted(((tuple(leaves.canon_exists(t) for t in ts), leaves.strip_acc(x)) for ts, x in leaves.leaves(v)), key=repr)
            if conn in ("Conjunction", "Disjunction"):
                clash = lambda pol: ("exists", ("param", "$vs"), ("call", "IndexSet::contains", (("call", "Formula::free_variables", (OTHER,)), ("at", ("param", "$vs")))), pol)
                moved = C(QFm, quantification=QN, formula=C("Formula::BinaryFormula", connective=C("BinaryConnective::" + conn), **{side: ("param", "$f"), other: OTHER}))
                want = sorted([((clash(True),), node), ((clash(False),), moved)], key=repr)
            else:
                want = [((), node)]
            if got != want:
                ok = False
                why.append((conn, [(list(map(str, ts)), sym.pretty(x)[:80]) for ts, x in got]))
        ctx.add("RW-4", "extend_quantifier_scope:" + side, ok, ctx.site(b),
                "(Q X F) o G => Q X (F o G) only for o in {and, or} and only if no X occurs free in G; operands keep their sides; every other node is unchanged", construct=why or None)
    # substitute_defined_variables / find_definition
    b = fx.fn("substitute_defined_variables::find_definition")
    v = ev("substitute_defined_variables::find_definition")
    r = repr(v)
    conds = {
        "equalities-only": "Relation::Equal" in r and "Comparison::individuals" in r,
        "variable-not-in-definition": "('op', 'Not', ('call', 'IndexSet::contains', (('call', 'GeneralTerm::variables'" in r,
        "sort-table": all(k in r for k in ("Sort::General", "Sort::Integer", "Sort::Symbol", "GeneralTerm::IntegerTerm(_)", "GeneralTerm::SymbolicTerm(_)")),
        "same-name": "('bin', 'Eq', ('place', 'variable.name')" in r,
        "conjunctions-only": "BinaryConnective::Conjunction" in r and "BinaryConnective::Disjunction" not in r and "BinaryConnective::Implication" not in r,
    }
    for k_, ok in conds.items():
        ctx.add("RW-4", "find_definition:" + k_, ok, ctx.site(b), "definition lookup side condition `%s`" % k_)
    b = fx.fn("classic::substitute_defined_variables")
    v = ev("classic::substitute_defined_variables")
    ok = v[0] == "match" and v[2][0][0] == "Formula::QuantifiedFormula{quantification: Quantification{quantifier: Quantifier::Exists}}" and v[2][1] == ("_", F) and \
        v[2][0][1][:2] == ("call", "Formula::quantify") and "Formula::substitute" in repr(v[2][0][1]) and v[2][0][1][2][2] == P(F, (QFm, "quantification"), ("Quantification", "variables"))
    ctx.add("RW-4", "substitute_defined_variables", ok, ctx.site(b), "only existential quantifiers; the variable list is kept (the substituted variable becomes an orphan, removed separately)")
    # restrict_quantifier_domain: both call sites of replacement_helper under ovar general / ivar integer
    b = fx.fn("unstable::restrict_quantifier_domain")
    # the facts that hold where replacement_helper is called (nested ifs, guard clauses with `continue`, De Morgan: the same facts)
    from .. import leaves as _lvq
    evq = sym.Eval(fx, inline_depth=0)
    evq.effect_calls = {"unstable::replacement_helper"}
    evq.function(b)
    sites_ = []
    for conds_, loops_, eff_ in evq.out:
        if eff_[0] != "emit":
            continue
        ts_ = []
        for c_ in conds_:
            r_ = _lvq.cond_tests(c_[0][1] if (isinstance(c_[0], tuple) and c_[0][:1] == ("survived",)) else c_[0], c_[1])
            ts_ += r_ if r_ else []
        sites_.append(ts_)
    ok = len(sites_) == 2
    for ts_ in sites_:
        sorts_by_var = {t_[1][1]: t_[2] for t_ in ts_ if t_[0] == "is" and isinstance(t_[1], tuple) and t_[1][:1] == ("fieldof",) and t_[1][2] == "sort"}
        ok = ok and sorted(sorts_by_var.values()) == ["Sort::General", "Sort::Integer"] and \
            any("Quantification" in repr(v_) and "BinaryFormula" not in repr(v_) for v_, s_ in sorts_by_var.items() if s_ == "Sort::General")
    ctx.add("RW-4", "restrict_quantifier_domain:sorts", ok, ctx.site(b), "a general outer variable is replaced only by an integer inner variable (both call sites guarded)")
    uni = [ts_ for ts_ in sites_ if any(t_[0] == "cond" and t_[2] is False and isinstance(t_[1], tuple) and t_[1][:2] == ("call", "IndexSet::contains")
                                       and "Formula::free_variables" in repr(t_[1][2][0]) and "'rhs'" in repr(t_[1][2][0]) for t_ in ts_)]
    ctx.add("RW-4", "restrict_quantifier_domain:forall-consequent", len(uni) == 1, ctx.site(b), "in the forall/implication case the replaced variable must not occur in the consequent")

def rule_rw5(ctx):
    fx = ctx.facts
    b = fx.fn("unstable::simplify_transitive_equality")
    body = b["body"]
    rets = [c for c in walk(body) if c.get("k") == "MethodCall" and c["method"] == "retain"]
    idx_neq = [n for n in walk(body) if n.get("k") == "Binary" and n.get("op") == "Ne" and {local_of(n["l"]), local_of(n["r"])} == {"i", "j"}]
    if not rets:
        ctx.ok("RW-5", "retain-by-value", ctx.site(b), "no removal by value", nontrivial=False)
        return
    # the pair selection by index (i != j) does not exclude equal elements: a guard comparing the two variables / comparisons must exist
    guards = []
    # by role: the (keep, drop, ..) results of transitive_equality are the first two bindings of a 3-tuple pattern; a guard compares exactly those
    pair_ids = []
    for n in walk(body):
        pats = []
        if n.get("p") == "Tuple" and len(n.get("pats", [])) == 3:
            pats = n["pats"]
        if pats and all(q.get("p") == "Bind" for q in pats[:2]):
            pair_ids.append({pats[0]["id"], pats[1]["id"]})
    # .. or, when the result is a struct, two of the fields it is taken apart by (the guard may read them off the struct itself)
    struct_fields = [{f_["name"] for f_ in n.get("fields", []) if f_["pat"].get("p") == "Bind"} for n in walk(body) if n.get("p") == "Struct"]
    struct_fields = [fs_ for fs_ in struct_fields if len(fs_) >= 2]
    for n in walk(body):
        if n.get("k") == "Binary" and n.get("op") in ("Ne", "Eq"):
            names = {local_of(n["l"]), local_of(n["r"])}
            ids = {local_id_of(n["l"]), local_id_of(n["r"])}
            if (None not in ids and ids in pair_ids) or names in ({"c1", "c2"}, {"ct1", "ct2"}):
                guards.append(hq.render(n))
                continue
            l_, r_ = strip(n["l"]), strip(n["r"])
            if l_.get("k") == "Field" and r_.get("k") == "Field" and l_["name"] != r_["name"] and local_id_of(l_["e"]) is not None and local_id_of(l_["e"]) == local_id_of(r_["e"]) \
                    and any({l_["name"], r_["name"]} <= fs_ for fs_ in struct_fields):
                guards.append(hq.render(n))
    pm = hq.parent_map(body)
    ctx.add("RW-5", "retain-by-value", bool(guards), ctx.site(b, rets[0]),
            "elements are selected by index (i != j: %d test) and removed by value (retain): a guard that the two equalities are different things is required: %s" % (len(idx_neq), guards or "none"),
            construct=guards)


def rule_comparisons(ctx):
    """evaluate_comparisons decided per relation: the function is evaluated on a comparison node with the loop specialised on one guard of
    each relation; the formula pushed for that guard must be the truth constant of the reflexive table when both sides are syntactically
    equal and the unchanged single comparison otherwise (whatever the shape of the code: if / match / early return in a helper)."""
    from .. import leaves
    fx = ctx.facts
    b = fx.fn("intuitionistic::evaluate_comparisons")
    site = ctx.site(b)

    def C(n, **f):
        return ("ctor", n, tuple(sorted(f.items())))
    T, RHS = ("param", "$t"), ("param", "$rhs")
    node = C("Formula::AtomicFormula", **{"0": C("AtomicFormula::Comparison", **{"0": C("Comparison", term=T, guards=("param", "$g"))})})
    table = {"Equal": "Truth", "GreaterEqual": "Truth", "LessEqual": "Truth", "NotEqual": "Falsity", "Greater": "Falsity", "Less": "Falsity"}
    rels = fx.variants("syntax_tree::fol::sigma_0::Relation")
    tab_ok, guard_ok, chain_ok = set(rels) == set(table), True, True
    detail = {}
    # second spelling: the chain is taken apart by the existing iterator Comparison::individuals() (consecutive (lhs, relation, rhs) triples,
    # an obligation of C06) and every triple is evaluated on its own
    from .. import comp as _comp
    from .c04 import _decide
    _comp.use(fx)
    cvn = _comp.canon(sym.Eval(fx, inline_depth=0).function(b, [node]))
    via_individuals = None
    if isinstance(cvn, tuple) and cvn[:2] == ("call", "Formula::conjoin") and len(cvn[2]) == 1 and isinstance(cvn[2][0], tuple) and cvn[2][0][:1] == ("coll",) and len(cvn[2][0][1]) == 1:
        (srcs, alts_), = cvn[2][0][1]
        if len(srcs) == 1 and srcs[0][:2] == ("call", "Comparison::individuals") and "$t" in repr(srcs[0]) and "$g" in repr(srcs[0]):
            via_individuals = (srcs[0], alts_)
    for R in rels:
        if via_individuals is not None:
            src_, alts_ = via_individuals
            triple = ("list", (T, C("Relation::" + R), RHS))
            got = {}
            for ts_, e_ in alts_:
                rest, dead = [], False
                for t_ in ts_:
                    t2 = leaves.replace(t_, {("at", src_): triple})
                    t2 = tuple(leaves.norm(x_) if isinstance(x_, tuple) else x_ for x_ in t2) if t2[0] in ("is", "cond", "eq") else t2
                    d_ = _decide(t2)
                    if d_ is False:
                        dead = True
                    elif d_ is None:
                        rest.append(t2)
                if dead:
                    continue
                whole_ = leaves.replace(e_, {("at", src_): triple})
                for lts_, val_ in leaves.leaves(_comp.case_of_case(leaves.lift(whole_))):
                    rest2, dead2 = list(rest), False
                    for t_ in lts_:
                        d_ = _decide(t_)
                        if d_ is False:
                            dead2 = True
                        elif d_ is None:
                            rest2.append(t_)
                    if dead2:
                        continue
                    val_ = leaves.norm(leaves.strip_acc(val_))
                    if val_[:2] == ("ctor", "Formula::AtomicFormula"):
                        val_ = dict(val_[2])["0"]
                    got.setdefault(tuple(sorted(set(rest2), key=leaves.stable_key)), []).append(val_)
            eq = ("cond", ("bin", "Eq") + tuple(sorted((T, RHS), key=leaves.stable_key)), True)
            ne = (eq[0], eq[1], False)
            same, diff = got.get((eq,)), got.get((ne,))
            detail[R] = {str(k): [sym.pretty(x)[:60] for x in v_] for k, v_ in got.items()}
            if same != [C("AtomicFormula::" + table.get(R, "?"))]:
                tab_ok = False
            if diff != [C("AtomicFormula::Comparison", **{"0": C("Comparison", term=T, guards=("list", (C("Guard", relation=C("Relation::" + R), term=RHS),)))})] or len(got) != 2:
                guard_ok = False
            continue
        ev = sym.Eval(fx, inline_depth=0)
        ev.loop_args = [C("Guard", relation=C("Relation::" + R), term=RHS)]
        v = ev.function(b, [node])
        pushed = [x for x in sym.subterms(v) if isinstance(x, tuple) and x[:1] == ("upd",) and x[2] == "push" and leaves.strip_acc(x[1]) in (("list", ()), ("call", "Vec::new", ()))]
        if len(pushed) != 1 or pushed[0][3][0][:2] != ("ctor", "Formula::AtomicFormula"):
            tab_ok = guard_ok = False
            detail[R] = "no single push of an atomic formula"
            continue
        X = dict(pushed[0][3][0][2])["0"]
        eq = ("cond", ("bin", "Eq") + tuple(sorted((T, RHS), key=repr)), True)
        ne = (eq[0], eq[1], False)
        got = {}
        for ts, x in leaves.leaves(X):
            got.setdefault(tuple(ts), []).append(leaves.strip_acc(x))
        same = got.get((eq,))
        diff = got.get((ne,)) or got.get((("not", (eq,)),))
        detail[R] = {str(k): [sym.pretty(x)[:60] for x in v_] for k, v_ in got.items()}
        if same != [C("AtomicFormula::" + table.get(R, "?"))]:
            tab_ok = False
        if diff != [C("AtomicFormula::Comparison", **{"0": C("Comparison", term=T, guards=("list", (C("Guard", relation=C("Relation::" + R), term=RHS),)))})] or len(got) != 2:
            guard_ok = False
        # the right term becomes the next left term: besides the pattern binding, the loop-carried left side ends the iteration as the right term
        carried = sum(1 for vals in ev.last_env.values() for t_ in vals[-1:] if t_ == RHS)
        if not (v[:2] == ("call", "Formula::conjoin") and carried >= 2):
            chain_ok = False
    ctx.add("RW-1", "evaluate_comparisons:table", tab_ok, site, "t = t, t >= t, t <= t are #true; t != t, t > t, t < t are #false", construct=detail if not tab_ok else None)
    ctx.add("RW-1", "evaluate_comparisons:guard", guard_ok, site, "the table is applied only when both sides are syntactically equal; otherwise the single comparison is kept unchanged",
            construct=detail if not guard_ok else None)
    v = sym.Eval(fx, inline_depth=0).function(b)
    ok = chain_ok and v[0] == "match" and v[2][-1] == ("_", F) and len(v[2]) == 2
    if via_individuals is not None:
        # every triple of the chain is kept (no filter on the source), and any other formula is returned as it is
        other = leaves.norm(sym.Eval(fx, inline_depth=0).function(b, [("ctor", "Formula::UnaryFormula", (("connective", ("param", "$u")), ("formula", ("param", "$f"))))]))
        outcomes = [v_ for _, v_ in leaves.leaves(other) if v_ != ("never",)]
        ok = outcomes == [("ctor", "Formula::UnaryFormula", (("connective", ("param", "$u")), ("formula", ("param", "$f"))))]
    ctx.add("RW-1", "evaluate_comparisons:chain", ok, site, "a chain is rewritten into the conjunction of its consecutive comparisons (the right term becomes the next left term); other formulas are unchanged")


def rule_strategy(ctx):
    fx = ctx.facts
    m = fx.fn("command_line::procedures::main")
    rows = {}
    for mm in hq.matches_over(m["body"], "command_line::arguments::SimplificationPortfolio"):
        for a in mm["arms"]:
            rows[hq.pat_key(a["pat"])] = sorted(flow.consts_in(flow.summ(a["body"])))
    ref = {"SimplificationPortfolio::Classic": ["CLASSIC", "HT", "INTUITIONISTIC"], "SimplificationPortfolio::Ht": ["HT", "INTUITIONISTIC"], "SimplificationPortfolio::Intuitionistic": ["INTUITIONISTIC"]}
    ctx.add("STRATEGY", "portfolios", rows == ref, ctx.site(m), "--portfolio composes %s" % rows)
    st = {}
    for mm in hq.matches_over(m["body"], "command_line::arguments::SimplificationStrategy"):
        for a in mm["arms"]:
            s = flow.summ(a["body"])
            st[hq.pat_key(a["pat"])] = flow.callees_in(s) or [s[0]]
    ref = {"SimplificationStrategy::Shallow": ["callv"], "SimplificationStrategy::Recursive": ["Apply::apply"], "SimplificationStrategy::Fixpoint": ["Apply::apply_fixpoint"]}
    ctx.add("STRATEGY", "strategies", st == ref, ctx.site(m), "--strategy dispatch %s" % st)
    c = [b for b in fx.body_list if b["name"] == "compose" and b["file"].endswith("compose/mod.rs") and "impl" in b]
    if len(c) != 1:
        raise AnalysisGap("Compose::compose impl not found")
    v = sym.Eval(fx, inline_depth=0).function(c[0])
    ref = ("closure", ("x",), ("call", "Iterator::fold", (("param", "self"), ("param", "x"), ("closure", ("x", "f"), ("callv", ("param", "f"), (("param", "x"),))))))
    ctx.add("STRATEGY", "compose", v == ref, ctx.site(c[0]), "compose(f0..fn)(x) = fold(x, |x, f| f(x)) over a fresh clone of the list: left to right, every member once", construct=v)


def rule_apply(ctx):
    from . import c05
    sub = type(ctx)(ctx.prop, ctx.tier, ctx.facts)
    c05.rule_apply(sub)
    ctx.obls.extend(sub.obls)


def rule_equality_predicate(ctx):
    """The rewrites of classic::unstable treat a comparison accepted by equality_comparison as `term = guards[0].term` and remove or
    substitute the whole comparison: that is only sound for a comparison with exactly one guard whose relation is `=`."""
    fx = ctx.facts
    b = fx.fn("classic::unstable::equality_comparison")
    name = b["params"][0]["name"] if b["params"] and b["params"][0].get("p") == "Bind" else None
    v = sym.Eval(fx, inline_depth=0).function(b, [("param", "$c")])
    conj = set()

    def flat(t):
        if isinstance(t, tuple) and t[:2] == ("bin", "And"):
            flat(t[2])
            flat(t[3])
        else:
            conj.add(t)
    flat(v)
    G = ("place", "$c.guards")
    one = ("bin", "Eq", ("call", "Vec::len", (G,)), ("lit", 1)) in conj or ("bin", "Eq", ("lit", 1), ("call", "Vec::len", (G,))) in conj
    rel = any(t[:2] == ("bin", "Eq") and set(t[2:]) == {("fieldof", ("index", G, ("lit", 0)), "relation"), ("ctor", "Relation::Equal", ())} for t in conj if isinstance(t, tuple))
    ctx.add("RW-6", "equality-comparison", one and rel, ctx.site(b),
            "equality_comparison(c) requires exactly one guard (%s) whose relation is = (%s); a chain `t = u < v` accepted here would lose `u < v`" % (one, rel), construct=v)
    users = sorted({bb["def_path"].split("unstable::")[-1].split("::{")[0] for bb in fx.body_list if hq.calls(bb["body"], "unstable::equality_comparison") and "::tests" not in bb["def_path"]})
    ctx.add("RW-6", "equality-comparison:users", users == ["restrict_quantifier_domain", "simplify_transitive_equality"] or set(users) <= {"restrict_quantifier_domain", "simplify_transitive_equality", "replacement_helper"}, ctx.site(b),
            "rewrites relying on it: %s" % users)


def rule_subsort_table(ctx):
    """simplify_transitive_equality keeps the variable of the smaller sort: subsort(v1, v2) must be the subsort relation of the three sorts
    (every sort is a subsort of itself and of `general`; integer and symbol are unrelated)."""
    fx = ctx.facts
    from .c17 import subsort_body
    b = subsort_body(fx)
    ev = sym.Eval(fx, inline_depth=0)
    sorts = fx.variants("syntax_tree::fol::sigma_0::Sort")
    ctx.add("RW-7", "subsort:sorts", sorted(sorts) == ["General", "Integer", "Symbol"], ctx.site(b), "sorts: %s" % sorts)
    for s1 in sorts:
        for s2 in sorts:
            v = ev.function(b, [("ctor", "Variable", (("name", ("param", "$n1")), ("sort", ("ctor", "Sort::" + s1, ())))),
                                ("ctor", "Variable", (("name", ("param", "$n2")), ("sort", ("ctor", "Sort::" + s2, ()))))])
            want = (s1 == s2) or s2 == "General"
            dv = sym.decide_bool(v)
            ctx.add("RW-7", "subsort:%s<=%s" % (s1, s2), (v == ("lit", want)) or dv is want, ctx.site(b), "subsort(%s, %s) = %s (definition: %s)" % (s1, s2, v, want))


def rule_use_sites(ctx):
    """`applied inside verify`: the portfolios composed before gamma in the strong-equivalence task act on here-and-there formulas and may only
    contain the HT-sound lists (shared with C03: RW-2)."""
    from . import c03
    sub = type(ctx)(ctx.prop, ctx.tier, ctx.facts)
    c03.rule_pipe(sub)
    n = 0
    for o in sub.obls:
        if o["key"].startswith("RW-2:"):
            ctx.obls.append(o)
            n += 1
    if n == 0:
        raise AnalysisGap("no RW-2 use-site obligations")


def meths_chars(meths):
    return "chars" in meths or "bytes" in meths or "char_indices" in meths


def rule_fresh_names(ctx):
    """restrict_quantifier_domain replaces a general variable by a *fresh* integer variable: the chooser in classic.rs (a copy of tau-star's) must
    avoid every variable of the formula and every name it has already handed out; otherwise two quantified variables are merged"""
    from . import c01
    fx = ctx.facts
    b = fx.fn("classic::unstable::choose_fresh_variable_names")
    c01.check_chooser(ctx, b, group="FRESH", tag="classic-chooser")
    # what it is asked to avoid: the variables of the whole formula being rewritten
    rh = fx.fn("unstable::replacement_helper")
    cs = hq.calls(rh["body"], "unstable::choose_fresh_variable_names")
    ok = len(cs) == 1 and "variables" in hq.render(cs[0]["args"][0]) and hq.local_of(strip(cs[0]["args"][0]).get("recv", {})) in ("formula",) or \
        (len(cs) == 1 and "formula.variables()" in hq.render(cs[0]["args"][0]))
    # the prefix the fresh names are built from starts a variable name: it is the first character of an existing variable's name (an upper-case
    # letter by the grammar) or a literal letter - the last character of `I1` is a digit, and `1$i` is not a variable
    pref_ok = False
    if len(cs) == 1 and len(cs[0]["args"]) >= 2:
        a1 = cs[0]["args"][1]
        meths = [n_["method"] for n_ in walk(a1) if n_.get("k") == "MethodCall"]
        lits_ = [n_.get("v") for n_ in walk(a1) if n_.get("k") == "Lit" and isinstance(n_.get("v"), str)]
        selectors = [m_ for m_ in meths if m_ in ("next", "last", "nth", "next_back", "rev", "skip", "nth_back", "max", "min", "pop", "split_off", "rsplit", "rfind")]
        first_char = "chars" in meths and selectors == ["next"]
        literal_letter = bool(lits_) and not meths_chars(meths) and all(len(x_) >= 1 and x_[0].isalpha() and x_[0].isupper() for x_ in lits_)
        pref_ok = first_char or literal_letter
    ctx.add("FRESH", "classic-chooser:prefix-starts-a-variable-name", pref_ok, ctx.site(rh),
            "the prefix of the fresh name is the first character of a variable's name (or a literal upper-case letter): %s" % [hq.render(c["args"][1])[:80] for c in cs if len(c["args"]) >= 2])
    ctx.add("FRESH", "classic-chooser:taken-is-formula-variables", ok, ctx.site(rh), "the names to avoid are the variables of the formula in which the replacement happens: %s" % [hq.render(c["args"][0]) for c in cs])


def rule_variable_leaves(ctx):
    """the rewrites decide on free_variables() / variables() (orphaned binders, capture, scope extension): a variable occurrence must be
    collected under its own sort, else a bound `X$s` is not found in its body and the binder is dropped"""
    collect.check_variable_leaves(ctx, "COLLECT", ctx.facts)


def rule_variable_conversions(ctx):
    """the substituting rewrites rename bound variables through Variable -> term conversions: each sort converts to a variable of that sort"""
    collect.check_variable_conversions(ctx, "COLLECT", ctx.facts, which=("from",))


RULES = [rule_variable_leaves, rule_rw1, rule_rw3, rule_rw4, rule_rw5, rule_comparisons, rule_strategy, rule_apply, rule_equality_predicate, rule_subsort_table, rule_use_sites, rule_fresh_names, rule_variable_conversions]
