"""C11 — applicability checks are exact and enforced before any obligation is emitted."""
import re
from ..facts import AnalysisGap, callee, callee_generic, local_id_of, local_of, pat_bindings, strip, walk
from .. import flow, hq, sym, tasks

EXPLANATION = (
    "FLOW-DOM/FLOW-ERR: in ExternalEquivalenceTask::decompose the 13 ensure_* call sites are extracted with their arguments traced to their "
    "origin (self.program, the Left/Right payload of self.specification, the private-predicate sets) and their branch context; each must be "
    "`?`-propagated, sit at an unconditional position (top level, or the Either arm of its side), precede every use of the translation closures "
    "and the construction of the validated task; every ensure_* method of the impl is called. The inline output-predicate check on user-guide "
    "assumptions must guard the only push into user_guide_assumptions. TPL: every ensure_* body is evaluated to a term (condition, error variant, "
    "operands) and compared with the reference term written from the property text. GRAPH: is_tight / has_private_recursion are evaluated with "
    "every graph operation recorded (loop nest, facts that hold, arguments): nodes from self.predicates(), edges head -> body.positive_predicates() (resp. all body predicates restricted to private head and "
    "body), choice heads with private predicate refuse, result (not) is_cyclic_directed; positive_predicates yields only NoSign literals. "
    "is_regular is natural().is_some(). COLLECT: every user-guide collector (placeholders, formulas, input / output predicates) adds every entry of "
    "its kind unconditionally. FLOW-READ: bypass_tightness is read only inside ensure_program_tightness. CLI: --bypass-tightness is a plain presence flag (no default that depends on another option).")
UNDECIDED = ["exactness of petgraph::algo::is_cyclic_directed (library)", "the definition of regularity itself: decided as tables under C08"]
ASSUMPTIONS = ["petgraph cycle detection is exact", "derived Hash/Eq on Predicate compare symbol and arity"]

SELF = "verifying::task::external_equivalence::ExternalEquivalenceTask"


def binder_origins(body):
    """local id -> origin string for pattern-bound locals of matches on places (e.g. Either::Left(ref program))."""
    out = {}
    for m in hq.nodes(body, "Match"):
        fp = hq.field_path(m["scrut"])
        if fp is None:
            continue
        for a in m["arms"]:
            for bnd in pat_bindings(a["pat"]):
                out[bnd["id"]] = "%s ~ %s" % (fp, hq.pat_key(a["pat"]))
    return out


def arg_origin(body, a, binders):
    s = flow.summ(a)
    out = set(flow.places_in(s))
    for name, lid in flow.locals_in(s):
        if lid in binders:
            suffix = ""
            out.add(binders[lid])
        else:
            out |= tasks.origin_of_local(body, lid)
    for c in flow.callees_in(s):
        if c == "IndexSet::new":
            out.add("{}")
    # field projections on binders: specification.formulas
    fp = hq.field_path(a)
    if fp and "." in fp:
        root = strip(a)
        while root.get("k") == "Field":
            root = strip(root["e"])
        lid = local_id_of(root)
        if lid in binders:
            out = {binders[lid] + "." + fp.split(".", 1)[1]}
    return tuple(sorted(out))


L = "self.specification ~ Either::Left(_)"
R = "self.specification ~ Either::Right(_)"
REF_CALLS = [
    ("ensure_valid_formula_representation", (), ()),
    ("ensure_input_and_output_predicates_are_disjoint", (), ()),
    ("ensure_program_tightness", (("self.program",),), ()),
    ("ensure_absence_of_private_recursion", (("self.program",), ("self.program", "self.user_guide")), ()),
    ("ensure_rule_heads_do_not_contain_input_predicates", (("self.program",),), ()),
    ("ensure_placeholder_name_uniqueness", (), ()),
    ("ensure_assumptions_only_contain_input_symbols", (("{}",), ("self.user_guide",)), ()),
    ("ensure_program_tightness", ((L,),), (L,)),
    ("ensure_absence_of_private_recursion", ((L,), ("self.specification", "self.user_guide")), (L,)),
    ("ensure_rule_heads_do_not_contain_input_predicates", ((L,),), (L,)),
    ("ensure_specification_assumptions_do_not_contain_output_predicates", ((R,),), (R,)),
    ("ensure_assumptions_only_contain_input_symbols", (("self.program", "self.user_guide"), (R + ".formulas",)), (R,)),
    ("ensure_specification_roles_are_supported", ((R + ".formulas",),), (R,)),
]


def rule_enforcement(ctx):
    fx = ctx.facts
    b = fx.fn("decompose", impl_self=SELF)
    site = ctx.site(b)
    body = b["body"]
    pm = hq.parent_map(body)
    binders = binder_origins(body)
    cond_of = {id(n): c for n, c in flow.walk_cond(body)}
    found = []
    top = hq.stmts_of(body)

    def top_index(n):
        for i, s in enumerate(top):
            if hq.contains(s, n):
                return i
        return None

    for c in walk(body):
        if c.get("k") == "MethodCall" and (callee(c) or "").startswith(SELF + "::ensure_"):
            name = c["method"]
            args = tuple(arg_origin(body, a, binders) for a in c["args"])
            conds = tuple(k for k, pol in cond_of.get(id(c), ()) if pol)
            found.append({"name": name, "args": args, "conds": conds, "try": hq.is_try_propagated(pm, c), "node": c, "idx": top_index(c)})
    ctx.floor("FLOW-DOM", "ensure_call_sites", len(found), 13)
    remaining = list(found)
    for i, (name, args, conds) in enumerate(REF_CALLS):
        hit = [f for f in remaining if f["name"] == name and f["args"] == args and f["conds"] == conds]
        key = "%s%s" % (name, "@" + ("Left" if conds == (L,) else "Right") if conds else "")
        if hit:
            remaining.remove(hit[0])
            ctx.ok("FLOW-DOM", "site:" + key, ctx.site(b, hit[0]["node"]), "required check present with arguments from %s in context %s" % (args, conds or "unconditional"),
                   construct={"args": args, "conds": conds})
            ctx.add("FLOW-ERR", "propagated:" + key, hit[0]["try"], ctx.site(b, hit[0]["node"]), "its Err is propagated with `?`")
        else:
            near = [(f["args"], f["conds"]) for f in found if f["name"] == name]
            ctx.bad("FLOW-DOM", "site:" + key, site, "required check %s(%s) in context %s not found; calls of that method: %s" % (name, args, conds or "unconditional", near))
    # every ensure_* method of the impl is used
    defined = sorted(x["name"] for x in fx.body_list if x["def_path"].startswith(SELF + "::ensure_"))
    called = {f["name"] for f in found}
    for d in defined:
        ctx.add("FLOW-DOM", "called:" + d, d in called, site, "precondition method %s is invoked by decompose" % d, nontrivial=False)
    ctx.floor("FLOW-DOM", "ensure_methods", len(defined), 9)
    # position: before the first use of the translation closures and before the validated task
    lets = hq.let_by_id(body)
    closure_ids = {i for i, l in lets.items() if "init" in l and strip(l["init"]).get("k") == "Closure" and hq.calls(l["init"], "TauStar::tau_star")}
    first_use = None
    for n in walk(body):
        if n.get("k") == "Call" and local_id_of(n["f"]) in closure_ids:
            i = top_index(n)
            first_use = i if first_use is None else min(first_use, i)
    vt = [n for n in hq.nodes(body, "Struct") if hq.last(n["res"].get("adt", "")) == "ValidatedExternalEquivalenceTask"]
    if first_use is None or len(vt) != 1:
        raise AnalysisGap("decompose: translation closure use / ValidatedExternalEquivalenceTask literal not found")
    last_check = max(f["idx"] for f in found)
    ctx.add("FLOW-DOM", "checks-before-translation", last_check < first_use <= top_index(vt[0]), site,
            "all ensure_* statements (last at statement %d) precede the first translation (statement %d) and the validated task (statement %d)" % (
                last_check, first_use, top_index(vt[0])))
    # inline check on user-guide assumptions
    pushes = [c for c in hq.calls(body, method="push") if local_of(c["recv"]) == "user_guide_assumptions" or "user_guide" in hq.render(c["recv"])]
    rets = [n for n in hq.nodes(body, "Ret") if "OutputPredicateInUserGuideAssumption" in repr(flow.summ(n))]
    ok = len(pushes) == 1 and len(rets) == 1
    detail = ""
    if ok:
        pc = cond_of.get(id(pushes[0]), ())
        rc = cond_of.get(id(rets[0]), ())
        detail = "push under %s; refusal under %s" % (pc, rc)
        ok = len(pc) >= 2 and len(rc) >= 2 and pc[-1][0] == rc[-1][0] and pc[-1][1] is True and rc[-1][1] is False and "is_empty" in pc[-1][0] \
            and pc[-2] == rc[-2] and "Role::Assumption" in pc[-2][0]
        # the tested overlap is predicates() filtered by output_predicates().contains
        ifn = [n for n in hq.ancestors(pm, pushes[0]) if n.get("k") == "If"][0]
        ovl = local_id_of(strip(ifn["cond"])["recv"]) if strip(ifn["cond"]).get("k") == "MethodCall" else None
        s = repr(flow.summ(lets[ovl]["init"])) if ovl in lets else ""
        # a sub-expression hoisted into a `let` before the loop (say the output predicates) is read through that local
        seen_ = {ovl}
        for _ in range(2):
            for lid_ in [int(x_) for x_ in re.findall(r"\('local', '\w+', (\d+)\)", s)]:
                if lid_ in lets and lid_ not in seen_ and "init" in lets[lid_]:
                    seen_.add(lid_)
                    s += " where " + repr(flow.summ(lets[lid_]["init"]))
        ok = ok and "UserGuide::output_predicates" in s and "contains" in s and "AnnotatedFormula::predicates" in s
        detail += "; overlap = %s" % s[:160]
    ctx.add("FLOW-DOM", "inline:user-guide-assumption", ok, site, "user-guide assumptions with an output predicate are refused, only the others are kept: " + detail)
    # bypass flag non-interference
    readers = []
    for x in fx.body_list:
        if x["body"].get("mac", "").startswith("#"):
            continue  # derived impls (Debug)
        for n in walk(x["body"]):
            if n.get("k") == "Field" and n.get("name") == "bypass_tightness" and n["e"].get("ty", "").lstrip("&").endswith("ExternalEquivalenceTask"):
                readers.append(x["name"])
    ctx.add("FLOW-READ", "bypass_tightness", readers == ["ensure_program_tightness"], site, "bypass_tightness is read only in %s" % readers)


def T(*a):
    return tuple(a)


OK_ = ("ctor", "Result::Ok", (("0", ("call", "WithWarnings::flawless", (("list", ()),))),))


def ERR(v, *payload):
    return ("ctor", "Result::Err", (("0", ("ctor", "ExternalEquivalenceTaskError::" + v, tuple((str(i), p) for i, p in enumerate(payload)))),))


UG = ("place", "self.user_guide")
INP = ("call", "UserGuide::input_predicates", (UG,))
OUTP = ("call", "UserGuide::output_predicates", (UG,))
PROG = ("param", "program")


def conv(t):
    return ("call", "Iterator::map", (t, ("fn", "from")))


INTER_IO = ("call", "IndexSet::intersection", (INP, OUTP))
INTER_HEAD = ("call", "IndexSet::intersection", (INP, conv(("call", "Program::head_predicates", (PROG,)))))
EACH_SPEC = ("each", ("place", "specification.formulas"))
OVL_SPEC = ("call", "Iterator::filter", (("call", "AnnotatedFormula::predicates", (EACH_SPEC,)),
                                         ("closure", ("p",), ("call", "IndexSet::contains", (OUTP, ("param", "p"))))))
EACH_F = ("each", ("param", "formulas"))
EACH_PH = ("each", ("call", "UserGuide::placeholders", (UG,)))

REF_ENSURE = {
    "ensure_program_tightness": ("if", ("call", "Tightness::is_tight", (PROG,)), OK_,
                                 ("if", ("place", "self.bypass_tightness"),
                                  ("ctor", "Result::Ok", (("0", ("call", "WithWarnings::add_warning",
                                                                 (("call", "WithWarnings::flawless", (("list", ()),)),
                                                                  ("ctor", "ExternalEquivalenceTaskWarning::NonTightProgram", (("0", PROG),))))),)),
                                  ERR("NonTightProgram", PROG))),
    "ensure_absence_of_private_recursion": ("if", ("call", "PrivateRecursion::has_private_recursion", (PROG, conv(("param", "private_predicates")))),
                                            ERR("ProgramContainsPrivateRecursion", PROG), OK_),
    "ensure_input_and_output_predicates_are_disjoint": ("if", ("call", "Vec::is_empty", (INTER_IO,)), OK_, ERR("InputOutputPredicatesOverlap", INTER_IO)),
    "ensure_rule_heads_do_not_contain_input_predicates": ("if", ("call", "Vec::is_empty", (INTER_HEAD,)), OK_, ERR("InputPredicateInRuleHead", INTER_HEAD)),
    "ensure_specification_assumptions_do_not_contain_output_predicates": (
        "returns", ((((("matches", ("fieldof", EACH_SPEC, "role"), ("Role::Assumption",)), True),
                      (("op", "Not", ("call", "Vec::is_empty", (OVL_SPEC,))), True)),
                     ERR("OutputPredicateInSpecificationAssumption", OVL_SPEC)),
                    (("fallthrough",), OK_))),
    "ensure_placeholder_name_uniqueness": (
        "returns", ((((("call", "IndexSet::contains", (("acc", ("call", "IndexSet::new", ())), ("fieldof", EACH_PH, "name"))), True),),
                     ERR("PlaceholdersWithIdenticalNamesDifferentSorts", ("fieldof", EACH_PH, "name"))),
                    (("fallthrough",), OK_))),
    "ensure_assumptions_only_contain_input_symbols": (
        "returns", ((((("matches", ("fieldof", EACH_F, "role"), ("Role::Assumption",)), True),
                      (("call", "Option::is_some", (("call", "Iterator::next", (("call", "IndexSet::difference", (
                          ("call", "Formula::predicates", (("fieldof", EACH_F, "formula"),)),
                          ("upd", ("param", "program_input_symbols"), "append", (INP,)))),)),)), True)),
                     ERR("AssumptionContainsNonInputSymbols", EACH_F)),
                    (("fallthrough",), OK_))),
    "ensure_valid_formula_representation": (
        "returns", ((((("op", "Not", ("matches", ("place", "self.formula_representation"), ("FormulaRepresentation::TauStar",))), True),),
                     ERR("UnsupportedFormulaRepresentation")),
                    (("fallthrough",), OK_))),
}


def commut(t):
    """Normalise commutative set operations (intersection argument order)."""
    if isinstance(t, tuple):
        t = tuple(commut(x) for x in t)
        if len(t) == 3 and t[0] == "call" and t[1] == "IndexSet::intersection":
            return ("call", t[1], tuple(sorted(t[2], key=repr)))
    return t


def rule_ensure_templates(ctx):
    fx = ctx.facts
    ev = sym.Eval(fx, inline_depth=0)
    for name, ref in REF_ENSURE.items():
        b = fx.fn(SELF + "::" + name)
        v = ev.function(b)
        from .. import leaves as _lv
        cv, cr = _lv.canon_first(v), _lv.canon_first(ref)
        same = (commut(v) == commut(ref)) or (cv is not None and cv == cr)
        if not same and cv is None and cr is None:
            # no loop involved: the check is a decision over a few facts - compared as a function of them (`if a {..} else if b {..}`, a match
            # on the pair (a, b), guard clauses)
            try:
                same = _lv.same_decision(_lv.leaves(_lv.lift(v)), _lv.leaves(_lv.lift(ref)))[0]
            except Exception:
                same = False
        ctx.add("TPL", "ensure:" + name, same, ctx.site(b),
                "the check evaluates to the reference term (condition, operands, error variant)" if same else
                "extracted term differs from the reference: %s" % sym.pretty(v, width=200)[:900], construct=v)
        if name == "ensure_placeholder_name_uniqueness":
            # the seen-set by role: whichever local ends up holding an insert of the placeholder's name
            names = [t for vals in ev.last_env.values() for t in vals if isinstance(t, tuple) and "insert" in repr(t) and repr(("fieldof", EACH_PH, "name")) in repr(t)]
            ok = any(t[0] == "phi" and "insert" in repr(t) and repr(("fieldof", EACH_PH, "name")) in repr(t) for t in names) or \
                any("insert" in repr(t) and repr(("fieldof", EACH_PH, "name")) in repr(t) for t in names)
            if not ok:
                # `find(|p| !seen.insert(p.name.clone()))`: the test itself records the name of every placeholder it looks at
                finds = [x for x in sym.subterms(v) if isinstance(x, tuple) and x[:2] == ("call", "Iterator::find") and len(x[2]) == 2 and isinstance(x[2][1], tuple) and x[2][1][:1] == ("closure",)]
                for fd in finds:
                    par = fd[2][1][1][0] if len(fd[2][1][1]) == 1 else None
                    ins = [y for y in sym.subterms(fd[2][1][2]) if isinstance(y, tuple) and y[:1] == ("call",) and str(y[1]).endswith("Set::insert") and len(y[2]) == 2]
                    if par and any(repr(("place", par + ".name")) in repr(y[2][1]) or repr(("fieldof", ("param", par), "name")) in repr(y[2][1]) for y in ins) \
                            and "UserGuide::placeholders" in repr(fd[2][0]):
                        ok = True
            ctx.add("TPL", "ensure:placeholder-names-recorded", ok, ctx.site(b), "every placeholder name not yet seen is inserted into the seen set", construct=names)
    # roles accepted by the specification validator vs. roles the consumer treats as unreachable (contradiction rule)
    b = fx.fn(SELF + "::ensure_specification_roles_are_supported")
    v = ev.function(b)
    from .. import leaves as _lv
    cf = _lv.canon_first(v)
    accepted = None
    shape_ok = False
    if cf is not None and len(cf[1]) == 1:
        AT = ("at", cf[1][0])
        role = ("fieldof", AT, "role")
        neg = [t for t in cf[2] if t[0] == "not" and len(t[1]) == 1 and t[1][0][0] == "is" and t[1][0][1] == role]
        accepted = {t[1][0][2] for t in neg}
        shape_ok = bool(accepted) and len(neg) == len(cf[2]) and cf[1][0] == ("param", "formulas") and \
            cf[3] == _lv.norm(_lv.replace(ERR("SpecificationContainsUnsupportedRoles", EACH_F), {EACH_F: AT})) and cf[4] == _lv.norm(OK_)
    ctx.add("TPL", "ensure:ensure_specification_roles_are_supported", shape_ok, ctx.site(b), "the first formula whose role is not in %s is refused, nothing else is" % sorted(accepted or []), construct=v)
    vd = fx.fn("decompose", impl_self="verifying::task::external_equivalence::ValidatedExternalEquivalenceTask")
    unreachable_roles = set()
    handled = set()
    for m in hq.matches_over(vd["body"], "syntax_tree::fol::sigma_0::Role"):
        for a in m["arms"]:
            alts = {hq.pat_key(p) for p in hq.or_alternatives(a["pat"])}
            if hq.panics_in(a["body"]) and strip(a["body"]).get("ty") == "!":
                unreachable_roles |= alts
            else:
                handled |= alts
    ctx.add("TAB-VALID", "spec-roles", accepted is not None and not (accepted & unreachable_roles) and accepted <= handled, ctx.site(b),
            "roles accepted in a specification %s must all be handled by the validated task (handled %s, unreachable!() for %s)" % (
                sorted(accepted or []), sorted(handled), sorted(unreachable_roles)),
            construct={"accepted": sorted(accepted or []), "unreachable": sorted(unreachable_roles)})


def graph_effects(fx, b):
    """the graph operations of a function, evaluated symbolically: every add_node / update_edge with the (canonical) loop nest it sits in, the
    facts that hold when it runs (filters of the iterators included; `survived` facts of earlier exits dropped) and its arguments"""
    from .. import leaves
    ev = sym.Eval(fx, inline_depth=0)
    ev.effect_calls = {"Graph::add_node", "Graph::update_edge", "Graph::add_edge", "GraphMap::add_edge", "GraphMap::add_node"}
    value = ev.function(b)
    recs = []
    for conds, loops, eff in ev.out:
        if eff[0] != "emit" or eff[1] not in ev.effect_calls:
            continue
        nest, mp, flt = leaves.loop_nest_filtered(loops)
        cv = lambda x: leaves.norm(leaves.strip_acc(leaves.replace(x, mp)))
        tests = []
        for c, pol in list(conds) + flt:
            r = leaves.cond_tests(cv(c), pol)
            if r is False:
                tests = None
                break
            # an earlier `continue` / `return` in the same pass that was not taken is a condition of this operation like any other
            # (one taken before the loop - `if .. { return true }` ahead of it - says nothing about this element and is left out)
            own = {("each", n_) for n_ in loops} | {("each", cv(n_)) for n_ in nest}
            for t in r:
                if t[0] != "survived":
                    tests.append(t)
                elif any(x in own for x in sym.subterms(t[1])) or any(x in own for x in sym.subterms(c)):
                    tests.append(t[1])
        if tests is None:
            continue
        recs.append({"op": eff[1].split("::")[1], "nest": [cv(n) for n in nest], "tests": tests, "args": [cv(a) for a in eff[2]]})
    return ev, value, recs


def rule_graphs(ctx):
    from .. import leaves
    fx = ctx.facts
    t = fx.fn("is_tight", impl_self="syntax_tree::asp::mini_gringo::Program")
    ev, v, recs = graph_effects(fx, t)
    SELFP = ("param", "self")
    RULES_ = ("fieldof", SELFP, "rules")
    RULE = ("each", RULES_)
    PREDS = ("call", "Program::predicates", (SELFP,))
    HEADP = ("call", "Head::predicate", (("fieldof", RULE, "head"),))
    HP = ("proj", HEADP, (("Option::Some", "0"),))
    has_head = ("is", HEADP, "Option::Some")
    ctx.add("GRAPH", "tight:result", v[0] == "op" and v[1] == "Not" and v[2][:2] == ("call", "algo::is_cyclic_directed"), ctx.site(t), "is_tight = not is_cyclic_directed(graph)", construct=v[:2])
    nodes = [r for r in recs if r["op"] == "add_node"]
    edges = [r for r in recs if r["op"] != "add_node"]
    ctx.add("GRAPH", "tight:nodes", len(nodes) == 1 and nodes[0]["nest"] == [PREDS] and not nodes[0]["tests"], ctx.site(t),
            "one node per predicate of self.predicates(), unconditionally: %s" % [(r["nest"], r["tests"]) for r in nodes])
    BP = ("call", "Body::positive_predicates", (("fieldof", RULE, "body"),))
    e_ok = len(edges) == 1 and edges[0]["op"] == "update_edge" and edges[0]["nest"] == [RULES_, BP] and edges[0]["tests"] == [has_head]
    ctx.add("GRAPH", "tight:edges", e_ok, ctx.site(t), "one edge per rule with a head predicate and per element of body.positive_predicates(), under no other condition: %s"
            % [(sym.pretty(n)[:90] for n in r["nest"]) and (len(r["nest"]), r["tests"]) for r in edges])

    def keyed(a, key):
        # a node looked up by predicate: map[key] where the map was filled from the predicates together with add_node
        return isinstance(a, tuple) and a[:1] == ("index",) and a[2] == key and "add_node" in repr(a[1]) and repr(PREDS) in repr(a[1])
    ok = len(edges) == 1 and len(edges[0]["args"]) >= 3 and keyed(edges[0]["args"][1], HP) and keyed(edges[0]["args"][2], ("each", BP)) and edges[0]["args"][1][1] == edges[0]["args"][2][1]
    ctx.add("GRAPH", "tight:edge-direction", ok, ctx.site(t), "edge source is the node of the head predicate, target the node of the positive body predicate (same predicate -> node map)")
    # positive occurrences, decided per kind of body formula (so that a match, an if-let or a guard spell the same table)
    pp = fx.fn("AtomicFormula::positive_predicates")
    from ..leaves import norm as _norm
    pos = {}
    for sg in fx.variants("syntax_tree::asp::mini_gringo::Sign"):
        node = ("ctor", "AtomicFormula::Literal", (("0", ("ctor", "Literal", (("atom", ("param", "$a")), ("sign", ("ctor", "Sign::" + sg, ()))))),))
        r = _norm(sym.Eval(fx, inline_depth=0).function(pp, [node]))
        pos[sg] = ("call", "Atom::predicate", (("param", "$a"),)) in list(sym.subterms(r)) or ("call", "Literal::predicate", (node[2][0][1],)) in list(sym.subterms(r))
        if not pos[sg] and ("$a" in repr(r) or "match" in repr(r)[:8]):
            pos[sg] = "undecided"
    r = _norm(sym.Eval(fx, inline_depth=0).function(pp, [("ctor", "AtomicFormula::Comparison", (("0", ("param", "$c")),))]))
    pos["Comparison"] = "$c" in repr(r)
    want = {sg: sg == "NoSign" for sg in fx.variants("syntax_tree::asp::mini_gringo::Sign")}
    want["Comparison"] = False
    ctx.add("GRAPH", "positive_predicates", pos == want, ctx.site(pp), "only literals with Sign::NoSign contribute a positive predicate: %s" % pos, construct=pos)
    from .. import collect as _collect
    sub = type(ctx)(ctx.prop, ctx.tier, ctx.facts)
    _collect.check_asp_predicate_collectors(sub, "GRAPH", fx)
    for o in sub.obls:
        if o["key"] == "GRAPH:asp:Body::positive_predicates":
            o = dict(o)
            o["key"] = "GRAPH:body-positive"
        ctx.obls.append(o)
    # private recursion
    p = fx.fn("has_private_recursion", impl_self="syntax_tree::asp::mini_gringo::Program")
    ev, v, recs = graph_effects(fx, p)
    PRIV = ("param", "private_predicates")
    ok = v[0] == "returns"
    HEAD = ("fieldof", RULE, "head")
    want_choice = {("is", HEAD, "Head::Choice"), ("cond", ("call", "IndexSet::contains", (PRIV, ("call", "Atom::predicate", (("proj", HEAD, (("Head::Choice", "0"),)),)))), True)}
    choice_ok = False
    early = v[1][0] if ok else None
    if early:
        conds, val = early
        if val == ("lit", True):
            got = set()
            for c, pol in conds:
                c = leaves.norm(c)
                if isinstance(c, tuple) and c[:2] == ("call", "Iterator::any") and pol and leaves.norm(c[2][0]) == RULES_:
                    # exists-form: any(rules, |rule| ..): the paths of the closure body that yield true
                    body = leaves.norm(leaves._apply(c[2][1], RULE))
                    for ts, x in leaves.bool_leaves(body):
                        if x == ("lit", True):
                            got |= set(ts)
                else:
                    r = leaves.cond_tests(c, pol)
                    got |= set(r or [("dead",)])
            choice_ok = got == want_choice
            choice_detail = sorted(map(str, got ^ want_choice))
    ctx.add("GRAPH", "private:choice", choice_ok, ctx.site(p), "a choice rule whose head predicate is private refuses the program (and nothing else does)", construct=early if choice_ok else locals().get("choice_detail"))
    final = v[1][-1][1] if ok else v
    ctx.add("GRAPH", "private:result", final[:2] == ("call", "algo::is_cyclic_directed"), ctx.site(p), "otherwise the result is is_cyclic_directed(graph)")
    nodes = [r for r in recs if r["op"] == "add_node"]
    edges = [r for r in recs if r["op"] != "add_node"]
    BA = ("call", "Body::predicates", (("fieldof", RULE, "body"),))
    priv = lambda x: ("cond", ("call", "IndexSet::contains", (PRIV, x)), True)
    ctx.add("GRAPH", "private:nodes", len(nodes) == 1 and nodes[0]["nest"] == [PREDS] and nodes[0]["tests"] == [priv(("each", PREDS))], ctx.site(p),
            "one node per private predicate of the program: %s" % [r["tests"] for r in nodes])
    ok = len(edges) == 1 and edges[0]["nest"][:1] == [RULES_] and len(edges[0]["nest"]) == 2 and "Body::predicates" in repr(edges[0]["nest"][1]) and "positive_predicates" not in repr(edges[0]["nest"])
    ctx.add("GRAPH", "private:edges-all-signs", ok and edges[0]["nest"] == [RULES_, BA], ctx.site(p), "edges use body.predicates() (every sign), not only positive occurrences: %s" % [sym.pretty(n)[:120] for r in edges for n in r["nest"][1:]])
    def _unfilter(tests):
        """`let Some(p) = opt.filter(|p| keep(p)) else ..`: the option is Some and its value passes the filter"""
        out, ren = [], {}
        for t_ in tests:
            if t_[0] == "is" and t_[2] == "Option::Some" and isinstance(t_[1], tuple) and t_[1][:2] == ("call", "Option::filter") and len(t_[1][2]) == 2 \
                    and isinstance(t_[1][2][1], tuple) and t_[1][2][1][:1] == ("closure",) and len(t_[1][2][1][1]) == 1:
                o_, cl_ = t_[1][2]
                val_ = ("proj", o_, (("Option::Some", "0"),))
                ren[("proj", t_[1], (("Option::Some", "0"),))] = val_
                out.append(("is", o_, "Option::Some"))
                out.extend(leaves.cond_tests(leaves.norm(leaves._apply(cl_, val_)), True) or [("dead",)])
            else:
                out.append(t_)
        return [leaves.replace(t_, ren) for t_ in out]
    if len(edges) == 1:
        edges[0]["tests"] = _unfilter(edges[0]["tests"])
    ok = len(edges) == 1 and set(edges[0]["tests"]) == {has_head, priv(HP), priv(("each", BA))} and len(edges[0]["tests"]) == 3
    ctx.add("GRAPH", "private:edges-restricted", ok, ctx.site(p), "an edge is added exactly when the rule has a head predicate and head and body predicate are both private: %s" % ([r["tests"] for r in edges],))
    # regularity
    rgl = fx.fn("is_regular", impl_self="syntax_tree::asp::mini_gringo::Program")
    v = ev.function(rgl)
    ctx.add("GRAPH", "regular", v == ("call", "Option::is_some", (("call", "Natural::natural", (("param", "self"),)),)), ctx.site(rgl), "is_regular = natural().is_some()", construct=v)
    # CLI: analyze prints these
    m = fx.fn("command_line::procedures::main")
    for prop_, fn_ in (("Property::Regularity", "Regularity::is_regular"), ("Property::Tightness", "Tightness::is_tight")):
        hit = False
        for mm in hq.matches_over(m["body"], "command_line::arguments::Property"):
            for a in mm["arms"]:
                if hq.pat_key(a["pat"]) == prop_:
                    hit = bool(hq.calls(a["body"], fn_)) and len([c for c in walk(a["body"]) if c.get("k") == "MethodCall" and c["method"] in ("is_tight", "is_regular")]) == 1
        ctx.add("GRAPH", "cli:" + prop_, hit, ctx.site(m), "analyze --property dispatches %s to %s" % (prop_, fn_))


def rule_entry_collectors(ctx):
    """The validation reads the user guide through its collectors: each collector hands out every entry of its kind (a declaration that is
    skipped is a declaration that is never checked for conflicts)."""
    from .. import sym, leaves
    fx = ctx.facts
    table = {"placeholders": "UserGuideEntry::PlaceholderDeclaration", "formulas": "UserGuideEntry::AnnotatedFormula",
             "input_predicates": "UserGuideEntry::InputPredicate", "output_predicates": "UserGuideEntry::OutputPredicate"}
    from .. import leaves as _lv
    entry = _lv.norm(("each", ("place", "self.entries")))
    for name, variant in table.items():
        b = fx.fn("UserGuide::" + name)
        site = ctx.site(b)
        v = sym.Eval(fx, inline_depth=0).function(b)
        lv = leaves.leaves(v)
        is_v = ("is", entry, variant)
        payload = ("proj", entry, ((variant, "0"),))
        taken = [(ts, x) for ts, x in lv if is_v in ts]
        other = [(ts, x) for ts, x in lv if is_v not in ts]

        def adds(x):
            # upd(acc(init), insert|push, (payload or a conversion of it,))
            if not (isinstance(x, tuple) and x[:1] == ("upd",) and x[2] in ("insert", "push") and len(x[3]) == 1):
                return False
            a = leaves.norm(x[3][0])
            while isinstance(a, tuple) and a[:1] == ("call",) and a[1].startswith("From::from[") and len(a[2]) == 1:
                a = a[2][0]
            return a == payload and isinstance(x[1], tuple) and x[1][:1] == ("acc",)
        inits = {leaves.strip_acc(x[1]) for _, x in taken if isinstance(x, tuple) and x[:1] == ("upd",)}
        ok_taken = bool(taken) and all(ts == (is_v,) and adds(x) for ts, x in taken)
        ok_other = len(inits) == 1 and all(leaves.strip_acc(x) in inits for _, x in other)
        ctx.add("COLLECT", "UserGuide::%s:every-entry" % name, ok_taken, site,
                "every %s entry is added to the result, unconditionally: %s" % (variant.split("::")[1], [(list(ts), sym.pretty(x)[:80]) for ts, x in taken][:3]))
        ctx.add("COLLECT", "UserGuide::%s:nothing-else" % name, ok_other, site, "entries of another kind leave the result unchanged")


def rule_cli_flags(ctx):
    """the tightness check is waived by --bypass-tightness only: the flag is true exactly when the user wrote it"""
    from .. import collect as _collect
    _collect.check_cli_flags(ctx, "CLI", ctx.facts, ["bypass_tightness"])


RULES = [rule_enforcement, rule_ensure_templates, rule_graphs, rule_entry_collectors, rule_cli_flags]
