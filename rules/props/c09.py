"""C09 — every emitted problem is well-formed, well-typed, self-contained TFF."""
import re

from ..facts import AnalysisGap, callee, strip, walk
from .. import collect, flow, hq, printers, regular as R, sym, tasks, tff
from . import c02

EXPLANATION = (
    "DECL: `Display for Problem` is evaluated to its ordered output effects: the preamble first, then one declaration loop per identifier class "
    "(predicates from self.predicates(): `({general *}^n) > $o` resp. `$o` for n = 0; symbols from self.symbols(): `symbol`; placeholders from "
    "self.function_constants(): the type of their sort, under the printer's suffixed name), then the symbol-order axioms, then the formulas. "
    "COLLECT: the three collectors (predicates / symbols / function_constants) are checked level by level (Problem, AnnotatedFormula, Formula, "
    "AtomicFormula, GeneralTerm, IntegerTerm, SymbolicTerm, Guard): every field that can contain the class is passed on, so everything the "
    "formula printer can emit is declared. NS: the identifier languages of the classes (from the grammar's symbolic_constant and the printer "
    "templates) are intersected as regular languages; an overlap is accepted only where a renaming guard covers it. NAMES: every Problem builder "
    "chain ends in create_unique_formula_names (index-prefixed names), empty / underscore names are repaired, generated names cannot equal "
    "preamble names. ONE-CONJECTURE: decomposition yields axioms + exactly one conjecture; outline problems are built from axiom-role formulas plus "
    "one conjecture. PRE-1: the preamble parses, type-checks, declares every identifier once and contains no brace. IDENT: function constants, predicates, variables are set elements by all their fields (derived equality / hashing / ordering). SHARED: every built-in identifier the printer can emit is declared in the preamble (C06 PRE-1).")
UNDECIDED = ["type-correctness of arbitrarily nested terms beyond declared = used arity/sort (covered per construct by C06's dispatch tables)",
             "closedness of the formulas reaching a problem (assumed by the property)"]
ASSUMPTIONS = ["TPTP TFF: one declaration per identifier; formula names form their own namespace"]

S = "syntax_tree::fol::sigma_0::"
SELF = ("param", "self")


def rule_declarations(ctx):
    fx = ctx.facts
    b = fx.fn("fmt", impl_self="verifying::problem::Problem", impl_trait="std::fmt::Display")
    site = ctx.site(b)
    p = printers.evaluate(fx, b)
    seq_ = []
    norm = lambda t: re.sub(r"\{\w*\}", "{}", t)      # named placeholders carry a local's name, not output
    for conds, loops, item in p.out:
        if item[0] == "write":
            seq_.append(("write", norm(item[1].split("(")[1].split(",")[0] if item[1].startswith("tff(") else item[1]), loops, conds, item))
        else:
            seq_.append(("emit", item[1], loops, conds, item))
    # one step per kind of line: a line written in several pieces (a declaration whose type comes from a table with its own printer) and a
    # kind written by two writes (p/0, p/n) are one step each
    steps_ = [s for i_, s in enumerate(seq_) if s[0] == "emit" or s[4][1].startswith("tff(") or i_ == 0]
    kinds = [s[1] for i_, s in enumerate(steps_) if i_ == 0 or steps_[i_ - 1][1] != s[1]]
    ref_order = ["{}", "predicate_{}", "type_symbol_{}", "type_function_constant_{}", "symbol_order_{}", "Display::fmt"]
    strip_idx = lambda k_: k_[:-2] if k_.endswith("_{}") else k_          # `predicate_{}` / `predicate_` (the index written as its own piece)
    ctx.add("DECL", "order", [strip_idx(k_) for k_ in kinds] == [strip_idx(k_) for k_ in ref_order], site, "output order: preamble, predicate / symbol / placeholder declarations, symbol order axioms, formulas: %s" % kinds)
    w = {k: [s for s in seq_ if s[1] == k] for k in set(kinds)}
    first = seq_[0][4] if seq_ else None
    ctx.add("DECL", "preamble-first", first == ("write", "{}", (("place", "self.interpretation"),)), site, "the problem starts with its interpretation (the preamble)")
    it = fx.fn("fmt", impl_self="verifying::problem::Interpretation", impl_trait="std::fmt::Display")
    ws = [n for n in walk(it["body"]) if "mac_src" in n and n.get("mac") == "write"]
    ctx.add("DECL", "preamble-source", len(ws) == 1 and "include_str!(\"standard_interpretation.p\")" in ws[0]["mac_src"], ctx.site(it), "Interpretation::Standard prints standard_interpretation.p")
    # predicate declarations
    PRED = ("each", ("call", "Iterator::enumerate", (("call", "Problem::predicates", (SELF,)),)))
    ar = ("fieldof", ("proj", PRED, (("tuple", "1"),)), "arity")
    symb = ("fieldof", ("proj", PRED, (("tuple", "1"),)), "symbol")
    idx = ("proj", PRED, (("tuple", "0"),))
    # the declaration written for one predicate, specialised on its arity (0 / positive): whichever way the test and the text are written
    from .. import leaves as _lv
    PREDS = _lv.norm(("call", "Problem::predicates", (SELF,)))

    def declared(arity):
        def setup(ev2):
            ev2.loop_args = [("list", (("param", "$i"), ("ctor", "Predicate", (("arity", ("lit", arity)), ("symbol", ("param", "$sym"))))))]
        try:
            segs = printers.flat(fx, b, setup=setup).only(lambda n_, ps_: n_ == (PREDS,)).under(sym.decide_bool)
        except printers.Undecided:
            return None
        return [(n, ps) for n, ps in segs if ps and isinstance(ps[0], str) and ps[0].startswith("tff(predicate_")]
    H = lambda name: ("hole", "{}", ("param", name))
    ok = declared(0) == [((PREDS,), ["tff(predicate_", H("$i"), ", type, ", H("$sym"), ": $o).\n"])]
    for n_ in (1, 2, 3):
        ok = ok and declared(n_) == [((PREDS,), ["tff(predicate_", H("$i"), ", type, ", H("$sym"), ": (%s) > $o).\n" % " * ".join(["general"] * n_)])]
    ctx.add("DECL", "predicates", ok, site, "p/n is declared `p: (general * .. * general) > $o` with n factors, p/0 as `p: $o`, once per element of self.predicates()",
            construct=None if ok else [declared(0), declared(2)])
    SYM = ("each", ("call", "Iterator::enumerate", (("call", "Problem::symbols", (SELF,)),)))
    sd = w.get("type_symbol_{}", [])
    ctx.add("DECL", "symbols", len(sd) == 1 and (sd[0][4][0], norm(sd[0][4][1]), sd[0][4][2]) == ("write", "tff(type_symbol_{}, type, {}: symbol).\n", (("proj", SYM, (("tuple", "0"),)), ("proj", SYM, (("tuple", "1"),)))),
            site, "every symbolic constant of self.symbols() is declared `c: symbol`")
    FCS = _lv.norm(("call", "Problem::function_constants", (SELF,)))
    T = printers.flat(fx, b, inline=("Sort",))
    ok = True
    for s_ in ("Sort::General", "Sort::Integer", "Sort::Symbol"):
        try:
            segs = T.only(lambda n_, ps_: n_ == (FCS,)).under(lambda c: (c[2] == s_) if (c[:1] == ("arm",) and c[1] == ("fieldof", ("each", FCS), "sort")) else sym.decide_bool(c))
        except printers.Undecided:
            ok = False
            break
        fd = [(n, ps) for n, ps in segs if ps and isinstance(ps[0], str) and ps[0].startswith("tff(type_function_constant_")]
        ok = ok and len(fd) == 1 and fd[0][0] == (FCS,) and fd[0][1][:4] == ["tff(type_function_constant_", ("hole", "{}", ("idx", FCS)), ", type, ", ("hole", "{}", ("ctor", "Format", (("0", ("each", FCS)),)))] \
            and len(fd[0][1]) == 5 and isinstance(fd[0][1][4], str) and fd[0][1][4].startswith(": ") and fd[0][1][4].endswith(").\n")
    ctx.add("DECL", "function-constants", ok, site, "every placeholder of self.function_constants() is declared under its printed (suffixed) name")
    # used type = declared type for atoms: p(t1..tn) with general-sorted arguments, n = arity of predicate()
    ab = printers.display_impl(fx, "tptp", "Atom")
    ap = printers.evaluate(fx, ab)
    lits = [norm(item[1]) for _, _, item in ap.out if item[0] == "write"]
    # the first argument and then `, ` + argument for the others, or every argument with `, ` before all but the first (a joined iterator)
    ctx.add("DECL", "atom-usage", lits in (["{}", "({}", ", {}", ")"], ["{}", "(", ", ", "{}", ")"]), ctx.site(ab), "an atom is printed as symbol(args) with one general-sorted argument per term, bare symbol for no terms: %s" % lits)
    pr = fx.fn("sigma_0::Atom::predicate")
    v = sym.Eval(fx, inline_depth=0).function(pr)
    ok = v == ("ctor", "Predicate", (("arity", ("call", "Vec::len", (("place", "self.terms"),))), ("symbol", ("place", "self.predicate_symbol"))))
    ctx.add("DECL", "predicate-of-atom", ok, ctx.site(pr), "the declared arity is the number of terms of the atom", construct=v)
    # collectors
    n = 0
    for cls, meth, leaves in (("Atom", "predicates", {S + "Atom"}), ("SymbolicTerm", "symbols", {S + "SymbolicTerm"}),
                              ("FunctionConstant", "function_constants", {S + "GeneralTerm", S + "IntegerTerm", S + "SymbolicTerm"})):
        reach = collect.reachable_types(fx, leaves)
        for adt in ("Formula", "AtomicFormula", "GeneralTerm", "IntegerTerm", "SymbolicTerm", "Guard"):
            has = any(x["name"] == meth and x.get("impl", {}).get("self_ty") == S + adt for x in fx.body_list)
            needs = (S + adt) in reach and (adt not in ("SymbolicTerm",) or meth != "predicates")
            if has:
                n += collect.check_method(ctx, "COLLECT", fx, S + adt, meth, reach)
            elif needs and adt in ("Formula", "AtomicFormula") or (needs and meth != "predicates" and adt in ("GeneralTerm", "Guard")):
                ctx.bad("COLLECT", "%s::%s:missing" % (adt, meth), "", "no collector %s on %s although it can contain the class" % (meth, adt))
        for owner, src in (("verifying::problem::Problem", "self.formulas"), ("verifying::problem::AnnotatedFormula", None)):
            bb = [x for x in fx.body_list if x["name"] == meth and x.get("impl", {}).get("self_ty") == owner]
            if len(bb) != 1:
                ctx.gap("COLLECT", "%s::%s" % (hq.last(owner), meth), "", "collector not found")
                continue
            v = sym.Eval(fx, inline_depth=0).function(bb[0])
            if src:
                from .. import leaves as _lv
                L_ = _lv.norm(("place", src))
                ok = _lv.canon_union(v) == (L_, ("call", "AnnotatedFormula::" + meth, (("at", L_),)))
            else:
                ok = v == ("call", "Formula::" + meth, (("place", "self.formula"),))
            n += 1
            ctx.add("COLLECT", "%s::%s" % (hq.last(owner), meth), ok, ctx.site(bb[0]), "%s::%s covers every formula" % (hq.last(owner), meth), construct=v)
    ctx.floor("COLLECT", "collector_obligations", n, 35)
    # leaf constructors of the collected classes
    st = fx.fn("sigma_0::SymbolicTerm::symbols")
    v = sym.Eval(fx, inline_depth=0).function(st)
    arms = {a[0]: a[-1] for a in v[2]} if v[0] == "match" else {}
    ctx.add("COLLECT", "leaf:symbol", "SymbolicTerm::Symbol(_)" in arms and "IndexSet::new" not in repr(arms["SymbolicTerm::Symbol(_)"]), ctx.site(st), "a Symbol contributes its name")
    collect.check_function_constant_leaves(ctx, "COLLECT", fx)


def rule_namespaces(ctx):
    fx = ctx.facts
    g = fx.grammars["fol"]
    sc = R.from_pest(g["symbolic_constant"]["expr"], g)
    asp_sym = R.from_pest(fx.grammars["asp"]["symbol"]["expr"], fx.grammars["asp"])
    user = R.alt(sc, asp_sym)
    # printer templates
    suffixes = {}
    for ty in ("FunctionConstant",):
        suffixes = {k: v for k, v in printers.sort_suffixes(fx, "tptp", ty).items() if v}
    fc = R.seq(user, R.alt(*[R.lit(s) for s in sorted(set(suffixes.values()))])) if suffixes else None
    if fc is None:
        raise AnalysisGap("function constant suffix table not found")
    text = fx.read_source("src/verifying/problem/standard_interpretation.p")
    items = tff.parse(text)
    sig, types, _ = tff.signature(items)
    builtins = sorted(sig)
    bl = R.alt(*[R.lit(x) for x in builtins])
    # symbols after renaming: name or name__s
    rn = fx.fn("sigma_0::GeneralTerm::rename_conflicting_symbols")
    v = sym.Eval(fx, inline_depth=0).function(rn)
    fm = [x for x in sym.subterms(v) if isinstance(x, tuple) and x[:1] == ("format",)]
    guard_ok = len(fm) == 1 and fm[0][1] == "{}__s" and "IndexSet::contains" in repr(v) and "('arity', ('lit', 0))" in repr(v)
    ctx.add("NS", "guard:predicate0-symbol", guard_ok, ctx.site(rn), "a symbol equal to a 0-ary predicate is renamed to `{s}__s` (the only renaming guard)")
    renamed = R.seq(user, R.lit("__s"))
    # is the guard applied on every chain that builds a problem?
    pairs = [
        ("predicate/predicate-other-arity", user, user, "p/1 and p/2 are both declared as `p` (arity is not part of the TPTP name)", "p"),
        ("predicate(n>0)/symbol", user, user, "a predicate p/n (n > 0) and a symbolic constant p are both declared as `p`", None),
        ("predicate/function-constant", user, fc, "predicate `n_i` and integer placeholder `n` are both declared as `n_i`", None),
        ("symbol/function-constant", user, fc, "symbolic constant `n_i` and integer placeholder `n` are both declared as `n_i`", None),
        ("predicate/built-in", user, bl, "a user predicate may be named like a preamble identifier (general, symbol, p__less__, ..)", None),
        ("symbol/built-in", user, bl, "a user symbol may be named like a preamble identifier (general, symbol, c__infimum__, ..)", None),
        ("function-constant/built-in", fc, bl, "a placeholder's printed name may equal a preamble identifier", None),
        ("renamed-symbol/symbol", renamed, user, "the rename target `a__s` may already be a symbol / predicate of the problem (not checked for freshness)", None),
    ]
    for key, a, b, text_, forced in pairs:
        wit = forced if forced is not None else R.intersect_witness(a, b)
        if forced is not None and not (R.matches(a, forced) and R.matches(b, forced)):
            wit = None
        ctx.add("NS", key, wit is None, "src/verifying/problem/mod.rs", "identifier languages overlap without a renaming guard (witness `%s`): %s" % (wit, text_) if wit is not None else
                "identifier languages are disjoint: " + key, construct={"witness": wit})
    # variables live in TPTP's upper-case namespace
    vb = printers.display_impl(fx, "tptp", "Variable")
    uv = R.from_pest(g["unsorted_variable"]["expr"], g)
    w_ = R.intersect_witness(R.seq(uv, R.alt(R.lit("_g"), R.lit("_i"), R.lit("_s"))), R.alt(user, bl))
    starts_upper = R.intersect_witness(uv, R.seq(R.cls(R.LOWER | R.DIGIT), R.star(R.cls(R.ALPHABET))))
    ctx.add("NS", "variables", w_ is None or (w_[0] == "_"), ctx.site(vb), "variables start with an upper-case letter (or `_` + upper-case) and cannot clash with constants; witness %r" % w_,
            construct={"witness": w_})
    # `_X` variables: TPTP variables must start with an upper-case letter
    und = R.intersect_witness(uv, R.seq(R.lit("_"), R.star(R.cls(R.ALPHABET))))
    ctx.add("NS", "variables:leading-underscore", und is None, "src/parsing/fol/sigma_0/grammar.pest",
            "the grammar admits variables with a leading underscore (`%s`), printed verbatim as `%s_g`, which is not a TPTP variable (must start upper-case)" % (und, und) if und else
            "all variables start with an upper-case letter")
    # predicate / symbol names with a leading underscore are not TPTP lower words
    und2 = R.intersect_witness(user, R.seq(R.lit("_"), R.star(R.cls(R.ALPHABET))))
    ctx.add("NS", "constants:leading-underscore", und2 is None, "src/parsing/fol/sigma_0/grammar.pest",
            "the grammars admit constants with a leading underscore (`%s`), printed verbatim, which is not a TPTP lower word" % und2 if und2 else "all constants are lower words")


def rule_names(ctx):
    fx = ctx.facts
    chains = []
    for fn, impl in (("decompose", "verifying::task::strong_equivalence::StrongEquivalenceTask"),
                     ("decompose", "verifying::task::external_equivalence::AssembledExternalEquivalenceTask")):
        b = fx.fn(fn, impl_self=impl)
        for ch in tasks.problem_chains(b["body"]):
            chains.append((b, ch))
    total = sum(len(hq.calls(x["body"], "Problem::with_name")) for x in fx.body_list)
    ctx.add("NAMES", "all-chains-seen", total == len(chains), "", "every Problem::with_name in the crate (%d) is one of the analysed builder chains (%d)" % (total, len(chains)))
    ctx.floor("NAMES", "problem_chains", len(chains), 6)
    for b, ch in chains:
        ms = [m for m, _, _ in ch["steps"]]
        i_r = ms.index("rename_conflicting_symbols") if "rename_conflicting_symbols" in ms else -1
        i_u = ms.index("create_unique_formula_names") if "create_unique_formula_names" in ms else -1
        adds = [i for i, m in enumerate(ms) if m in ("add_theory", "add_annotated_formulas")]
        ok = i_r >= 0 and i_u > i_r and all(a < i_r for a in adds)
        ctx.add("NAMES", "chain:%s" % ch["name"], ok, ctx.site(b, ch["root"]),
                "after all formulas are added: rename_conflicting_symbols, then create_unique_formula_names (%s)" % ms)
    un = fx.fn("Problem::create_unique_formula_names")
    from .. import ftpl
    from ..leaves import strip_acc as _strip_acc
    v = _strip_acc(ftpl.canon_iter(sym.Eval(fx, inline_depth=0).function(un)))
    fm = sorted({x for x in sym.subterms(v) if isinstance(x, tuple) and x[:1] == ("format",)}, key=repr)
    FS = ("place", "self.formulas")
    IDX, ELEM = ("idx", FS), ("at", FS)

    def field(f):
        return {("fieldof", ELEM, f), ("place", "self.formulas.%s" % f), ("proj", ELEM, (("AnnotatedFormula", f),))}
    tmpl = re.sub(r"\{\w*\}", "{}", fm[0][1]) if len(fm) == 1 else None
    ok = tmpl == "formula_{}_{}" and fm[0][2][0] == IDX and fm[0][2][1] in field("name")
    ctx.add("NAMES", "unique", ok, ctx.site(un), "names become formula_<position>_<old name>: the position makes them pairwise different")
    rv = repr(v)
    keeps = all(any(repr(x) in rv for x in field(f)) or ("('..', %r)" % (ELEM,)) in rv for f in ("role", "formula"))
    # the in-place spelling: the only thing done to `self` is assigning the `name` field of every element of `self.formulas`
    if v[:1] == ("upd",) and v[1] == ("param", "self") and re.fullmatch(r"each-assign-field:\w+\.name@formulas", str(v[2])):
        keeps = True
    ctx.add("NAMES", "unique:keeps-role-formula", keeps, ctx.site(un), "role and formula are carried over unchanged")
    aa = fx.fn("Problem::add_annotated_formulas")
    p = sym.Eval(fx, inline_depth=0)
    v = p.function(aa)
    from .. import comp as _comp
    _comp.use(fx)
    try:
        r = repr(v) + repr(_comp.canon(v))      # the comprehension form sees through a helper handed to `map` as a function value
    except Exception:
        r = repr(v)
    # the prefix `f`: format!("f{}", name), or the character inserted at position 0 of the name in place
    ok = "String::is_empty" in r and "('lit', 'unnamed_formula')" in r and "starts_with" in r and ("('format', 'f{}'" in r or "'insert@name', (('lit', 0), ('lit', 'f'))" in r)
    ctx.add("NAMES", "sanitise", ok, ctx.site(aa), "an empty name becomes `unnamed_formula`, a name starting with `_` gets the prefix `f`")
    # generated names vs preamble names
    text = fx.read_source("src/verifying/problem/standard_interpretation.p")
    pre = [it["name"] for it in tff.parse(text)]
    gen = []
    pb = fx.fn("fmt", impl_self="verifying::problem::Problem", impl_trait="std::fmt::Display")
    for _, _, item in printers.evaluate(fx, pb).out:
        if item[0] == "write" and item[1].startswith("tff("):
            gen.append(item[1].split("(")[1].split(",")[0])
    gen.append("formula_{i}_{}")
    rx = [re.compile(re.sub(r"\\\{[^{}]*\\\}", lambda m_: "[A-Za-z0-9_]*" if m_.group(0) == "\\{\\}" else "[0-9]+", re.escape(t)) + r"\Z") for t in gen]
    clash = [n_ for n_ in pre if any(x.match(n_) for x in rx)]
    ctx.add("NAMES", "preamble-vs-generated", not clash and len(set(pre)) == len(pre), "src/verifying/problem/standard_interpretation.p",
            "no preamble formula name matches a generated name template %s (clashes: %s)" % (gen, clash))
    pairs_ok = all(not (a != b_ and a.split("{")[0] == b_.split("{")[0]) for a in gen for b_ in gen)
    ctx.add("NAMES", "generated-disjoint", pairs_ok, ctx.site(pb), "the generated name families have different literal prefixes: %s" % gen)


def rule_one_conjecture(ctx):
    fx = ctx.facts
    # every into_problem_formula feeding premises is Axiom, feeding conclusions is Conjecture (from the routing table of C02)
    b = fx.fn("decompose", impl_self=c02.EE + "ValidatedExternalEquivalenceTask")
    n = 0
    for side in ("left", "right"):
        t = c02.route_table(ctx, b, side)
        for key, effs in t.items():
            for bucket, role, _ in effs:
                if bucket.endswith("premises"):
                    n += 1
                    ctx.add("ONE-CONJECTURE", "premise-role:%s/%s/%s/%s" % ((side,) + key), role == "Axiom", ctx.site(b), "a formula pushed to %s has problem role %s" % (bucket, role), nontrivial=False)
                elif bucket.endswith("conclusions"):
                    n += 1
                    ctx.add("ONE-CONJECTURE", "conclusion-role:%s/%s/%s/%s" % ((side,) + key), role == "Conjecture", ctx.site(b), "a formula pushed to %s has problem role %s" % (bucket, role), nontrivial=False)
    ctx.floor("ONE-CONJECTURE", "role_sites", n, 16)
    # final problems are decomposed; outline problems are axioms + once(conjecture)
    a = fx.fn("decompose", impl_self=c02.EE + "AssembledExternalEquivalenceTask")
    for ch in tasks.problem_chains(a["body"]):
        ms = [m for m, _, _ in ch["steps"]]
        if "outline" in ch["name"]:
            adds = [args[0] for m, args, _ in ch["steps"] if m == "add_annotated_formulas"]
            ok = len(adds) == 2 and (callee(strip(adds[1])) or "").endswith("iter::once") or (len(adds) == 2 and "iter::once" in repr(flow.summ(adds[1])))
            ctx.add("ONE-CONJECTURE", "outline:" + ch["name"], ok, ctx.site(a, ch["root"]), "an outline problem adds exactly one conjecture (iter::once) to the axioms")
        else:
            ctx.add("ONE-CONJECTURE", "final:" + ch["name"], ms[-1] == "decompose", ctx.site(a, ch["root"]), "the final problem is decomposed into one problem per conjecture")
    s = fx.fn("decompose", impl_self="verifying::task::strong_equivalence::StrongEquivalenceTask")
    fm = [c for c in walk(s["body"]) if c.get("k") == "MethodCall" and c["method"] == "flat_map"]
    called = {hq.last(x) for x in flow.callees_in(flow.summ(fm[0]["args"][0]))} if len(fm) == 1 else set()
    disp = tasks.decomposition_dispatch(fx, fm[0]["args"][0]) if len(fm) == 1 else []
    ok = len(fm) == 1 and (called >= {"decompose_independent", "decompose_sequential"} or
                           ("decompose" in called and disp == [("Decomposition::Independent", ["decompose_independent"]), ("Decomposition::Sequential", ["decompose_sequential"])]))
    ctx.add("ONE-CONJECTURE", "strong:decomposed", ok, ctx.site(s), "every strong-equivalence problem is decomposed before it is returned")
    # lemma consequences are axioms (GeneralLemma::try_from) and decompose_* leaves one conjecture: see C13 / C19 obligations re-evaluated here
    from . import c19
    sub = type(ctx)(ctx.prop, ctx.tier, ctx.facts)
    c19.rule_decompose(sub)
    for o in sub.obls:
        if o["key"].startswith("TPL:decompose"):
            ctx.obls.append(o)
    # the consequences of a lemma join the axioms of the later outline problems: they must carry Role::Axiom (C13's lemma templates)
    from . import c13
    sub = type(ctx)(ctx.prop, ctx.tier, ctx.facts)
    c13.rule_general_lemma(sub)
    ctx.obls.extend(sub.obls)


def rule_pre1(ctx):
    fx = ctx.facts
    where = "src/verifying/problem/standard_interpretation.p"
    text = fx.read_source(where)
    try:
        items = tff.parse(text)
    except tff.TffError as e:
        ctx.bad("PRE-1", "parse", where, "preamble does not parse as TFF: %s" % e)
        return
    ctx.ok("PRE-1", "parse", where, "preamble parses: %d annotated formulas" % len(items))
    sig, types, pr = tff.signature(items)
    ctx.add("PRE-1", "declarations", not pr, where, "every identifier is declared once over declared types: %s" % (pr or "ok"))
    tc = tff.typecheck(items, sig, types)
    ctx.add("PRE-1", "well-typed", not tc, where, "every axiom is well-typed, all variables are bound, names unique: %s" % (tc[:3] or "ok"))
    ctx.add("PRE-1", "no-braces", "{" not in text and "}" not in text, where, "the file is used as a format string and contains no brace")
    ctx.floor("PRE-1", "preamble_items", len(items), 5)


def rule_binding(ctx):
    """Every variable occurrence is printed under the same name as at its binder (sort suffix tables of C06)."""
    from . import c06
    sub = type(ctx)(ctx.prop, ctx.tier, ctx.facts)
    c06.rule_sorts(sub)
    for o in sub.obls:
        if o["key"].startswith("TAB-SIB:"):
            ctx.obls.append(o)


def rule_shared_typing_and_closure(ctx):
    """Well-typedness of comparisons (integer / symbol / general injections: C06's DISPATCH:comparison table) and closedness of the formulas
    built for inductive lemmas (C13's induction templates) are necessary for a problem file to be well-typed TFF with every variable bound."""
    from . import c06, c13
    for mod, fn, prefix in ((c06, "rule_comparison", "DISPATCH:comparison"), (c13, "rule_induction", "TPL:induction")):
        sub = type(ctx)(ctx.prop, ctx.tier, ctx.facts)
        getattr(mod, fn)(sub)
        n = 0
        for o in sub.obls:
            if o["key"].startswith(prefix):
                ctx.obls.append(o)
                n += 1
        if n == 0:
            raise AnalysisGap("%s produced no %s obligations" % (fn, prefix))


def rule_problem_rename(ctx):
    """The symbol / propositional-atom clash set is computed once from the whole problem and used for every formula: one source symbol is one
    TPTP constant in the whole file (a per-formula set renames `a` to `a__s` in some formulas only)."""
    fx = ctx.facts
    b = fx.fn("problem::Problem::rename_conflicting_symbols")
    v = sym.Eval(fx, inline_depth=0).function(b)
    calls = [x for x in sym.subterms(v) if isinstance(x, tuple) and x[:2] == ("call", "AnnotatedFormula::rename_conflicting_symbols")]
    ok = len(calls) == 1
    why = "no single call of AnnotatedFormula::rename_conflicting_symbols"
    if ok:
        f_arg, clash = calls[0][2]
        whole = any(x == ("call", "Problem::predicates", (("param", "self"),)) for x in sym.subterms(clash))
        per_formula = any(isinstance(x, tuple) and x[:1] in (("param",), ("place",)) and x != ("param", "self") and not str(x[1]).startswith(("self", "p.", "p")) for x in sym.subterms(clash))
        arity0 = ("bin", "Eq", ("place", "p.arity"), ("lit", 0)) in set(x for x in sym.subterms(clash) if isinstance(x, tuple))
        mapped = any(isinstance(x, tuple) and x[:2] == ("call", "Iterator::map") and x[2][0] == ("place", "self.formulas") for x in sym.subterms(v))
        # the clash set is exactly the 0-ary predicates of the whole problem: every predicate is looked at (a `take_while` stops at the first
        # n-ary one), the only test is arity == 0
        from .. import comp as _comp
        _comp.use(fx)
        PREDS_ = ("call", "Problem::predicates", (("param", "self"),))
        want_set = ("coll", (((PREDS_,), ((frozenset({("eq", ("fieldof", ("at", PREDS_), "arity"), 0)}), ("at", PREDS_)),)),))
        try:
            cset = _comp.canon(clash)
        except Exception:
            cset = None
        while isinstance(cset, tuple) and cset[:1] == ("call",) and cset[1] in ("FromIterator::from_iter", "Iterator::collect", "IndexSet::from_iter") and len(cset[2]) == 1:
            cset = cset[2][0]
        exact = cset == want_set
        ok = whole and not per_formula and arity0 and mapped and exact
        why = "clash set from the whole problem's predicates: %s; depends on the formula being renamed: %s; arity-0 filter: %s (over all predicates: %s); applied to every formula: %s" % (whole, per_formula, arity0, exact, mapped)
    ctx.add("NS", "problem-rename:one-clash-set", ok, ctx.site(b), "Problem::rename_conflicting_symbols: " + why, construct=v)


def rule_identity(ctx):
    """items kept in sets are the same element exactly when all their fields agree: see collect.check_structural_identity"""
    from .. import collect as _collect
    _collect.check_structural_identity(ctx, "IDENT", ctx.facts)


def rule_preamble_declares_what_is_printed(ctx):
    """every built-in identifier the printer can emit (`p__greater__`, `f__integer__`, `$sum` ..) is declared in the preamble at the arity and
    types it is used with (C06's PRE-1 obligations): a file that uses an undeclared predicate is not self-contained TFF"""
    from . import c06
    sub = type(ctx)(ctx.prop, ctx.tier, ctx.facts)
    c06.rule_pre1(sub)
    ctx.obls.extend(o for o in sub.obls if o["key"].startswith("PRE-1:"))


RULES = [rule_declarations, rule_namespaces, rule_names, rule_one_conjecture, rule_pre1, rule_binding, rule_problem_rename, rule_shared_typing_and_closure, rule_identity, rule_preamble_declares_what_is_printed]
