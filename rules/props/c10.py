"""C10 — success is reported iff every problem is proven, under any prover schedule / fault."""
import re

from ..facts import AnalysisGap, callee, callee_generic, ctor_of, local_id_of, local_of, pat_bindings, strip, walk
from .. import hq

EXPLANATION = (
    "FLOW-MONO: in the Verify arm of main the verdict flag is a bool initialised `true`, every assignment to it is the literal `false`, it is "
    "assigned on every path of the result loop except Ok(report)->Ok(status)->status matches exactly Status::Success(Success::Theorem), and it is "
    "read once, un-negated, to choose the success message; so the verdict is a monotone conjunction and cannot depend on the order in which provers "
    "finish. TAB-STATUS: Display/FromStr of Status are extracted as tables; only \"Theorem\" maps to Success::Theorem, unknown text and a missing "
    "status line are Err. ONCE: Prover::prove has exactly two call sites (sequential map, pool worker), each applied to every element of the "
    "problem iterator without filter, the pool worker sends its result unconditionally, nothing else spawns the prover. BYTES: both sinks "
    "(Problem::to_file, Vampire::prove stdin) format the problem with the bare Display of Problem and nothing transforms the problem list between "
    "them (only into_iter/inspect). FLOW-ERR: spawn/write/wait/utf-8 failures in Vampire::prove are mapped to VampireError and returned. NAMES: the "
    "problem-name templates are pairwise disjoint languages with enumerate() indices. Runtime scheduling itself is not decided.")
UNDECIDED = ["thread scheduling and a worker dying without sending (runtime)", "the prover's exit status is ignored by the code (source TODO)",
             "that vampire prints the SZS line for the problem it was given"]
ASSUMPTIONS = ["std::sync::mpsc and threadpool deliver every sent result once", "regex crate semantics of the STATUS pattern"]

MAIN = "command_line::procedures::main"


def find_flag(ctx, b):
    loops = [l for l in hq.for_loops(b["body"]) if hq.calls(l[1], "Prover::prove_all")]
    if len(loops) != 1:
        raise AnalysisGap("main: expected one loop over Prover::prove_all, found %d" % len(loops))
    loop = loops[0]
    ids = set()
    for n in walk(loop[3]):
        if n.get("k") == "Assign":
            l = strip(n["l"])
            if l.get("k") == "Path" and l.get("res", {}).get("r") == "local" and l.get("ty") == "bool":
                ids.add(l["res"]["id"])
    if len(ids) != 1:
        raise AnalysisGap("main: expected exactly one bool flag assigned in the result loop, found %d" % len(ids))
    return loop, ids.pop()


def must_assign(e, fid, val):
    """Every path through statement-expression e assigns literal `val` to local fid."""
    e = hq.strip(e) if e.get("k") in ("DropTemps", "Use") else e
    k = e.get("k")
    if k == "Assign":
        l = strip(e["l"])
        r = strip(e["r"])
        return l.get("k") == "Path" and l.get("res", {}).get("id") == fid and r.get("k") == "Lit" and r.get("v") is val
    if k == "Block":
        if "mac_src" in e:
            return False
        for s in hq.stmts_of(e):
            x = hq.stmt_expr(s)
            if x is not None and must_assign(x, fid, val):
                return True
        return False
    if k == "If":
        return "else" in e and must_assign(e["then"], fid, val) and must_assign(e["else"], fid, val)
    if k == "Match":
        return all(must_assign(a["body"], fid, val) for a in e["arms"])
    return False


def cond_assign(e, fid):
    """For a block that assigns the flag only under one `if`: return the If node, else None."""
    ifs = []
    for s in hq.stmts_of(e) if e.get("k") == "Block" else []:
        x = hq.stmt_expr(s)
        if x is None:
            continue
        x = strip(x) if x.get("k") in ("DropTemps", "Use") else x
        if x.get("k") == "If" and hq.assigns_to(x, fid):
            ifs.append(x)
        elif hq.assigns_to(x, fid):
            return None
    return ifs[0] if len(ifs) == 1 else None


def rule_flow_mono(ctx):
    fx = ctx.facts
    b = fx.fn(MAIN)
    loop, fid = find_flag(ctx, b)
    site = ctx.site(b)
    let = hq.let_by_id(b["body"]).get(fid)
    init = strip(let["init"]) if let and "init" in let else {}
    ctx.add("FLOW-MONO", "init-true", init.get("k") == "Lit" and init.get("v") is True, site, "verdict flag `%s` is initialised with literal true" % (let or {}).get("pat", {}).get("name"))
    asg = hq.assigns_to(b["body"], fid)
    ctx.add("FLOW-MONO", "only-false", bool(asg) and all(strip(a["r"]).get("k") == "Lit" and strip(a["r"]).get("v") is False and a["k"] == "Assign" for a in asg), site,
            "all %d assignments to the flag are the literal false" % len(asg))
    # no mutable borrow / move of the flag elsewhere
    uses = hq.uses_of(b["body"], fid)
    pm = hq.parent_map(b["body"])
    odd = []
    reads = []
    for u in uses:
        p = pm.get(id(u))
        if p.get("k") == "Assign" and p.get("l") is u:
            continue
        if p.get("k") == "If" and p.get("cond") is u:
            reads.append(p)
            continue
        odd.append(hq.render(p))
    ctx.add("FLOW-MONO", "single-read", len(reads) == 1 and not odd, site, "flag is read exactly once, un-negated, as an `if` condition (other uses: %s)" % odd)
    if len(reads) == 1:
        r = reads[0]
        t_l = " ".join(hq.string_lits(r["then"]))
        e_l = " ".join(hq.string_lits(r.get("else", {})))
        ctx.add("FLOW-MONO", "success-branch", "success" in t_l.lower() and "success" not in e_l.lower() and "else" in r, ctx.site(b, r),
                "true-branch prints the success message, false-branch the failure message", construct={"then": t_l, "else": e_l})
        # the read comes after the loop (same block, later statement)
        ctx.add("FLOW-MONO", "read-after-loop", r.get("line", 0) > loop[0].get("line", 0), site, "verdict is read after the result loop")
    # the loop body: match on the loop variable
    _, iterable, pat, body = loop
    var_ids = {p["id"] for p in pat_bindings(pat)}
    top = [m for m in hq.nodes(body, "Match") if local_id_of(m["scrut"]) in var_ids and m.get("src") == "Normal"]
    if len(top) != 1:
        raise AnalysisGap("result loop: expected one match on the loop variable, found %d" % len(top))
    top = top[0]
    leaf_ok = None
    for a in top["arms"]:
        pk = hq.pat_key(a["pat"])
        if pk == "Result::Err(_)":
            ctx.add("FLOW-MONO", "arm:prover-error", must_assign(a["body"], fid, False), ctx.site(b, a["body"]),
                    "Err(error) from the prover (spawn/write/wait failure) clears the flag on every path")
        elif pk == "Result::Ok(_)":
            inner = strip(a["body"])
            if inner.get("k") == "Block" and not inner.get("stmts") and "expr" in inner:
                inner = strip(inner["expr"])
            if inner.get("k") != "Match" or not (callee_generic(strip(inner["scrut"])) or "").endswith("Report::status"):
                raise AnalysisGap("Ok(report) arm is not a match on report.status()")
            rep_ids = {p["id"] for p in pat_bindings(a["pat"])}
            ctx.add("FLOW-MONO", "status-of-report", local_id_of(inner["scrut"]["recv"]) in rep_ids, site, "status() is taken from the report bound by this arm")
            for a2 in inner["arms"]:
                pk2 = hq.pat_key(a2["pat"])
                if pk2 == "Result::Err(_)":
                    ctx.add("FLOW-MONO", "arm:no-status", must_assign(a2["body"], fid, False), ctx.site(b, a2["body"]),
                            "missing / unrecognised SZS status clears the flag on every path")
                elif pk2 == "Result::Ok(_)":
                    leaf_ok = (a2, {p["id"] for p in pat_bindings(a2["pat"])})
                else:
                    ctx.bad("FLOW-MONO", "arm:status:%s" % pk2, site, "unexpected arm in match on report.status()")
        else:
            ctx.bad("FLOW-MONO", "arm:%s" % pk, site, "unexpected arm in match on the prover result")
    if leaf_ok is None:
        raise AnalysisGap("no Ok(status) arm found")
    a2, st_ids = leaf_ok
    body2 = a2["body"]
    iff = cond_assign(strip(body2) if body2.get("k") != "Block" else body2, fid)
    if iff is None:
        ctx.bad("FLOW-MONO", "arm:status-ok", ctx.site(b, body2), "the Ok(status) arm does not assign the flag under exactly one `if`")
        return
    c = strip(iff["cond"])
    ok = False
    detail = hq.render(c)
    if c.get("k") == "Unary" and c.get("op") == "Not":
        m = strip(c["e"])
        if m.get("k") == "Match" and local_id_of(m["scrut"]) in st_ids:
            rows = [(hq.pat_key(a["pat"]), strip(a["body"]).get("v")) for a in m["arms"]]
            detail = rows
            ok = rows == [("Status::Success(Success::Theorem)", True), ("_", False)]
    ctx.add("FLOW-MONO", "arm:status-ok", ok and must_assign(iff["then"], fid, False) and "else" not in iff, ctx.site(b, iff),
            "flag is cleared iff the status does not match exactly Status::Success(Success::Theorem): %s" % (detail,), construct=detail)


def rule_status_tables(ctx):
    fx = ctx.facts
    d = fx.fn("fmt", impl_self="verifying::prover::Status", impl_trait="std::fmt::Display")
    f = fx.fn("from_str", impl_self="verifying::prover::Status")
    ms = hq.matches_over(d["body"], "verifying::prover::Status")
    if len(ms) != 1:
        raise AnalysisGap("Display for Status: expected one match over Status")
    disp = {}
    for key, val, arm in hq.match_table(ms[0]):
        disp[key] = val[1] if val and val[0] == "lit" else None
    variants = []
    for outer, inner_adt in (("Success", "verifying::prover::Success"), ("Failure", "verifying::prover::Failure")):
        for v in fx.variants(inner_adt):
            variants.append("Status::%s(%s::%s)" % (outer, outer, v))
    ctx.add("TAB-STATUS", "display-total", sorted(disp) == sorted(variants) and all(disp.values()), ctx.site(d),
            "Display covers every Status value with a literal, no wildcard: %s" % disp)
    # FromStr: match on &str with literal patterns
    fm = [m for m in hq.nodes(f["body"], "Match") if m.get("src") == "Normal" and any(hq.pat_key(a["pat"]).startswith('"') for a in m["arms"])]
    if len(fm) != 1:
        raise AnalysisGap("FromStr for Status: expected one match on string literals")

    def val(e):
        e = strip(e)
        c = ctor_of(e)
        if c and c[1] in ("Ok", "Err") and e.get("k") == "Call":
            inner = hq.const_of(e["args"][0])
            if c[1] == "Ok" and inner and inner[0] == "variant" and len(inner) == 4:
                iv = inner[3][0]
                return "Status::%s(%s::%s)" % (inner[2], iv[1], iv[2])
            return "Err"
        return None

    parse = {}
    default = None
    for key, v, arm in hq.match_table(fm[0], value=val):
        if key.startswith('"'):
            parse[key.strip('"')] = v
        else:
            default = v
    ctx.add("TAB-STATUS", "unknown-is-err", default == "Err", ctx.site(f), "an unrecognised status word yields Err (%s)" % default)
    th = [k for k, v in parse.items() if v == "Status::Success(Success::Theorem)"]
    ctx.add("TAB-STATUS", "only-theorem", th == ["Theorem"], ctx.site(f), "exactly the word \"Theorem\" parses to Success::Theorem: %s" % th, construct=parse)
    for v in variants:
        s = disp.get(v)
        ctx.add("TAB-STATUS", "roundtrip:%s" % v, s is not None and parse.get(s) == v, ctx.site(f),
                "FromStr(Display(%s)) = %s via \"%s\"" % (v, parse.get(s), s))
    inj = len(set(parse.values())) == len(parse)
    ctx.add("TAB-STATUS", "fromstr-injective", inj, ctx.site(f), "no two status words parse to the same value")
    # missing status line -> Err: captures(..).ok_or(Missing)?
    caps = hq.calls(f["body"], "Regex::captures")
    pm = hq.parent_map(f["body"])
    ok = len(caps) == 1 and hq.is_try_propagated(pm, caps[0]) and pm[id(caps[0])].get("method") in ("ok_or", "ok_or_else")
    ctx.add("TAB-STATUS", "missing-is-err", ok, ctx.site(f), "a text without status line propagates Err(Missing) with `?`")
    # the regex literal
    st = fx.fns("STATUS")
    lits = []
    for body in fx.body_list:
        if body["file"].endswith("prover/mod.rs"):
            for n in walk(body["body"]):
                if n.get("k") == "Lit" and isinstance(n.get("v"), str) and "SZS" in n["v"]:
                    lits.append(n["v"])
    ok = len(lits) == 1 and lits[0].startswith("SZS status (?<status>[[:word:]]+)")
    ctx.add("TAB-STATUS", "regex", ok, "src/verifying/prover/mod.rs", "status pattern captures the word after `SZS status `: %s" % lits)
    # report.status() parses stdout
    rs = fx.fn("status", impl_self="verifying::prover::vampire::VampireReport")
    fp = [hq.field_path(c["recv"]) for c in hq.calls(rs["body"], method="parse")]
    ctx.add("TAB-STATUS", "status-from-stdout", fp == ["self.output.stdout"], ctx.site(rs), "VampireReport::status parses %s" % fp)


def rule_once(ctx):
    fx = ctx.facts
    pa = fx.fn("Prover::prove_all")
    site = ctx.site(pa)
    # who calls prove
    callers = {}
    for body in fx.body_list + fx.bin["bodies"]:
        for c in hq.calls(body["body"], "Prover::prove"):
            if (callee_generic(c) or "").endswith("Prover::prove"):
                callers.setdefault(body["def_path"], []).append(c)
    ctx.add("ONCE", "prove-callers", list(callers) == [pa["def_path"]] and len(callers.get(pa["def_path"], [])) == 2, site,
            "Prover::prove is called only inside prove_all, at 2 sites: %s" % {k: len(v) for k, v in callers.items()})
    callers_all = [body["def_path"] for body in fx.body_list + fx.bin["bodies"] if hq.calls(body["body"], "Prover::prove_all")]
    ctx.add("ONCE", "prove_all-callers", callers_all == [fx.fn(MAIN)["def_path"]], site, "prove_all is called only from main: %s" % callers_all)
    # sequential branch: problems.into_iter().map(closure{prove(problem)})
    top_if = [n for n in hq.nodes(pa["body"], "If")]
    if not top_if:
        raise AnalysisGap("prove_all: no instances()==1 branch")
    iff = top_if[0]
    seq_calls = hq.calls(iff["then"], "Prover::prove")
    par_calls = hq.calls(iff["else"], "Prover::prove")
    ctx.add("ONCE", "one-per-branch", len(seq_calls) == 1 and len(par_calls) == 1, site, "one prove call in each branch")
    params = {p.get("name") for p in pa["params"]}
    if seq_calls:
        pm = hq.parent_map(iff["then"])
        clos = [a for a in hq.ancestors(pm, seq_calls[0]) if a.get("k") == "Closure"]
        ok = False
        why = "prove is not inside a map closure"
        if clos:
            mc = pm.get(id(clos[0]))
            if mc is not None and mc.get("k") == "MethodCall" and mc["method"] == "map":
                root, chain = hq.method_chain(mc)
                ms = [c["method"] for c in chain]
                cp = {p["id"] for q in clos[0]["params"] for p in pat_bindings(q)}
                arg_ok = local_id_of(seq_calls[0]["args"][0]) in cp
                ok = ms == ["into_iter", "map"] and local_of(root) in params and arg_ok
                why = "sequential: %s.%s, closure applies prove to its own element: %s" % (local_of(root), ".".join(ms), arg_ok)
        ctx.add("ONCE", "sequential", ok, site, why)
    if par_calls:
        loops = hq.for_loops(iff["else"])
        ok = len(loops) == 1 and local_of(loops[0][1]) in params
        ctx.add("ONCE", "pool-loop", ok, site, "pool branch iterates the problem iterator itself (no filter/skip): %s" % (hq.render(loops[0][1]) if loops else None))
        if loops:
            _, _, pat, body = loops[0]
            lp = {p["id"] for p in pat_bindings(pat)}
            execs = hq.calls(body, method="execute")
            pm = hq.parent_map(body)
            uncond = len(execs) == 1 and not any(a.get("k") in ("If", "Match") and a.get("src", "Normal") == "Normal" and a.get("k") != "Block"
                                                 for a in hq.ancestors(pm, execs[0]) if a.get("k") in ("If",) or (a.get("k") == "Match" and a.get("src") == "Normal"))
            ctx.add("ONCE", "pool-execute", uncond, site, "exactly one unconditional pool.execute per problem")
            if execs:
                cl = strip(execs[0]["args"][0])
                if cl.get("k") != "Closure":
                    raise AnalysisGap("pool.execute argument is not a closure")
                cb = cl["body"]
                stmts = hq.stmts_of(cb) if cb.get("k") == "Block" else []
                prove_i = send_i = None
                res_id = None
                for i, s in enumerate(stmts):
                    x = hq.stmt_expr(s)
                    if x is None:
                        continue
                    if hq.calls(x, "Prover::prove") and prove_i is None:
                        prove_i = i
                        if s["k"] == "LetStmt":
                            res_id = s["pat"].get("id")
                            ctx.add("ONCE", "pool-prove-arg", local_id_of(hq.calls(x, "Prover::prove")[0]["args"][0]) in lp, site,
                                    "worker proves the loop's own problem")
                    sends = hq.calls(x, method="send")
                    if sends and send_i is None:
                        send_i = i
                        ctx.add("ONCE", "pool-send-result", local_id_of(sends[0]["args"][0]) == res_id and res_id is not None, site,
                                "the value sent is the result of prove (Ok and Err alike)")
                pmc = hq.parent_map(cb)
                branchy = []
                for c in hq.calls(cb, method="send") + hq.calls(cb, "Prover::prove"):
                    for a in hq.ancestors(pmc, c):
                        if a.get("k") == "If" or (a.get("k") == "Match" and a.get("src") == "Normal") or a.get("k") in ("Loop", "Closure"):
                            branchy.append(a.get("k"))
                ctx.add("ONCE", "pool-send", prove_i is not None and send_i is not None and prove_i < send_i and not branchy, site,
                        "worker closure is straight-line: prove (stmt %s) then send (stmt %s), no branch around either (%s)" % (prove_i, send_i, branchy))
            # receiver drains the channel
            rx = hq.calls(iff["else"], method="into_iter")
            ctx.add("ONCE", "pool-drain", any("Receiver" in c["recv"].get("ty", "") for c in rx), site, "the returned iterator drains the receiver")
    # Command::new only in Vampire::prove
    sites = []
    for body in fx.body_list + fx.bin["bodies"]:
        if hq.fn_refs(body["body"], "std::process::Command::new"):
            sites.append(body["def_path"])
    vp = fx.fn("prove", impl_self="verifying::prover::vampire::Vampire")
    ctx.add("ONCE", "spawn-sites", sites == [vp["def_path"]], ctx.site(vp), "std::process::Command::new is referenced only in Vampire::prove: %s" % sites)


def _display_arg_is_bare(m, want_ty_suffix):
    """macro call site `write!(dst, "{x}")` / "{}" with one argument of the wanted type."""
    src = m.get("mac_src", "")
    t = hq.macro_template(src)
    return t is not None and re.fullmatch(r"\{[A-Za-z_][A-Za-z0-9_]*\}|\{\}", t) is not None


def rule_bytes(ctx):
    fx = ctx.facts
    tf = fx.fn("to_file", impl_self="verifying::problem::Problem")
    vp = fx.fn("prove", impl_self="verifying::prover::vampire::Vampire")
    for name, b in (("to_file", tf), ("vampire-stdin", vp)):
        ws = [n for n in walk(b["body"]) if "mac_src" in n and n.get("mac") in ("write", "writeln")]
        good = [w for w in ws if _display_arg_is_bare(w, "Problem")]
        # the displayed value has type Problem
        tys = set()
        for w in good:
            for n in walk(w):
                if n.get("k") == "Call" and (callee_generic(n) or "").endswith("Argument::<'_>::new_display"):
                    tys.add(strip(n["args"][0]).get("ty", "").lstrip("&"))
        ctx.add("BYTES", name, len(ws) == 1 and len(good) == 1 and tys == {"verifying::problem::Problem"}, ctx.site(b),
                "exactly one write of the problem, with the bare Display template %r of type %s" % ([hq.macro_template(w["mac_src"]) for w in ws], sorted(tys)))
    # between creation and the two sinks the list of problems is not transformed
    b = fx.fn(MAIN)
    loops = [l for l in hq.for_loops(b["body"]) if hq.calls(l[1], "Prover::prove_all")]
    pa = hq.calls(loops[0][1], "Prover::prove_all")[0]
    arg_id = local_id_of(pa["args"][0])
    lets = hq.let_by_id(b["body"])
    chain_methods = []
    root_id = arg_id
    seen = 0
    while root_id in lets and seen < 5:
        seen += 1
        init = lets[root_id].get("init")
        root, chain = hq.method_chain(init)
        if local_id_of(root) is None:
            break
        chain_methods = [c["method"] for c in chain] + chain_methods
        root_id = local_id_of(root)
    ctx.add("BYTES", "no-transform", set(chain_methods) <= {"into_iter", "inspect", "iter"} and seen >= 1, ctx.site(b),
            "problems reach prove_all through %s only (inspect cannot modify)" % chain_methods)
    # to_file is applied to each element of the same list
    tfc = hq.calls(b["body"], "Problem::to_file")
    ok = False
    for l in hq.for_loops(b["body"]):
        if tfc and hq.contains(l[3] or {}, tfc[0]):
            ok = local_id_of(l[1]) == root_id or local_id_of(strip(l[1])) == root_id
    ctx.add("BYTES", "save-same-list", ok and len(tfc) == 1, ctx.site(b), "--save-problems writes every element of the same problem list that is later proven")
    # file name derives from problem.name
    if tfc:
        pm = hq.parent_map(b["body"])
        fmts = [n for l in hq.for_loops(b["body"]) if hq.contains(l[3] or {}, tfc[0]) for n in walk(l[3]) if n.get("mac") == "format" and "mac_src" in n]
        ctx.add("BYTES", "file-name", any("problem.name" in f["mac_src"] for f in fmts), ctx.site(b), "file name is built from the problem's name: %s" % [f["mac_src"] for f in fmts])


def rule_flow_err(ctx):
    fx = ctx.facts
    vp = fx.fn("prove", impl_self="verifying::prover::vampire::Vampire")
    pm = hq.parent_map(vp["body"])
    n = 0
    for c in walk(vp["body"]):
        if c.get("k") not in ("MethodCall", "Call") or c.get("mac") not in (None,) and c.get("mac") != "write":
            continue
        ty = c.get("ty", "")
        if not ty.startswith("std::result::Result<"):
            continue
        if c.get("k") == "MethodCall" and c["method"] in ("map_err",):
            continue
        par = pm.get(id(c))
        # the function's tail Ok(..) is fine
        cc = ctor_of(c)
        if cc and cc[1] == "Ok":
            continue
        if (callee_generic(c) or "").endswith("from_residual"):
            continue
        n += 1
        ok = hq.is_try_propagated(pm, c)
        ctx.add("FLOW-ERR", "Vampire::prove:%s" % hq.last(callee_generic(c) or "?", 2), ok, ctx.site(vp, c),
                "fallible call %s is propagated with `?` (mapped into VampireError)" % hq.render(c)[:80])
    ctx.floor("FLOW-ERR", "vampire_fallible_calls", n, 2)
    tf = fx.fn("try_from", impl_self="verifying::prover::vampire::VampireOutput")
    pm = hq.parent_map(tf["body"])
    cs = hq.calls(tf["body"], "String::from_utf8")
    ctx.add("FLOW-ERR", "utf8", len(cs) == 2 and all(hq.is_try_propagated(pm, c) for c in cs), ctx.site(tf), "both from_utf8 conversions are propagated")


def tmpl_regex(t):
    out = []
    i = 0
    while i < len(t):
        if t[i] == "{":
            j = t.index("}", i)
            out.append("#")
            i = j + 1
        else:
            out.append(t[i])
            i += 1
    return "".join(out)


def langs_disjoint(a, b):
    """Templates over literal characters and '#' (= one or more decimal digits).  Exact for this class when the
    literals contain no digit: digits are interchangeable, so a common string exists iff one exists with every digit
    '1' and run lengths up to (number of '#' in the other template) + 1; enumerate those and match."""
    import itertools
    if any(ch.isdigit() for ch in a + b):
        raise AnalysisGap("problem-name template contains a literal digit: %r / %r" % (a, b))

    def rx(t):
        return re.compile("".join("[0-9]+" if ch == "#" else re.escape(ch) for ch in t) + r"\Z")

    def strings(t, maxlen):
        slots = t.count("#")
        for lens in itertools.product(range(1, maxlen + 1), repeat=slots):
            it = iter(lens)
            yield "".join("1" * next(it) if ch == "#" else ch for ch in t)

    rb, ra = rx(b), rx(a)
    for s_ in strings(a, b.count("#") + 1):
        if rb.match(s_):
            return False
    for s_ in strings(b, a.count("#") + 1):
        if ra.match(s_):
            return False
    return True


def rule_names(ctx):
    fx = ctx.facts
    temps = {}
    for body in fx.body_list:
        for c in hq.calls(body["body"], "Problem::with_name"):
            a = c["args"][0]
            lit = None
            s = strip(a)
            if s.get("k") == "Lit":
                lit = s["v"]
            else:
                for n in walk(a):
                    if n.get("mac") == "format" and "mac_src" in n:
                        lit = hq.macro_template(n["mac_src"])
                        break
            if lit is None:
                ctx.gap("NAMES", "with_name:%s" % body["def_path"], ctx.site(body, c), "problem name is not a literal / format template")
                continue
            decomposed = False
            temps[lit] = body["def_path"]
    # names after decomposition: "<name>_<i>"
    dec = []
    for fn in ("decompose_independent", "decompose_sequential"):
        b = fx.fn("Problem::" + fn)
        fm = [hq.macro_template(n["mac_src"]) for n in walk(b["body"]) if n.get("mac") == "format" and "mac_src" in n]
        dec.append(fm)
        ctx.add("NAMES", "decompose:%s" % fn, fm == ["{}_{i}"], ctx.site(b), "sub-problem name template %s with the enumerate() index" % fm)
    finals = {}
    for t, where in temps.items():
        if "outline" in t:
            finals[tmpl_regex(t)] = t
        else:
            finals[tmpl_regex(t) + "_#"] = t + " (decomposed)"
    ctx.floor("NAMES", "name_templates", len(temps), 6)
    keys = sorted(finals)
    for i in range(len(keys)):
        for j in range(i + 1, len(keys)):
            ctx.add("NAMES", "disjoint:%s|%s" % (keys[i], keys[j]), langs_disjoint(keys[i], keys[j]), "",
                    "name languages %s and %s share no string" % (keys[i], keys[j]))
    # outline names use both loop indices
    ae = fx.fn("decompose", impl_self="verifying::task::external_equivalence::AssembledExternalEquivalenceTask")
    for n in walk(ae["body"]):
        if n.get("mac") == "format" and "mac_src" in n and "outline" in n["mac_src"]:
            t = hq.macro_template(n["mac_src"])
            ctx.add("NAMES", "outline-indices:%s" % t, "{i}" in t and "{j}" in t, ctx.site(ae, n), "outline problem names carry both enumerate() indices")


WORKER_TABLE = {
    ("<verifying::prover::vampire::Vampire as verifying::prover::Prover>::prove", "unwrap"): (1, "child.stdin.take() on a child just spawned with Stdio::piped() is Some"),
    ("verifying::prover::Prover::prove_all", "unwrap"): (1, "tx.send(result) fails only when the receiving iterator was dropped, i.e. nobody consumes reports any more"),
    ("<verifying::prover::STATUS as std::ops::Deref>::deref::__static_ref_initialize", "unwrap"): (1, "Regex::new on a constant expression"),
    ("<verifying::prover::vampire::Vampire as verifying::prover::Prover>::instances", "assert:DivisionByZero"): (1, "cores() is num_cpus::get() (>= 1) or the non-zero field"),
}


def rule_worker_panics(ctx):
    """A prover run that panics inside a pool worker sends no report at all: the consumer's flag is then never cleared for that problem.
    Every panic site in the prover module (the code a worker executes) must be in the table above, with its invariant."""
    from .. import callgraph
    from . import c16
    fx = ctx.facts
    cg = callgraph.CallGraph(fx)
    sites, where, n_reach, _ = c16.collect_sites(fx, cg)
    n = 0
    # a tabled site that left its function leaves slack for an unlisted site of the same kind in the prover module (code motion)
    slack = {}
    for (fn, kind), ent in WORKER_TABLE.items():
        missing = ent[0] - sites.get((fn, kind), 0)
        if missing > 0:
            slack[kind] = slack.get(kind, 0) + missing
    for (fn, kind), cnt in sorted(sites.items()):
        if "verifying::prover" not in fn:
            continue
        n += 1
        ent = WORKER_TABLE.get((fn, kind))
        f, l = where[(fn, kind)]
        if ent is None and slack.get(kind, 0) >= cnt:
            slack[kind] -= cnt
            ctx.ok("FLOW-MONO", "worker-panic:moved|%s" % kind, "%s:%s" % (f, l), "%d site(s) of kind `%s` in %s: a tabled site of that kind left its function (code motion)" % (cnt, kind, fn), nontrivial=False)
            continue
        if ent is None:
            ctx.bad("FLOW-MONO", "worker-panic:%s|%s" % (hq.last(fn, 2), kind), "%s:%s" % (f, l),
                    "%d panic site(s) of kind `%s` in %s: a panic in a pool worker drops that problem's report, and the remaining reports can still say success" % (cnt, kind, fn))
        else:
            ctx.add("FLOW-MONO", "worker-panic:%s|%s" % (hq.last(fn, 2), kind), cnt <= ent[0], "%s:%s" % (f, l), "%d site(s) (table %d): %s" % (cnt, ent[0], ent[1]))
    ctx.count("worker_panic_sites", n)  # no floor: removing a panic site is an improvement


RULES = [rule_flow_mono, rule_status_tables, rule_once, rule_bytes, rule_flow_err, rule_names, rule_worker_panics]
