"""C10 — success is reported iff every problem is proven, under any prover schedule / fault."""
import re

from ..facts import AnalysisGap, callee, callee_generic, ctor_of, local_id_of, local_of, pat_bindings, strip, walk
from .. import hq, sym

EXPLANATION = (
    "FLOW-MONO: in the Verify arm of main the verdict flag is a bool initialised `true` and written only inside the result loop; the loop body "
    "is evaluated symbolically into a decision tree over the prover result: on every path the flag keeps its value or becomes false, and it keeps "
    "its value only when the result is Ok(report), report.status() is Ok(status) and status is exactly Status::Success(Success::Theorem) (so `if "
    "!matches!(..) { ok = false }`, `ok &= helper(..)` and a match on a mapped result are the same to the rule); it is read once, un-negated, to "
    "choose the success message; so the verdict is a monotone conjunction and cannot depend on the order in which provers finish. TAB-STATUS: Display/FromStr of Status are extracted as tables; only \"Theorem\" maps to Success::Theorem, unknown text and a missing "
    "status line are Err. ONCE: prove_all is evaluated with every call of prove / send / execute recorded together with its path condition and loop nest: one prove "
    "when instances() == 1 (the result is prove mapped over every element of `problems`), one otherwise, inside exactly one pass over `problems`, whose "
    "result is sent unconditionally on the channel whose receiver is returned; nothing else calls prove or spawns the prover. BYTES: both sinks "
    "(Problem::to_file, Vampire::prove stdin) format the problem with the bare Display of Problem and nothing transforms the problem list between "
    "them (only into_iter/inspect). FLOW-ERR: spawn/write/wait/utf-8 failures in Vampire::prove are mapped to VampireError and returned. NAMES: the "
    "problem-name templates are pairwise disjoint languages with enumerate() indices. Runtime scheduling itself is not decided. TAB-STATUS:regex-language: the status pattern, as a regular language, is exactly `SZS status <word> for <word>?`. FLOW-MONO:every-result: only adaptors that neither drop nor stop sit between prove_all and the verdict loop. CLI: --no-proof-search / --no-timing are plain presence flags.")
UNDECIDED = ["thread scheduling and a worker dying without sending (runtime)", "the prover's exit status is ignored by the code (source TODO)",
             "that vampire prints the SZS line for the problem it was given"]
ASSUMPTIONS = ["std::sync::mpsc and threadpool deliver every sent result once", "regex crate semantics of the STATUS pattern"]

MAIN = "command_line::procedures::main"


def find_flag(ctx, b):
    loops = [l for l in hq.for_loops(b["body"]) if hq.calls(l[1], "Prover::prove_all")]
    if len(loops) != 1:
        raise AnalysisGap("main: expected one loop over Prover::prove_all, found %d" % len(loops))
    loop = loops[0]
    from .. import sym
    mut = set(sym.Eval(ctx.facts).mutated_locals(loop[3]))
    lets = hq.let_by_id(b["body"])
    inner = {p["id"] for n in walk(loop[3]) if n.get("k") == "LetStmt" for p in pat_bindings(n["pat"])}
    ids = set()
    for n in walk(loop[3]):
        if n.get("k") == "Path" and n.get("res", {}).get("r") == "local" and n.get("ty") == "bool" and n["res"]["id"] in mut and n["res"]["id"] in lets \
                and n["res"]["id"] not in inner:
            ids.add(n["res"]["id"])
    if len(ids) != 1:
        raise AnalysisGap("main: expected exactly one bool flag assigned in the result loop, found %d" % len(ids))
    return loop, ids.pop()


def must_assign(e, fid, val):
    """Every path through statement-expression e assigns literal `val` to local fid."""
    e = hq.strip(e) if e.get("k") in ("DropTemps", "Use") else e
    k = e.get("k")
    if k == "Assign":
        l = strip(e["l"])
        r = strip(e["r"])
        return l.get("k") == "Path" and l.get("res", {}).get("id") == fid and r.get("k") == "Lit" and r.get("v") is val
    if k == "Block":
        if "mac_src" in e:
            return False
        for s in hq.stmts_of(e):
            x = hq.stmt_expr(s)
            if x is not None and must_assign(x, fid, val):
                return True
        return False
    if k == "If":
        return "else" in e and must_assign(e["then"], fid, val) and must_assign(e["else"], fid, val)
    if k == "Match":
        return all(must_assign(a["body"], fid, val) for a in e["arms"])
    return False


def cond_assign(e, fid):
    """For a block that assigns the flag only under one `if`: return the If node, else None."""
    ifs = []
    for s in hq.stmts_of(e) if e.get("k") == "Block" else []:
        x = hq.stmt_expr(s)
        if x is None:
            continue
        x = strip(x) if x.get("k") in ("DropTemps", "Use") else x
        if x.get("k") == "If" and hq.assigns_to(x, fid):
            ifs.append(x)
        elif hq.assigns_to(x, fid):
            return None
    return ifs[0] if len(ifs) == 1 else None


def rule_flow_mono(ctx):
    fx = ctx.facts
    b = fx.fn(MAIN)
    loop, fid = find_flag(ctx, b)
    site = ctx.site(b)
    let = hq.let_by_id(b["body"]).get(fid)
    init = strip(let["init"]) if let and "init" in let else {}
    ctx.add("FLOW-MONO", "init-true", init.get("k") == "Lit" and init.get("v") is True, site, "verdict flag `%s` is initialised with literal true" % (let or {}).get("pat", {}).get("name"))
    # every result of prove_all reaches the loop body: between the call and the loop only adaptors that neither drop nor stop (`take_while`,
    # `filter`, `take`, `skip` .. let a failed run pass unseen)
    pa_calls = hq.calls(loop[1], "Prover::prove_all")
    pm_it = hq.parent_map(loop[1])
    chain_ = []
    cur_ = pa_calls[0] if len(pa_calls) == 1 else None
    while cur_ is not None:
        par_ = pm_it.get(id(cur_))
        if par_ is None:
            break
        if par_.get("k") == "MethodCall" and par_.get("recv") is cur_:
            chain_.append(par_["method"])
        elif par_.get("k") == "Call" and cur_ in par_.get("args", []):
            chain_.append(hq.last(callee_generic(par_) or "?"))
        cur_ = par_
    harmless = {"into_iter", "iter", "inspect", "enumerate", "by_ref", "peekable", "fuse"}
    ctx.add("FLOW-MONO", "every-result", len(pa_calls) == 1 and all(m_ in harmless for m_ in chain_), site,
            "the result loop runs over everything prove_all yields (adaptors in between: %s)" % chain_)
    loop_ids = {id(n) for n in walk(loop[0])}
    asg = [a for a in hq.assigns_to(b["body"], fid) if id(a) not in loop_ids]
    ctx.add("FLOW-MONO", "no-write-outside-loop", not asg, site, "the flag is not assigned outside the result loop (%d assignments)" % len(asg))
    # no mutable borrow / move of the flag elsewhere
    uses = hq.uses_of(b["body"], fid)
    pm = hq.parent_map(b["body"])
    odd = []
    reads = []
    for u in uses:
        p = pm.get(id(u))
        if p.get("k") in ("Assign", "AssignOp") and p.get("l") is u:
            continue
        if id(u) in loop_ids:
            # uses inside the loop are part of the symbolic evaluation of the body; a `&mut flag` is only understood there when it is
            # handed to a helper that the evaluator inlines (a crate-local function that is not in rules/known_functions.txt)
            if p.get("k") == "Ref" and p.get("mut"):
                from ..sym import known_functions
                pp = pm.get(id(p)) or {}
                tgt = callee(pp) if pp.get("k") in ("Call", "MethodCall") else None
                if not (tgt in fx.bodies and tgt not in known_functions()):
                    odd.append(hq.render(pp or p))
            continue
        if p.get("k") == "If" and p.get("cond") is u:
            reads.append(p)
            continue
        # the flag is the value of a later-extracted helper (`fn run(..) -> bool { let mut success = true; for .. {..} success }`) whose
        # result is bound to a local: the reads of that local are the reads of the flag
        cur_ = u
        par_ = p
        while par_ is not None and ((par_.get("k") == "Block" and par_.get("expr") is cur_ and "mac_src" not in par_) or
                                    (par_.get("k") in ("DropTemps", "Use") and par_.get("e") is cur_) or
                                    (par_.get("inlined") is cur_ and par_.get("k") in ("Call", "MethodCall"))):
            cur_ = par_
            par_ = pm.get(id(cur_))
        if cur_ is not u and par_ is not None and par_.get("k") == "LetStmt" and par_.get("init") is cur_ and par_.get("pat", {}).get("p") == "Bind":
            lid2 = par_["pat"]["id"]
            uses2 = hq.uses_of(b["body"], lid2)
            conds2 = [pm.get(id(u2)) for u2 in uses2]
            if uses2 and all(c2 is not None and c2.get("k") == "If" and c2.get("cond") is u2 for c2, u2 in zip(conds2, uses2)):
                reads.extend(conds2)
                continue
        odd.append(hq.render(p))
    ctx.add("FLOW-MONO", "single-read", len(reads) == 1 and not odd, site, "flag is read exactly once, un-negated, as an `if` condition (other uses: %s)" % odd)
    if len(reads) == 1:
        r = reads[0]
        t_l = " ".join(hq.string_lits(r["then"]))
        e_l = " ".join(hq.string_lits(r.get("else", {})))
        ctx.add("FLOW-MONO", "success-branch", "success" in t_l.lower() and "success" not in e_l.lower() and "else" in r, ctx.site(b, r),
                "true-branch prints the success message, false-branch the failure message", construct={"then": t_l, "else": e_l})
        # the read comes after the loop (same block, later statement)
        order_ = {id(n_): i_ for i_, n_ in enumerate(walk(b["body"]))}      # pre-order: a helper's statements sit where it is called
        ctx.add("FLOW-MONO", "read-after-loop", id(r) not in loop_ids and order_.get(id(r), -1) > order_.get(id(loop[0]), 10 ** 9), site, "verdict is read after the result loop")
    # the loop body, evaluated symbolically: the flag after one iteration as a decision tree over the prover result
    from .. import sym, leaves
    _, iterable, pat, body = loop
    ev = sym.Eval(fx)
    FLAG, RESULT = ("param", "FLAG"), ("param", "RESULT")
    env = {fid: FLAG}
    ev.names[fid] = "flag"
    ev.bind_pat(pat, RESULT, env)
    ev._prefix = [()]
    ev.effect(body, env, 0)
    try:
        lv = leaves.leaves(env[fid])
    except OverflowError as e:
        raise AnalysisGap("result loop: %s" % e)
    report = ("proj", RESULT, (("Result::Ok", "0"),))
    status = ("call", "Report::status", (report,))
    need = [("is", RESULT, "Result::Ok"), ("is", status, "Result::Ok"),
            ("is", ("proj", status, (("Result::Ok", "0"),)), "Status::Success"),
            ("is", ("proj", status, (("Result::Ok", "0"), ("Status::Success", "0"))), "Success::Theorem")]
    kept, cleared, odd_leaves = [], [], []
    for ts, v in lv:
        if v == FLAG:
            kept.append(ts)
        elif v == ("lit", False):
            cleared.append(ts)
        else:
            odd_leaves.append((ts, v))
    ctx.add("FLOW-MONO", "only-false", not odd_leaves, site,
            "on every path of the loop body the flag keeps its value or becomes false (%d paths keep, %d clear; other: %s)" % (len(kept), len(cleared), [sym.pretty(v)[:80] for _, v in odd_leaves]))
    def sure(ts, n):
        # the path says n outright, or its facts entail it (`not (not Ok or ..)`)
        if n in ts:
            return True
        try:
            return leaves.entails(ts, n)
        except OverflowError:
            return False
    bad_kept = [ts for ts in kept if not all(sure(ts, n) for n in need)]
    ctx.add("FLOW-MONO", "arm:status-ok", bool(kept) and not bad_kept, site,
            "the flag survives an iteration only when the prover result is Ok(report), report.status() is Ok(status) and status is exactly "
            "Status::Success(Success::Theorem); offending paths: %s" % [[str(t)[:90] for t in ts] for ts in bad_kept[:3]], construct=[str(t) for ts in kept for t in ts])

    def has(ts, fact):
        return fact in ts
    # the three failure classes each clear the flag on every path (they are never a kept path, and at least one cleared path exists for each)
    classes = {"arm:prover-error": ("is", RESULT, "Result::Err"), "arm:no-status": ("is", status, "Result::Err")}
    for key, fact in classes.items():
        ctx.add("FLOW-MONO", key, any(has(ts, fact) for ts in cleared) and not any(has(ts, fact) for ts in kept), site,
                "a path with %s clears the flag and none keeps it" % (fact,))
    ctx.add("FLOW-MONO", "arm:other-status", any(any(t[0] == "not" for t in ts) or any(t[0] == "is" and t[2] not in ("Result::Ok", "Result::Err", "Status::Success", "Success::Theorem") for t in ts) for ts in cleared), site,
            "a status other than Theorem clears the flag")


def rule_status_tables(ctx):
    fx = ctx.facts
    d = fx.fn("fmt", impl_self="verifying::prover::Status", impl_trait="std::fmt::Display")
    f = fx.fn("from_str", impl_self="verifying::prover::Status")
    ms = hq.matches_over(d["body"], "verifying::prover::Status")
    if len(ms) != 1:
        raise AnalysisGap("Display for Status: expected one match over Status")
    disp = {}
    for key, val, arm in hq.match_table(ms[0]):
        disp[key] = val[1] if val and val[0] == "lit" else None
    variants = []
    for outer, inner_adt in (("Success", "verifying::prover::Success"), ("Failure", "verifying::prover::Failure")):
        for v in fx.variants(inner_adt):
            variants.append("Status::%s(%s::%s)" % (outer, outer, v))
    ctx.add("TAB-STATUS", "display-total", sorted(disp) == sorted(variants) and all(disp.values()), ctx.site(d),
            "Display covers every Status value with a literal, no wildcard: %s" % disp)
    # FromStr, decided on what it computes: which status word gives which value (a match whose arms are `Ok(..)`, or one whose result is wrapped
    # in Ok afterwards, an early return for the missing line ..)
    from .. import leaves as _lv, comp as _comp
    fv = sym.Eval(fx, inline_depth=0).function(f, [("param", "$s")])

    def describe(val):
        if isinstance(val, tuple) and val[:2] == ("ctor", "Result::Ok"):
            st_ = dict(val[2]).get("0")
            if isinstance(st_, tuple) and st_[:1] == ("ctor",) and st_[1].startswith("Status::") and st_[2] and isinstance(st_[2][0][1], tuple) and st_[2][0][1][:1] == ("ctor",):
                return "%s(%s)" % (st_[1], st_[2][0][1][1])
            return None
        if isinstance(val, tuple) and val[:2] == ("ctor", "Result::Err"):
            return "Err"
        return None
    parse, default = {}, None
    try:
        with _lv.self_contained():
            fl = _lv.leaves(_comp.case_of_case(_lv.lift(fv)))
    except Exception as e:
        raise AnalysisGap("FromStr for Status: %s" % e)
    for ts_, val_ in fl:
        pos = [t_ for t_ in ts_ if t_[0] == "eq" and isinstance(t_[2], str)]
        neg = [t_ for t_ in ts_ if t_[0] == "not" and any(u_[0] == "eq" for u_ in t_[1])]
        if len(pos) == 1:
            parse[pos[0][2]] = describe(val_)
        elif not pos and neg:
            default = describe(val_)
    if not parse:
        raise AnalysisGap("FromStr for Status: no decision on string literals found")
    ctx.add("TAB-STATUS", "unknown-is-err", default == "Err", ctx.site(f), "an unrecognised status word yields Err (%s)" % default)
    th = [k for k, v in parse.items() if v == "Status::Success(Success::Theorem)"]
    ctx.add("TAB-STATUS", "only-theorem", th == ["Theorem"], ctx.site(f), "exactly the word \"Theorem\" parses to Success::Theorem: %s" % th, construct=parse)
    for v in variants:
        s = disp.get(v)
        ctx.add("TAB-STATUS", "roundtrip:%s" % v, s is not None and parse.get(s) == v, ctx.site(f),
                "FromStr(Display(%s)) = %s via \"%s\"" % (v, parse.get(s), s))
    inj = len(set(parse.values())) == len(parse)
    ctx.add("TAB-STATUS", "fromstr-injective", inj, ctx.site(f), "no two status words parse to the same value")
    # missing status line -> Err: captures(..).ok_or(Missing)?
    caps = hq.calls(f["body"], "Regex::captures")
    pm = hq.parent_map(f["body"])
    ok = len(caps) == 1 and hq.is_try_propagated(pm, caps[0]) and pm[id(caps[0])].get("method") in ("ok_or", "ok_or_else")
    if not ok and len(caps) == 1:
        # the same refusal as an explicit exit: `let Some(c) = RE.captures(s) else { return Err(Missing) }`
        CAP_ = [x for x in sym.subterms(fv) if isinstance(x, tuple) and x[:2] == ("call", "Regex::captures")]
        missing = ("ctor", "Result::Err", (("0", ("ctor", "StatusExtractionError::Missing", ())),))
        for ts_, val_ in fl:
            if val_ == missing and CAP_ and any(t_ in (("not", (("is", CAP_[0], "Option::Some"),)), ("is", CAP_[0], "Option::None")) for t_ in ts_):
                ok = True
    ctx.add("TAB-STATUS", "missing-is-err", ok, ctx.site(f), "a text without status line propagates Err(Missing) with `?`")
    # the regex literal
    st = fx.fns("STATUS")
    lits = []
    for body in fx.body_list:
        if body["file"].endswith("prover/mod.rs"):
            for n in walk(body["body"]):
                if n.get("k") == "Lit" and isinstance(n.get("v"), str) and "SZS" in n["v"]:
                    lits.append(n["v"])
    ok = len(lits) == 1 and re.match(r"SZS status \(\?P?<\w+>(\[\[:word:\]\]|\\w)\+\)", lits[0]) is not None
    ctx.add("TAB-STATUS", "regex", ok, "src/verifying/prover/mod.rs", "status pattern captures the word after `SZS status `: %s" % lits)
    # the pattern as a language: every line `SZS status <word> for <word or nothing>` is a status line (a prover reading its problem from
    # standard input reports an empty problem name), and nothing else is
    from .. import regular as _R
    wit = "not parsed"
    if len(lits) == 1:
        try:
            got_re = _R.parse_regex(lits[0])
            ref_re = _R.parse_regex(r"SZS status (?<status>[[:word:]]+) for (?<problem>[[:word:]]*)")
            w1, w2 = _R.subset_witness(ref_re[0], got_re[0]), _R.subset_witness(got_re[0], ref_re[0])
            wit = None if (w1 is None and w2 is None and len(got_re[3]) == 2) else {"a status line the pattern misses": w1, "a line the pattern takes for a status line": w2, "groups": got_re[3]}
        except ValueError as e_:
            wit = str(e_)
    ctx.add("TAB-STATUS", "regex-language", wit is None, "src/verifying/prover/mod.rs",
            "the status pattern accepts exactly `SZS status <word> for <word>?` (two groups: status, problem)", construct=wit)
    # report.status() parses stdout
    rs = fx.fn("status", impl_self="verifying::prover::vampire::VampireReport")
    fp = [hq.field_path(c["recv"]) for c in hq.calls(rs["body"], method="parse")]
    ctx.add("TAB-STATUS", "status-from-stdout", fp == ["self.output.stdout"], ctx.site(rs), "VampireReport::status parses %s" % fp)


def rule_once(ctx):
    fx = ctx.facts
    pa = fx.fn("Prover::prove_all")
    site = ctx.site(pa)
    # who calls prove
    callers = {}
    from ..sym import known_functions
    for body in fx.body_list + fx.bin["bodies"]:
        if body["def_path"] in fx.helpers:
            continue   # a helper extracted later: its body is attached to each of its call sites (facts._graft_helpers) and is seen there
        for c in hq.calls(body["body"], "Prover::prove"):
            if (callee_generic(c) or "").endswith("Prover::prove"):
                callers.setdefault(body["def_path"], []).append(c)
    ctx.add("ONCE", "prove-callers", list(callers) == [pa["def_path"]] and len(callers.get(pa["def_path"], [])) == 2, site,
            "Prover::prove is called only inside prove_all, at 2 sites: %s" % {k: len(v) for k, v in callers.items()})
    callers_all = [body["def_path"] for body in fx.body_list + fx.bin["bodies"] if hq.calls(body["body"], "Prover::prove_all")]
    ctx.add("ONCE", "prove_all-callers", callers_all == [fx.fn(MAIN)["def_path"]], site, "prove_all is called only from main: %s" % callers_all)
    # prove_all evaluated symbolically (helpers extracted from it are inlined; `for` and `for_each` are the same loop): every call of
    # prove / send / execute is recorded with its path condition and the loops it sits in
    from .. import sym, leaves, ftpl
    ev = sym.Eval(fx)
    ev.effect_calls = {"Prover::prove", "Sender::send", "ThreadPool::execute", "SyncSender::send"}
    value = ev.function(pa)
    outs = [o for o in ev.out if o[2][0] == "emit" and o[2][1] in ev.effect_calls]

    def tests_of(conds):
        ts = []
        for c, pol in conds:
            r = leaves.cond_tests(c, pol)
            if r is False:
                return None
            ts += [t_[1] if t_[0] == "survived" else t_ for t_ in r]      # an earlier `return` not taken is a condition like any other
        return ts
    SELF, PROBLEMS = ("param", pa["params"][0].get("name", "self")), ("param", pa["params"][1].get("name", "problems"))
    inst = ("call", "Prover::instances", (SELF,))
    one = ("eq", inst, 1)
    proves = [o for o in outs if o[2][1] == "Prover::prove"]
    seq = [o for o in proves if tests_of(o[0]) is not None and one in tests_of(o[0])]
    par = [o for o in proves if tests_of(o[0]) is not None and one not in tests_of(o[0])]
    seq_t = tests_of(seq[0][0]) if len(seq) == 1 else None
    par_t = tests_of(par[0][0]) if len(par) == 1 else None
    ctx.add("ONCE", "one-per-branch", len(proves) == 2 and len(seq) == 1 and len(par) == 1 and seq_t == [one] and par_t in ([], [("not", (one,))]), site,
            "one prove call when instances() == 1 and one otherwise, nothing else decides whether prove runs: %s / %s" % (seq_t, par_t))
    lv = leaves.leaves(value)
    seq_vals = [v for ts, v in lv if one in ts]
    par_vals = [v for ts, v in lv if one not in ts]
    if len(seq) == 1:
        want = ("upd", ("acc", ("call", "Vec::new", ())), "push", (("call", "Prover::prove", (seq[0][2][2][0], ("at", PROBLEMS))),))
        got = [ftpl.canon_iter(v) for v in seq_vals]
        ctx.add("ONCE", "sequential", got == [want] and seq[0][2][2][0] == SELF and seq[0][1] in ((), (PROBLEMS,)), site,
                "with one instance the result is prove applied to every element of `problems` in order (no filter / skip / take): %s" % [sym.pretty(g)[:160] for g in got])
    if len(par) == 1:
        o = par[0]
        ctx.add("ONCE", "pool-loop", o[1] == (PROBLEMS,), site, "pool branch iterates the problem iterator itself, once (no filter/skip, no nested loop): %s" % (o[1],))
        ctx.add("ONCE", "pool-prove-arg", o[2][2] == (SELF, ("each", PROBLEMS)), site, "worker proves the loop's own problem with (a clone of) this prover: %s" % (o[2][2],))
        execs = [x for x in outs if x[2][1] == "ThreadPool::execute"]
        ctx.add("ONCE", "pool-execute", len(execs) == 1 and execs[0][:2] == o[:2] and execs[0][2][2][1][:1] == ("closure",), site,
                "exactly one unconditional pool.execute(closure) per problem (%d execute call(s))" % len(execs))
        sends = [x for x in outs if x[2][1].endswith("::send")]
        res = ("call", "Prover::prove", o[2][2])
        ctx.add("ONCE", "pool-send-result", len(sends) == 1 and sends[0][2][2][1] == res, site, "the value sent is the result of prove (Ok and Err alike): %s" % [sym.pretty(x[2][2][1])[:120] for x in sends])
        ctx.add("ONCE", "pool-send", len(sends) == 1 and sends[0][:2] == o[:2], site,
                "the result is sent under exactly the conditions under which prove runs (no branch around either): %s vs %s" % ([tests_of(x[0]) for x in sends], par_t))
        chan = leaves.norm(sends[0][2][2][0]) if len(sends) == 1 else None
        ok = chan is not None and chan[0] == "proj" and chan[2] == (("tuple", "0"),) and chan[1][:2] == ("call", "mpsc::channel") and \
            [leaves.norm(v) for v in par_vals] == [("proj", chan[1], (("tuple", "1"),))]
        ctx.add("ONCE", "pool-drain", ok, site, "the returned iterator drains the receiver of the channel the workers send on: %s" % [sym.pretty(v)[:100] for v in par_vals])
    # Command::new only in Vampire::prove
    sites = []
    for body in fx.body_list + fx.bin["bodies"]:
        if body["def_path"] in fx.helpers:
            continue
        if hq.fn_refs(body["body"], "std::process::Command::new"):
            sites.append(body["def_path"])
    vp = fx.fn("prove", impl_self="verifying::prover::vampire::Vampire")
    ctx.add("ONCE", "spawn-sites", sites == [vp["def_path"]], ctx.site(vp), "std::process::Command::new is referenced only in Vampire::prove: %s" % sites)


def _display_arg_is_bare(m, want_ty_suffix):
    """macro call site `write!(dst, "{x}")` / "{}" with one argument of the wanted type."""
    src = m.get("mac_src", "")
    t = hq.macro_template(src)
    return t is not None and re.fullmatch(r"\{[A-Za-z_][A-Za-z0-9_]*\}|\{\}", t) is not None


def rule_bytes(ctx):
    fx = ctx.facts
    tf = fx.fn("to_file", impl_self="verifying::problem::Problem")
    vp = fx.fn("prove", impl_self="verifying::prover::vampire::Vampire")
    for name, b in (("to_file", tf), ("vampire-stdin", vp)):
        ws = [n for n in walk(b["body"]) if "mac_src" in n and n.get("mac") in ("write", "writeln")]
        good = [w for w in ws if _display_arg_is_bare(w, "Problem")]
        # the displayed value has type Problem
        tys = set()
        for w in good:
            for n in walk(w):
                if n.get("k") == "Call" and (callee_generic(n) or "").endswith("Argument::<'_>::new_display"):
                    tys.add(strip(n["args"][0]).get("ty", "").lstrip("&"))
        ctx.add("BYTES", name, len(ws) == 1 and len(good) == 1 and tys == {"verifying::problem::Problem"}, ctx.site(b),
                "exactly one write of the problem, with the bare Display template %r of type %s" % ([hq.macro_template(w["mac_src"]) for w in ws], sorted(tys)))
    # between creation and the two sinks the list of problems is not transformed
    b = fx.fn(MAIN)
    loops = [l for l in hq.for_loops(b["body"]) if hq.calls(l[1], "Prover::prove_all")]
    if not loops:
        # the results are not consumed by a `for` loop: take the prove_all call wherever it is
        pas = hq.calls(b["body"], "Prover::prove_all")
        if len(pas) != 1:
            raise AnalysisGap("main: expected one call of Prover::prove_all, found %d" % len(pas))
        pa = pas[0]
    else:
        pa = hq.calls(loops[0][1], "Prover::prove_all")[0]
    arg_id = local_id_of(pa["args"][0])
    lets = hq.let_by_id(b["body"])
    chain_methods = []
    seen = 0
    if arg_id is None:
        # the argument is itself a chain on the list (`prove_all(problems.into_iter().inspect(..))`)
        root0, chain0 = hq.method_chain(pa["args"][0])
        if local_id_of(root0) is not None:
            arg_id = local_id_of(root0)
            chain_methods = [c["method"] for c in chain0]
            seen = 1
    root_id = arg_id
    while root_id in lets and seen < 5:
        seen += 1
        init = lets[root_id].get("init")
        root, chain = hq.method_chain(init)
        if local_id_of(root) is None:
            break
        chain_methods = [c["method"] for c in chain] + chain_methods
        root_id = local_id_of(root)
    ctx.add("BYTES", "no-transform", set(chain_methods) <= {"into_iter", "inspect", "iter"} and seen >= 1, ctx.site(b),
            "problems reach prove_all through %s only (inspect cannot modify)" % chain_methods)
    # to_file is applied to each element of the same list
    tfc = hq.calls(b["body"], "Problem::to_file")
    ok = False
    for l in hq.for_loops(b["body"]):
        if tfc and hq.contains(l[3] or {}, tfc[0]):
            ok = local_id_of(l[1]) == root_id or local_id_of(strip(l[1])) == root_id
    ctx.add("BYTES", "save-same-list", ok and len(tfc) == 1, ctx.site(b), "--save-problems writes every element of the same problem list that is later proven")
    # file name derives from problem.name
    if tfc:
        pm = hq.parent_map(b["body"])
        fmts = [n for l in hq.for_loops(b["body"]) if hq.contains(l[3] or {}, tfc[0]) for n in walk(l[3]) if n.get("mac") == "format" and "mac_src" in n]
        ctx.add("BYTES", "file-name", any("problem.name" in f["mac_src"] for f in fmts), ctx.site(b), "file name is built from the problem's name: %s" % [f["mac_src"] for f in fmts])


def rule_flow_err(ctx):
    fx = ctx.facts
    vp = fx.fn("prove", impl_self="verifying::prover::vampire::Vampire")
    pm = hq.parent_map(vp["body"])
    n = 0
    for c in walk(vp["body"]):
        if c.get("k") not in ("MethodCall", "Call") or c.get("mac") not in (None,) and c.get("mac") != "write":
            continue
        ty = c.get("ty", "")
        if not ty.startswith("std::result::Result<"):
            continue
        if c.get("k") == "MethodCall" and c["method"] in ("map_err",):
            continue
        par = pm.get(id(c))
        # the function's tail Ok(..) is fine
        cc = ctor_of(c)
        if cc and cc[1] == "Ok":
            continue
        if (callee_generic(c) or "").endswith("from_residual"):
            continue
        n += 1
        ok = hq.is_try_propagated(pm, c)
        ctx.add("FLOW-ERR", "Vampire::prove:%s" % hq.last(callee_generic(c) or "?", 2), ok, ctx.site(vp, c),
                "fallible call %s is propagated with `?` (mapped into VampireError)" % hq.render(c)[:80])
    ctx.floor("FLOW-ERR", "vampire_fallible_calls", n, 2)
    try:
        tf = fx.fn("try_from", impl_self="verifying::prover::vampire::VampireOutput")
    except AnalysisGap:
        # by role: the one function of vampire.rs that decodes the process output (it is where String::from_utf8 is called), as a TryFrom impl
        # or as an associated function
        cands = [b_ for b_ in getattr(fx, "all_bodies", fx.body_list) if b_["file"].endswith("verifying/prover/vampire.rs") and "::tests" not in b_["def_path"] and hq.calls(b_["body"], "String::from_utf8")]
        own = [b_ for b_ in cands if not b_["def_path"].endswith("::prove")]      # `prove` carries a grafted copy of a helper it calls
        if len(own) != 1:
            raise
        tf = own[0]
    pm = hq.parent_map(tf["body"])
    cs = hq.calls(tf["body"], "String::from_utf8")
    ctx.add("FLOW-ERR", "utf8", len(cs) == 2 and all(hq.is_try_propagated(pm, c) for c in cs), ctx.site(tf), "both from_utf8 conversions are propagated")


def tmpl_regex(t):
    out = []
    i = 0
    while i < len(t):
        if t[i] == "{":
            j = t.index("}", i)
            out.append("#")
            i = j + 1
        else:
            out.append(t[i])
            i += 1
    return "".join(out)


def langs_disjoint(a, b):
    """Templates over literal characters and '#' (= one or more decimal digits).  Exact for this class when the
    literals contain no digit: digits are interchangeable, so a common string exists iff one exists with every digit
    '1' and run lengths up to (number of '#' in the other template) + 1; enumerate those and match."""
    import itertools
    if any(ch.isdigit() for ch in a + b):
        raise AnalysisGap("problem-name template contains a literal digit: %r / %r" % (a, b))

    def rx(t):
        return re.compile("".join("[0-9]+" if ch == "#" else re.escape(ch) for ch in t) + r"\Z")

    def strings(t, maxlen):
        slots = t.count("#")
        for lens in itertools.product(range(1, maxlen + 1), repeat=slots):
            it = iter(lens)
            yield "".join("1" * next(it) if ch == "#" else ch for ch in t)

    rb, ra = rx(b), rx(a)
    for s_ in strings(a, b.count("#") + 1):
        if rb.match(s_):
            return False
    for s_ in strings(b, a.count("#") + 1):
        if ra.match(s_):
            return False
    return True


def rule_names(ctx):
    fx = ctx.facts
    temps = {}
    for body in fx.body_list:
        for c in hq.calls(body["body"], "Problem::with_name"):
            a = c["args"][0]
            lit = None
            s = strip(a)
            if s.get("k") == "Lit":
                lit = s["v"]
            else:
                for n in walk(a):
                    if n.get("mac") == "format" and "mac_src" in n:
                        lit = hq.macro_template(n["mac_src"])
                        break
            if lit is None:
                ctx.gap("NAMES", "with_name:%s" % body["def_path"], ctx.site(body, c), "problem name is not a literal / format template")
                continue
            decomposed = False
            temps[lit] = body["def_path"]
    # names after decomposition: "<name>_<i>"
    dec = []
    for fn in ("decompose_independent", "decompose_sequential"):
        b = fx.fn("Problem::" + fn)
        fm = [hq.macro_template(n["mac_src"]) for n in walk(b["body"]) if n.get("mac") == "format" and "mac_src" in n]
        dec.append(fm)
        ctx.add("NAMES", "decompose:%s" % fn, [re.sub(r"\{\w*\}", "{}", t_) for t_ in fm] == ["{}_{}"], ctx.site(b), "sub-problem name template %s (<name>_<index>)" % fm)
    finals = {}
    for t, where in temps.items():
        if "outline" in t:
            finals[tmpl_regex(t)] = t
        else:
            finals[tmpl_regex(t) + "_#"] = t + " (decomposed)"
    ctx.floor("NAMES", "name_templates", len(temps), 6)
    keys = sorted(finals)
    for i in range(len(keys)):
        for j in range(i + 1, len(keys)):
            ctx.add("NAMES", "disjoint:%s|%s" % (keys[i], keys[j]), langs_disjoint(keys[i], keys[j]), "",
                    "name languages %s and %s share no string" % (keys[i], keys[j]))
    # outline names use both loop indices
    ae = fx.fn("decompose", impl_self="verifying::task::external_equivalence::AssembledExternalEquivalenceTask")
    # decided on the evaluated names: `<direction>_outline_<index of the lemma>_<index of the conjecture within the lemma>`
    from .. import comp as _comp
    _comp.use(fx)
    SELF_ = ("param", "$self")
    cv = _comp.canon(sym.Eval(fx, inline_depth=0).function(ae, [SELF_]))
    fmts = {x for x in sym.subterms(cv) if isinstance(x, tuple) and x[:1] == ("format",) and len(x) == 3 and isinstance(x[1], str) and "outline" in x[1]}
    for d_ in ("forward", "backward"):
        LEM = ("fieldof", ("fieldof", SELF_, "proof_outline"), d_ + "_lemmas")
        want = ("format", d_ + "_outline_{}_{}", (("idx", (LEM,)), ("idx", (("fieldof", ("at", LEM), "conjectures"),))))
        mine = [x for x in fmts if x[1].startswith(d_ + "_outline")]
        ctx.add("NAMES", "outline-indices:%s" % want[1], mine == [want], ctx.site(ae), "outline problem names carry both enumerate() indices: the lemma's and the conjecture's",
                construct=None if mine == [want] else sorted(map(repr, mine)))


WORKER_TABLE = {
    ("<verifying::prover::vampire::Vampire as verifying::prover::Prover>::prove", "unwrap"): (1, "child.stdin.take() on a child just spawned with Stdio::piped() is Some"),
    ("verifying::prover::Prover::prove_all", "unwrap"): (1, "tx.send(result) fails only when the receiving iterator was dropped, i.e. nobody consumes reports any more"),
    ("<verifying::prover::STATUS as std::ops::Deref>::deref::__static_ref_initialize", "unwrap"): (1, "Regex::new on a constant expression"),
    ("<verifying::prover::vampire::Vampire as verifying::prover::Prover>::instances", "assert:DivisionByZero"): (1, "cores() is num_cpus::get() (>= 1) or the non-zero field"),
}


def rule_worker_panics(ctx):
    """A prover run that panics inside a pool worker sends no report at all: the consumer's flag is then never cleared for that problem.
    Every panic site in the prover module (the code a worker executes) must be in the table above, with its invariant."""
    from .. import callgraph
    from . import c16
    fx = ctx.facts
    cg = callgraph.CallGraph(fx)
    sites, where, n_reach, _ = c16.collect_sites(fx, cg)
    n = 0
    # a tabled site that left its function leaves slack for an unlisted site of the same kind in the prover module (code motion)
    slack = {}
    for (fn, kind), ent in WORKER_TABLE.items():
        missing = ent[0] - sites.get((fn, kind), 0)
        if missing > 0:
            slack[kind] = slack.get(kind, 0) + missing
    for (fn, kind), cnt in sorted(sites.items()):
        if "verifying::prover" not in fn:
            continue
        n += 1
        ent = WORKER_TABLE.get((fn, kind))
        f, l = where[(fn, kind)]
        if ent is None and slack.get(kind, 0) >= cnt:
            slack[kind] -= cnt
            ctx.ok("FLOW-MONO", "worker-panic:moved|%s" % kind, "%s:%s" % (f, l), "%d site(s) of kind `%s` in %s: a tabled site of that kind left its function (code motion)" % (cnt, kind, fn), nontrivial=False)
            continue
        if ent is None and kind == "index" and c16._regex_group_indexes(fx, fn) >= cnt:
            ctx.ok("FLOW-MONO", "worker-panic:regex-group|%s" % hq.last(fn, 2), "%s:%s" % (f, l),
                   "%d index site(s) in %s read a named group that the status regex has: they cannot panic" % (cnt, fn), nontrivial=False)
            continue
        if ent is None:
            ctx.bad("FLOW-MONO", "worker-panic:%s|%s" % (hq.last(fn, 2), kind), "%s:%s" % (f, l),
                    "%d panic site(s) of kind `%s` in %s: a panic in a pool worker drops that problem's report, and the remaining reports can still say success" % (cnt, kind, fn))
        else:
            ctx.add("FLOW-MONO", "worker-panic:%s|%s" % (hq.last(fn, 2), kind), cnt <= ent[0], "%s:%s" % (f, l), "%d site(s) (table %d): %s" % (cnt, ent[0], ent[1]))
    ctx.count("worker_panic_sites", n)  # no floor: removing a panic site is an improvement


def rule_cli_flags(ctx):
    """--no-proof-search and --no-timing are plain presence flags (a verdict is printed exactly when the search was not switched off)"""
    from .. import collect as _collect
    _collect.check_cli_flags(ctx, "CLI", ctx.facts, ["no_proof_search", "no_timing"])


RULES = [rule_flow_mono, rule_status_tables, rule_once, rule_bytes, rule_flow_err, rule_names, rule_worker_panics, rule_cli_flags]
