"""C03 — strong-equivalence obligations are refuted exactly by HT-distinguishing pairs."""
from ..facts import AnalysisGap, callee_generic, local_id_of, local_of, strip, walk
from .. import flow, hq, sym, tasks

EXPLANATION = (
    "FLOW-ROUTE: the two Problem builder chains of StrongEquivalenceTask::decompose are extracted (direction gate, theories added, role given by "
    "each annotate closure) with every theory traced back to self.left / self.right / transition_axioms; they must equal the reference table "
    "(forward: transition axioms + left as axioms, right as conjectures; backward: mirror) and each other's mirror image. FLOW-PIPE: the value "
    "pipelines of `left` and `right` (translation -> [simplify] -> gamma -> [simplify] -> [break]) are extracted and must be identical up to "
    "renaming, contain gamma exactly once and unconditionally, and select mu / tau-star by the same flag. RW-2: portfolios composed before gamma "
    "use only INTUITIONISTIC and HT; CLASSIC appears only after. TPL: transition(p) evaluates to forall free(hp) (here(p(X..)) -> there(p(X..))) "
    "and the predicate set is left.predicates() extended by right.predicates(). Decomposition dispatch per strategy.")
UNDECIDED = ["that gamma-equivalence with the transition axioms coincides with strong equivalence (Pearce; Heuer) — literature",
             "truth of the emitted formulas in models", "gamma itself: C05; problem plumbing: C09 / C19"]
ASSUMPTIONS = ["the HT/intuitionistic validity of the members of INTUITIONISTIC and HT (decided separately under C07)"]

SELF = "verifying::task::strong_equivalence::StrongEquivalenceTask"
MIRROR = {"self.left": "self.right", "self.right": "self.left", "forward": "backward", "backward": "forward",
          "Direction::Forward": "Direction::Backward", "Direction::Backward": "Direction::Forward"}


def mirror_str(s):
    for a, b in (("Forward", "\0"), ("Backward", "Forward"), ("\0", "Backward"), ("left", "\0"), ("right", "left"), ("\0", "right"),
                 ("forward", "\0"), ("backward", "forward"), ("\0", "backward")):
        s = s.replace(a, b)
    return s


def rule_route(ctx):
    fx = ctx.facts
    b = fx.fn("decompose", impl_self=SELF)
    site = ctx.site(b)
    chains = tasks.problem_chains(b["body"])
    table = {}
    for ch in chains:
        rows = []
        tail = []
        for method, args, node in ch["steps"]:
            if method == "add_theory":
                th = args[0]
                lid = local_id_of(th)
                origin = sorted(tasks.origin_of_local(b["body"], lid)) if lid is not None else ["?"]
                origin = [o for o in origin if o in ("self.left", "self.right") or o.endswith("transition_axioms")]
                role = tasks.closure_role(args[1])
                rows.append((tuple(origin), role[1] if role else None, role[2] if role else None))
            else:
                tail.append(method)
        order = [m_ for m_, _, _ in ch["steps"]]
        adds = [i_ for i_, m_ in enumerate(order) if m_.startswith("add_")]
        rest = [i_ for i_, m_ in enumerate(order) if not m_.startswith("add_") and m_ != "with_name"]
        table[ch["name"]] = {"conds": ch["conds"], "rows": rows, "tail": tail, "tail_after_adds": bool(adds) and bool(rest) and max(adds) < min(rest), "order": order}
    ref = {
        "forward": {"gate": "self.direction in {Direction::Forward,Direction::Universal}",
                    "rows": [(("StrongEquivalenceTask::transition_axioms",), "Axiom", True), (("self.left",), "Axiom", True), (("self.right",), "Conjecture", True)]},
        "backward": {"gate": "self.direction in {Direction::Backward,Direction::Universal}",
                     "rows": [(("StrongEquivalenceTask::transition_axioms",), "Axiom", True), (("self.right",), "Axiom", True), (("self.left",), "Conjecture", True)]},
    }
    ctx.add("FLOW-ROUTE", "problems", sorted(table) == sorted(ref), site, "problem builder chains found: %s" % sorted(table))
    for name, r in ref.items():
        got = table.get(name)
        if not got:
            continue
        gates = [c for c, pol in got["conds"] if pol]
        ctx.add("FLOW-ROUTE", "%s:gate" % name, gates == [r["gate"]], site, "problem `%s` is emitted iff %s (reference %s)" % (name, gates, r["gate"]))
        # axioms: as sets (order of axioms is immaterial), conjectures exact
        ax = sorted(x for x in got["rows"] if x[1] == "Axiom")
        cj = sorted(x for x in got["rows"] if x[1] == "Conjecture")
        rax = sorted(x for x in r["rows"] if x[1] == "Axiom")
        rcj = sorted(x for x in r["rows"] if x[1] == "Conjecture")
        ctx.add("FLOW-ROUTE", "%s:axioms" % name, ax == rax, site, "axioms of `%s` come from %s (reference %s)" % (name, ax, rax), construct=got["rows"])
        ctx.add("FLOW-ROUTE", "%s:conjectures" % name, cj == rcj and len(got["rows"]) == 3, site, "conjectures of `%s` come from %s (reference %s)" % (name, cj, rcj))
        ctx.add("FLOW-PIPE", "%s:plumbing" % name, got["tail"] == ["rename_conflicting_symbols", "create_unique_formula_names"] and got["tail_after_adds"], site,
                "conflicting symbols are renamed and formula names made unique once, after every theory (axioms and conjectures) has been added: %s" % got["order"])
    if "forward" in table and "backward" in table:
        f, bk = table["forward"], table["backward"]
        mf = [(tuple(MIRROR.get(o, o) for o in orig), role, pt) for orig, role, pt in f["rows"]]
        ctx.add("FLOW-ROUTE", "mirror", sorted(mf) == sorted(bk["rows"]) and [mirror_str(c) for c, _ in f["conds"]] == [c for c, _ in bk["conds"]] or
                sorted(mf) == sorted(bk["rows"]) and sorted(mirror_str(c).replace("{Direction::Backward,Direction::Universal}", "{Direction::Backward,Direction::Universal}") for c, _ in f["conds"]) == sorted(c for c, _ in bk["conds"]),
                site, "the backward problem is the mirror image of the forward problem under left<->right, forward<->backward")
    # decomposition dispatch
    from .. import tasks as _tasks
    disp = _tasks.decomposition_dispatch(fx, b["body"])
    ctx.add("FLOW-ROUTE", "decomposition", disp == [("Decomposition::Independent", ["decompose_independent"]), ("Decomposition::Sequential", ["decompose_sequential"])],
            site, "strategy dispatch: %s" % disp)


def expand_locals(body, t, what):
    """`what`(term) collected over t and, transitively, over the initialisers of the locals it mentions (portfolios, local closures)."""
    out = list(what(t))
    lets = hq.let_by_id(body)
    seen = set()
    todo = list(flow.locals_in(t))
    while todo:
        name, lid = todo.pop()
        if lid in seen or lid not in lets or "init" not in lets[lid]:
            continue
        seen.add(lid)
        st = flow.summ(lets[lid]["init"])
        out.extend(what(st))
        todo.extend(flow.locals_in(st))
        # a closure's body is not part of the summary of the closure expression: descend into it
        init = strip(lets[lid]["init"])
        if init.get("k") == "Closure":
            sb = flow.summ(init["body"])
            out.extend(what(sb))
            todo.extend(flow.locals_in(sb))
    return out


def portfolio_consts(body, t):
    """Constants of the portfolios referenced (through locals such as `portfolio`, or through a local closure) inside a summary term."""
    return expand_locals(body, t, flow.consts_in)


def rule_pipe(ctx):
    fx = ctx.facts
    b = fx.fn("decompose", impl_self=SELF)
    site = ctx.site(b)
    lets = hq.lets(b["body"])
    pipes = {}
    local_names = {}
    for name in ("left", "right"):
        # the local by its role: the one initialised from self.<side>, whatever it is called
        cands = [l for ls_ in lets.values() for l in ls_ if l["pat"].get("p") == "Bind" and "self.%s" % name in flow.places_in(flow.summ(l.get("init", {"k": "Lit"})))]
        if len(cands) != 1:
            raise AnalysisGap("decompose: no unique local initialised from self.%s" % name)
        lid = cands[0]["pat"]["id"]
        local_names[name] = cands[0]["pat"].get("name")
        steps = []
        for conds, s, n in flow.pipeline(b["body"], lid, mutations=True):
            steps.append((tuple(conds), flow.strip_ids(s), tuple(sorted(set(portfolio_consts(b["body"], s))))))
        pipes[name] = steps
    # sibling equality
    ren = [(c, flow.rename_term(s, {"self.left": "self.right", local_names["left"]: local_names["right"]}), p) for c, s, p in pipes["left"]]
    ctx.add("FLOW-PIPE", "siblings", ren == pipes["right"], site, "the pipelines applied to left and right are identical up to renaming (%d steps each)" % len(pipes["left"]),
            construct=[(c, flow.callees_in(s), p) for c, s, p in pipes["left"]])
    for side in ("left", "right"):
        steps = pipes[side]
        ops = []
        for conds, s, consts in steps:
            cs = [c for c in dict.fromkeys(flow.expand_helpers(fx, expand_locals(b["body"], s, flow.callees_in))) if c not in ("Iterator::map", "Iterator::collect", "IntoIterator::into_iter", "Compose::compose", "slice::concat", "<[V]>::concat", "Concat::concat")]
            ops.append((tuple(k for k, pol in conds if pol), cs, consts))
        gi = [i for i, (c, cs, k) in enumerate(ops) if "Gamma::gamma" in cs]
        ctx.add("FLOW-PIPE", "%s:gamma-once" % side, len(gi) == 1 and ops[gi[0]][0] == (), site, "gamma is applied exactly once, unconditionally: steps %s" % gi)
        if len(gi) != 1:
            continue
        g = gi[0]
        init = ops[0]
        ctx.add("FLOW-PIPE", "%s:translation" % side, sorted(init[1]) == ["Mu::mu", "TauStar::tau_star"] and init[0] == (), site,
                "initial value is mu / tau-star of self.%s selected by formula_representation: %s" % (side, init[1]))
        before = ops[1:g]
        after = ops[g + 1:]
        pre_consts = sorted({k for _, _, ks in before for k in ks})
        post_consts = sorted({k for _, _, ks in after for k in ks})
        ctx.add("RW-2", "%s:pre-gamma" % side, set(pre_consts) <= {"INTUITIONISTIC", "HT"}, site,
                "portfolios applied before gamma: %s (only HT-sound ones allowed)" % pre_consts, construct=pre_consts)
        ctx.add("RW-2", "%s:post-gamma" % side, set(post_consts) <= {"INTUITIONISTIC", "HT", "CLASSIC"}, site, "portfolios applied after gamma: %s" % post_consts)
        # only simplification may precede gamma; only simplification and equivalence breaking may follow
        pre_ok = all(cs and set(cs) <= {"Apply::apply_fixpoint", "Apply::apply"} and c == ("self.simplify",) for c, cs, _ in before)
        post_ok = all((cs and set(cs) <= {"Apply::apply_fixpoint", "Apply::apply"} and c == ("self.simplify",)) or
                      (cs == ["ht::break_equivalences_theory"] and c == ("self.break_equivalences",)) for c, cs, _ in after)
        ctx.add("FLOW-PIPE", "%s:gated-steps" % side, pre_ok and post_ok, site,
                "steps around gamma are flag-gated simplification / equivalence breaking only: before %s, after %s" % (before, after))


def rule_transition(ctx):
    fx = ctx.facts
    # `hp -> tp` is stated for every predicate of either program: the collectors behind Program::predicates must reach every rule and body
    from .. import collect
    collect.check_asp_predicate_collectors(ctx, "COLLECT", fx)
    ev = sym.Eval(fx, inline_depth=0)
    ta = fx.fn("StrongEquivalenceTask::transition_axioms")
    v = ev.function(ta)
    # the theory's formulas: one image under F per predicate; F is a named function, a closure, or a later-extracted helper
    preds = F_ = None
    fm = dict(v[2]).get("formulas") if v[:2] == ("ctor", "Theory") else v      # a struct literal, or collected through FromIterator for Theory
    if isinstance(fm, tuple) and fm[:2] == ("call", "Iterator::map") and len(fm[2]) == 2:
        preds, F_ = fm[2]
    if F_ is None:
        raise AnalysisGap("transition_axioms: the formulas of the theory are not a map over the predicates")
    cands = [k for k in fx.bodies if F_[0] == "fn" and (k == F_[1] or k.endswith("::" + F_[1])) and len(fx.bodies[k]) == 1]
    if F_[0] == "fn" and len(cands) == 1:
        t = fx.bodies[cands[0]][0]
        tv = sym.Eval(fx, inline_depth=0).function(t, [("param", "p")])
    elif F_[0] == "closure" and len(F_[1]) == 1:
        t = ta
        tv = sym.subst(F_[2], {F_[1][0]: ("param", "p")})
    else:
        raise AnalysisGap("transition_axioms: unknown mapping function %r" % (F_[:2],))
    p = ("call", "From::from[Predicate<-Predicate]", (("param", "p"),))
    hp = ("call", "Here::here", (("call", "Predicate::to_formula", (p,)),))
    tp = ("call", "There::there", (("call", "Predicate::to_formula", (p,)),))
    ref = ("call", "Formula::quantify", (("ctor", "Formula::BinaryFormula", (("connective", ("ctor", "BinaryConnective::Implication", ())), ("lhs", hp), ("rhs", tp))),
                                          ("ctor", "Quantifier::Forall", ()), ("call", "Formula::free_variables", (hp,))))
    # hp and tp are copies of one atom p(X1..Xn): the universal closure of the implication binds the same variables as `forall free(hp)`
    ref2 = ("call", "Formula::universal_closure", (ref[2][0],))
    ctx.add("TPL", "transition", tv in (ref, ref2), ctx.site(t), "transition(p) = forall free(hp) (here(p(X..)) -> there(p(X..)))", construct=tv)
    sources = set()
    if preds is not None:
        for x in sym.subterms(preds):
            if isinstance(x, tuple) and x[:2] == ("call", "Program::predicates"):
                sources.add(x[2][0])
    PL, PR = ("call", "Program::predicates", (("place", "self.left"),)), ("call", "Program::predicates", (("place", "self.right"),))
    union = preds is not None and is_union(preds, {PL, PR})
    ctx.add("TPL", "transition-predicates", sources == {("place", "self.left"), ("place", "self.right")} and union, ctx.site(ta),
            "one transition axiom for every predicate of self.left or self.right (the union of both predicate sets): %s" % (sym.pretty(preds)[:300] if preds is not None else None), construct=preds)
    tf = fx.fn("sigma_0::Predicate::to_formula")
    v = ev.function(tf)
    ok = v[0] == "ctor" and "('place', 'self.symbol')" in repr(v) and "('place', 'self.arity')" in repr(v) and "'X{}'" in repr(v) and "GeneralTerm::Variable" in repr(v)
    ctx.add("TPL", "to_formula", ok, ctx.site(tf), "Predicate::to_formula = symbol(X1..Xarity) with distinct general variables", construct=v)
    # here/there prefixes are part of C05 (FRESH-LIT ii)


def is_union(t, leaves):
    """t denotes the union of exactly the sets in `leaves`: extend / chain / union / insert-all combinations only"""
    found = set()

    def go(x):
        if x in leaves:
            found.add(x)
            return True
        if not isinstance(x, tuple) or not x:
            return False
        if x[0] in ("acc",):
            return go(x[1])
        if x[0] == "upd" and x[2] in ("extend", "append"):
            return go(x[1]) and all(go(a) for a in x[3])
        if x[0] == "call" and x[1] in ("Iterator::chain", "IndexSet::union", "IndexSet::into_iter", "IndexSet::iter", "Iterator::cloned", "Iterator::collect", "Clone::clone", "IntoIterator::into_iter"):
            return all(go(a) for a in x[2])
        return False
    return go(t) and found == set(leaves)


def rule_gamma_shared(ctx):
    """the problems are gamma-images: the strong-equivalence claim rests on gamma being the reduction of C05, on every connective"""
    from . import c05
    sub = type(ctx)(ctx.prop, ctx.tier, ctx.facts)
    c05.rule_gamma(sub)
    # .. and on here() / there() renaming every atom to its h- / t-copy, whatever its name (Apply::apply reaches every node)
    c05.rule_apply(sub)
    c05.rule_prefix(sub)
    ctx.obls.extend(sub.obls)


def rule_symbol_order_shared(ctx):
    """the obligations are read over the standard interpretation of symbolic constants: the order axioms every problem carries must state the
    lexicographic order (C12's chain obligations), else a comparison between constants is evaluated the wrong way round"""
    from . import c12
    sub = type(ctx)(ctx.prop, ctx.tier, ctx.facts)
    c12.rule_chain(sub)
    ctx.obls.extend(sub.obls)


RULES = [rule_route, rule_pipe, rule_transition, rule_gamma_shared, rule_symbol_order_shared]
