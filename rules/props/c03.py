"""C03 — strong-equivalence obligations are refuted exactly by HT-distinguishing pairs."""
from ..facts import AnalysisGap, callee_generic, local_id_of, local_of, strip, walk
from .. import flow, hq, sym, tasks

EXPLANATION = (
    "FLOW-ROUTE: the two Problem builder chains of StrongEquivalenceTask::decompose are extracted (direction gate, theories added, role given by "
    "each annotate closure) with every theory traced back to self.left / self.right / transition_axioms; they must equal the reference table "
    "(forward: transition axioms + left as axioms, right as conjectures; backward: mirror) and each other's mirror image. FLOW-PIPE: the value "
    "pipelines of `left` and `right` (translation -> [simplify] -> gamma -> [simplify] -> [break]) are extracted and must be identical up to "
    "renaming, contain gamma exactly once and unconditionally, and select mu / tau-star by the same flag. RW-2: portfolios composed before gamma "
    "use only INTUITIONISTIC and HT; CLASSIC appears only after. TPL: transition(p) evaluates to forall free(hp) (here(p(X..)) -> there(p(X..))) "
    "and the predicate set is left.predicates() extended by right.predicates(). Decomposition dispatch per strategy. SHARED: the order of the file arguments decides left / right (C20's single-pass and role obligations); IDENT: predicates are set elements by symbol and arity (derived equality / order). SHARED: every member of the simplification portfolios is what its table says (C07's RW-1 / RW-2 obligations).")
UNDECIDED = ["that gamma-equivalence with the transition axioms coincides with strong equivalence (Pearce; Heuer) — literature",
             "truth of the emitted formulas in models", "gamma itself: C05; problem plumbing: C09 / C19"]
ASSUMPTIONS = ["the HT/intuitionistic validity of the members of INTUITIONISTIC and HT (decided separately under C07)"]

SELF = "verifying::task::strong_equivalence::StrongEquivalenceTask"
MIRROR = {"self.left": "self.right", "self.right": "self.left", "forward": "backward", "backward": "forward",
          "Direction::Forward": "Direction::Backward", "Direction::Backward": "Direction::Forward"}


def mirror_str(s):
    for a, b in (("Forward", "\0"), ("Backward", "Forward"), ("\0", "Backward"), ("left", "\0"), ("right", "left"), ("\0", "right"),
                 ("forward", "\0"), ("backward", "forward"), ("\0", "backward")):
        s = s.replace(a, b)
    return s


def rule_route(ctx):
    """which theory enters which problem in which role, decided on what decompose computes: the function is evaluated and every problem it
    builds is read off the result (`Problem::with_name(..)` followed by its `add_theory` steps), with the condition on `self.direction` under
    which it is built.  How the code is split into helpers, closures or loops does not matter."""
    fx = ctx.facts
    from .. import comp, leaves
    comp.use(fx)
    b = fx.fn("decompose", impl_self=SELF)
    site = ctx.site(b)
    ME = ("param", "$self")
    cv = comp.canon(sym.Eval(fx, inline_depth=0).function(b, [ME]))
    subs = [x for x in sym.subterms(cv) if isinstance(x, tuple) and x[:1] == ("call",) and len(x) == 3 and str(x[1]).startswith("Problem::")]

    def chain_of(t):
        """[(method, other args)] from the builder call inwards, and the name, when t is a builder chain on Problem::with_name(<literal>)"""
        steps = []
        while isinstance(t, tuple) and t[:1] == ("call",) and str(t[1]).startswith("Problem::") and t[2]:
            if t[1] == "Problem::with_name":
                return (steps[::-1], t[2][0][1]) if t[2][0][:1] == ("lit",) else None
            steps.append((t[1].split("::")[1], t[2][1:]))
            t = t[2][0]
        return None
    best = {}
    for x in subs:
        c = chain_of(x)
        if c and (c[1] not in best or len(c[0]) > len(best[c[1]][0])):
            best[c[1]] = (c[0], x)
    DIR = ("fieldof", ME, "direction")
    dirs = fx.variants("syntax_tree::fol::sigma_0::Direction")

    def sources(th):
        found = []
        # the transition theory is one source, whatever it is computed from (`self.transition_axioms()`, `Self::transition_axioms(&self.left,
        # &self.right)`): its arguments are not sources of the theory it is added as
        tcalls = [y for y in sym.subterms(th) if isinstance(y, tuple) and y[:2] == ("call", "StrongEquivalenceTask::transition_axioms")]
        th2 = th
        if tcalls:
            from .. import leaves as _lvs
            th2 = _lvs.replace(th, {y: ("call", "StrongEquivalenceTask::transition_axioms", ()) for y in tcalls})
        st = set(y for y in sym.subterms(th2) if isinstance(y, tuple))
        if ("fieldof", ME, "left") in st:
            found.append("self.left")
        if ("fieldof", ME, "right") in st:
            found.append("self.right")
        if any(y[:2] == ("call", "StrongEquivalenceTask::transition_axioms") for y in st):
            found.append("StrongEquivalenceTask::transition_axioms")
        return tuple(found)

    def role_of(cl):
        if not (isinstance(cl, tuple) and cl[:1] == ("closure",)):
            return None, None
        roles = [y[2] for y in sym.subterms(cl[2]) if isinstance(y, tuple) and len(y) == 3 and y[0] == "ctor" and str(y[1]).startswith("Role::")]
        af = [y for y in sym.subterms(cl[2]) if isinstance(y, tuple) and y[:2] == ("ctor", "AnnotatedFormula")]
        passthrough = bool(af) and dict(af[0][2]).get("formula") in tuple(("param", n_) for n_ in cl[1]) + tuple(("proj", ("param", n_), pth) for n_ in cl[1] for pth in ((("tuple", "1"),),))
        rs = [y[1].split("::")[1] for y in sym.subterms(cl[2]) if isinstance(y, tuple) and y[:1] == ("ctor",) and str(y[1]).startswith("Role::")]
        return (rs[0] if len(set(rs)) == 1 else None), passthrough

    def gate_of(top):
        """the directions under which the problem built by `top` is emitted: every group of the result that holds it, its facts evaluated per direction"""
        held = []

        def groups_in(t):
            if isinstance(t, tuple) and t[:1] == ("coll",) and len(t) == 2:
                for src, alts in t[1]:
                    for ts, e in alts:
                        if top in set(y for y in sym.subterms((src, e)) if isinstance(y, tuple)):
                            held.append(ts)
                        groups_in(e)
                    for s_ in src:
                        groups_in(s_)
            elif isinstance(t, tuple):
                for y in t:
                    groups_in(y)
        groups_in(cv)
        out = set()
        for ts in held:
            # the facts about the direction (those about the decomposition strategy split the same problem further and are decided by
            # FLOW-ROUTE:decomposition); a fact that mixes the direction with something else is not understood
            mine = []
            for t_ in ts:
                at_ = []
                leaves.test_atoms(t_, at_)
                on_dir = [a_[0] == "t" and a_[1][0] == "is" and a_[1][1] == DIR for a_ in at_]
                if all(on_dir):
                    mine.append((t_, at_))
                elif any(on_dir):
                    return None
            for d_ in dirs:
                asg = {a_: a_[1][2] == "Direction::" + d_ for _, at_ in mine for a_ in at_}
                if all(leaves.test_holds(t_, asg) for t_, _ in mine):
                    out.add(d_)
        return out if held else None
    table = {}
    for name, (steps, top) in best.items():
        rows, tail, order = [], [], ["with_name"]
        for m_, args_ in steps:
            order.append(m_)
            if m_ == "add_theory" and len(args_) == 2:
                r_, pt_ = role_of(args_[1])
                rows.append((sources(args_[0]), r_, pt_))
            elif not m_.startswith("decompose"):
                tail.append(m_)
        adds = [i_ for i_, m_ in enumerate(order) if m_.startswith("add_")]
        rest = [i_ for i_, m_ in enumerate(order) if not m_.startswith("add_") and m_ != "with_name" and not m_.startswith("decompose")]
        table[name] = {"gate": gate_of(top), "rows": rows, "tail": tail, "tail_after_adds": bool(adds) and bool(rest) and max(adds) < min(rest), "order": order,
                       "decomposed": [m_ for m_ in order if m_.startswith("decompose")]}
    ref = {
        "forward": {"gate": {"Forward", "Universal"},
                    "rows": [(("StrongEquivalenceTask::transition_axioms",), "Axiom", True), (("self.left",), "Axiom", True), (("self.right",), "Conjecture", True)]},
        "backward": {"gate": {"Backward", "Universal"},
                     "rows": [(("StrongEquivalenceTask::transition_axioms",), "Axiom", True), (("self.right",), "Axiom", True), (("self.left",), "Conjecture", True)]},
    }
    ctx.add("FLOW-ROUTE", "problems", sorted(table) == sorted(ref), site, "problem builder chains found: %s" % sorted(table))
    for name, r in ref.items():
        got = table.get(name)
        if not got:
            continue
        ctx.add("FLOW-ROUTE", "%s:gate" % name, got["gate"] == r["gate"], site, "problem `%s` is emitted iff self.direction is one of %s (reference %s)" % (name, sorted(got["gate"] or []), sorted(r["gate"])))
        # axioms: as sets (order of axioms is immaterial), conjectures exact
        ax = sorted(x for x in got["rows"] if x[1] == "Axiom")
        cj = sorted(x for x in got["rows"] if x[1] == "Conjecture")
        rax = sorted(x for x in r["rows"] if x[1] == "Axiom")
        rcj = sorted(x for x in r["rows"] if x[1] == "Conjecture")
        ctx.add("FLOW-ROUTE", "%s:axioms" % name, ax == rax, site, "axioms of `%s` come from %s (reference %s)" % (name, ax, rax), construct=got["rows"])
        ctx.add("FLOW-ROUTE", "%s:conjectures" % name, cj == rcj and len(got["rows"]) == 3, site, "conjectures of `%s` come from %s (reference %s)" % (name, cj, rcj))
        ctx.add("FLOW-PIPE", "%s:plumbing" % name, got["tail"] == ["rename_conflicting_symbols", "create_unique_formula_names"] and got["tail_after_adds"], site,
                "conflicting symbols are renamed and formula names made unique once, after every theory (axioms and conjectures) has been added: %s" % got["order"])
    if "forward" in table and "backward" in table:
        f, bk = table["forward"], table["backward"]
        mf = [(tuple(MIRROR.get(o, o) for o in orig), role, pt) for orig, role, pt in f["rows"]]
        mg = {{"Forward": "Backward", "Backward": "Forward"}.get(d_, d_) for d_ in (f["gate"] or ())}
        ctx.add("FLOW-ROUTE", "mirror", sorted(mf) == sorted(bk["rows"]) and mg == (bk["gate"] or set()),
                site, "the backward problem is the mirror image of the forward problem under left<->right, forward<->backward")
    # decomposition dispatch
    from .. import tasks as _tasks
    disp = _tasks.decomposition_dispatch(fx, b["body"])
    ctx.add("FLOW-ROUTE", "decomposition", disp == [("Decomposition::Independent", ["decompose_independent"]), ("Decomposition::Sequential", ["decompose_sequential"])],
            site, "strategy dispatch: %s" % disp)


def expand_locals(body, t, what):
    """`what`(term) collected over t and, transitively, over the initialisers of the locals it mentions (portfolios, local closures)."""
    out = list(what(t))
    lets = hq.let_by_id(body)
    seen = set()
    todo = list(flow.locals_in(t))
    while todo:
        name, lid = todo.pop()
        if lid in seen or lid not in lets or "init" not in lets[lid]:
            continue
        seen.add(lid)
        st = flow.summ(lets[lid]["init"])
        out.extend(what(st))
        todo.extend(flow.locals_in(st))
        # a closure's body is not part of the summary of the closure expression: descend into it
        init = strip(lets[lid]["init"])
        if init.get("k") == "Closure":
            sb = flow.summ(init["body"])
            out.extend(what(sb))
            todo.extend(flow.locals_in(sb))
    return out


def portfolio_consts(body, t):
    """Constants of the portfolios referenced (through locals such as `portfolio`, or through a local closure) inside a summary term."""
    return expand_locals(body, t, flow.consts_in)


def rule_pipe(ctx):
    fx = ctx.facts
    b = fx.fn("decompose", impl_self=SELF)
    site = ctx.site(b)
    lets = hq.lets(b["body"])
    pipes = {}
    local_names = {}
    for name in ("left", "right"):
        # the local by its role: the one initialised from self.<side>, whatever it is called
        other = "right" if name == "left" else "left"
        cands = [l for ls_ in lets.values() for l in ls_ if l["pat"].get("p") == "Bind" and "self.%s" % name in flow.places_in(flow.summ(l.get("init", {"k": "Lit"})))
                 and "self.%s" % other not in flow.places_in(flow.summ(l.get("init", {"k": "Lit"})))]      # (a local fed by both sides is the transition theory)
        if len(cands) != 1:
            raise AnalysisGap("decompose: no unique local initialised from self.%s" % name)
        lid = cands[0]["pat"]["id"]
        local_names[name] = cands[0]["pat"].get("name")
        steps = []
        for conds, s, n in flow.pipeline(b["body"], lid, mutations=True):
            steps.append((tuple(conds), flow.strip_ids(s), tuple(sorted(set(portfolio_consts(b["body"], s))))))
        pipes[name] = steps
    # sibling equality
    ren = [(c, flow.rename_term(s, {"self.left": "self.right", local_names["left"]: local_names["right"]}), p) for c, s, p in pipes["left"]]
    ctx.add("FLOW-PIPE", "siblings", ren == pipes["right"], site, "the pipelines applied to left and right are identical up to renaming (%d steps each)" % len(pipes["left"]),
            construct=[(c, flow.callees_in(s), p) for c, s, p in pipes["left"]])
    for side in ("left", "right"):
        steps = pipes[side]
        ops = []
        for conds, s, consts in steps:
            cs = [c for c in dict.fromkeys(flow.expand_helpers(fx, expand_locals(b["body"], s, flow.callees_in))) if c not in ("Iterator::map", "Iterator::collect", "IntoIterator::into_iter", "Compose::compose", "slice::concat", "<[V]>::concat", "Concat::concat")]
            ops.append((tuple(k for k, pol in conds if pol), cs, consts))
        gi = [i for i, (c, cs, k) in enumerate(ops) if "Gamma::gamma" in cs]
        ctx.add("FLOW-PIPE", "%s:gamma-once" % side, len(gi) == 1 and ops[gi[0]][0] == (), site, "gamma is applied exactly once, unconditionally: steps %s" % gi)
        if len(gi) != 1:
            continue
        g = gi[0]
        init = ops[0]
        ctx.add("FLOW-PIPE", "%s:translation" % side, sorted(init[1]) == ["Mu::mu", "TauStar::tau_star"] and init[0] == (), site,
                "initial value is mu / tau-star of self.%s selected by formula_representation: %s" % (side, init[1]))
        before = ops[1:g]
        after = ops[g + 1:]
        pre_consts = sorted({k for _, _, ks in before for k in ks})
        post_consts = sorted({k for _, _, ks in after for k in ks})
        ctx.add("RW-2", "%s:pre-gamma" % side, set(pre_consts) <= {"INTUITIONISTIC", "HT"}, site,
                "portfolios applied before gamma: %s (only HT-sound ones allowed)" % pre_consts, construct=pre_consts)
        ctx.add("RW-2", "%s:post-gamma" % side, set(post_consts) <= {"INTUITIONISTIC", "HT", "CLASSIC"}, site, "portfolios applied after gamma: %s" % post_consts)
        # only simplification may precede gamma; only simplification and equivalence breaking may follow
        pre_ok = all(cs and set(cs) <= {"Apply::apply_fixpoint", "Apply::apply"} and c == ("self.simplify",) for c, cs, _ in before)
        post_ok = all((cs and set(cs) <= {"Apply::apply_fixpoint", "Apply::apply"} and c == ("self.simplify",)) or
                      (cs == ["ht::break_equivalences_theory"] and c == ("self.break_equivalences",)) for c, cs, _ in after)
        ctx.add("FLOW-PIPE", "%s:gated-steps" % side, pre_ok and post_ok, site,
                "steps around gamma are flag-gated simplification / equivalence breaking only: before %s, after %s" % (before, after))


def rule_transition(ctx):
    fx = ctx.facts
    # `hp -> tp` is stated for every predicate of either program: the collectors behind Program::predicates must reach every rule and body
    from .. import collect
    collect.check_asp_predicate_collectors(ctx, "COLLECT", fx)
    ev = sym.Eval(fx, inline_depth=0)
    ta = fx.fn("StrongEquivalenceTask::transition_axioms")
    if len(ta.get("params", [])) == 2 and not any(q_.get("name") == "self" for q_ in ta["params"]):
        # an associated function of the two programs: evaluated on what its call in decompose hands it, which must be (self.left, self.right)
        dec_ = fx.fn("decompose", impl_self=SELF)
        calls_ = [c_ for c_ in hq.calls(dec_["body"], "StrongEquivalenceTask::transition_axioms")]
        args_ok = len(calls_) == 1 and [hq.render(strip(a_)).lstrip("&").replace("(", "").replace(")", "") for a_ in calls_[0]["args"]] == ["self.left", "self.right"]
        if not args_ok:
            raise AnalysisGap("transition_axioms(a, b) is not called once with (self.left, self.right)")
        v = ev.function(ta, [("place", "self.left"), ("place", "self.right")])
    else:
        v = ev.function(ta)
    # the theory's formulas: one image under F per predicate; F is a named function, a closure, or a later-extracted helper
    preds = F_ = None
    fm = dict(v[2]).get("formulas") if v[:2] == ("ctor", "Theory") else v      # a struct literal, or collected through FromIterator for Theory
    if isinstance(fm, tuple) and fm[:2] == ("call", "Iterator::map") and len(fm[2]) == 2:
        preds, F_ = fm[2]
    if F_ is None:
        raise AnalysisGap("transition_axioms: the formulas of the theory are not a map over the predicates")
    # `preds.map(G).map(F)` is `preds.map(|p| F(G(p)))`
    inner_fns = []
    while isinstance(preds, tuple) and preds[:2] == ("call", "Iterator::map") and len(preds[2]) == 2 and preds[2][1][:1] in (("fn",), ("closure",)):
        inner_fns.insert(0, preds[2][1])
        preds = preds[2][0]
    arg_p = ("param", "p")
    for g_ in inner_fns:
        if g_[0] == "fn":
            arg_p = ("call", "From::from[Predicate<-Predicate]" if str(g_[1]).split("::")[-1] == "from" else g_[1], (arg_p,))
        elif len(g_[1]) == 1:
            arg_p = sym.subst(g_[2], {g_[1][0]: arg_p})
        else:
            raise AnalysisGap("transition_axioms: unknown mapping function %r" % (g_[:2],))
    cands = [k for k in fx.bodies if F_[0] == "fn" and (k == F_[1] or k.endswith("::" + F_[1])) and len(fx.bodies[k]) == 1]
    if F_[0] == "fn" and len(cands) == 1:
        t = fx.bodies[cands[0]][0]
        tv = sym.Eval(fx, inline_depth=0).function(t, [arg_p])
    elif F_[0] == "closure" and len(F_[1]) == 1:
        t = ta
        tv = sym.subst(F_[2], {F_[1][0]: arg_p})
    else:
        raise AnalysisGap("transition_axioms: unknown mapping function %r" % (F_[:2],))
    p = ("call", "From::from[Predicate<-Predicate]", (("param", "p"),))
    hp = ("call", "Here::here", (("call", "Predicate::to_formula", (p,)),))
    tp = ("call", "There::there", (("call", "Predicate::to_formula", (p,)),))
    ref = ("call", "Formula::quantify", (("ctor", "Formula::BinaryFormula", (("connective", ("ctor", "BinaryConnective::Implication", ())), ("lhs", hp), ("rhs", tp))),
                                          ("ctor", "Quantifier::Forall", ()), ("call", "Formula::free_variables", (hp,))))
    # hp and tp are copies of one atom p(X1..Xn): the universal closure of the implication binds the same variables as `forall free(hp)`
    ref2 = ("call", "Formula::universal_closure", (ref[2][0],))
    from .. import leaves as _lvt
    tv_n = _lvt.replace(tv, {("call", "Into::into", (("param", "p"),)): p, ("conv", "Predicate", ("param", "p")): p})
    ctx.add("TPL", "transition", tv in (ref, ref2) or tv_n in (ref, ref2), ctx.site(t), "transition(p) = forall free(hp) (here(p(X..)) -> there(p(X..)))", construct=tv)
    sources = set()
    if preds is not None:
        for x in sym.subterms(preds):
            if isinstance(x, tuple) and x[:2] == ("call", "Program::predicates"):
                sources.add(x[2][0])
    PL, PR = ("call", "Program::predicates", (("place", "self.left"),)), ("call", "Program::predicates", (("place", "self.right"),))
    union = preds is not None and is_union(preds, {PL, PR})
    ctx.add("TPL", "transition-predicates", sources == {("place", "self.left"), ("place", "self.right")} and union, ctx.site(ta),
            "one transition axiom for every predicate of self.left or self.right (the union of both predicate sets): %s" % (sym.pretty(preds)[:300] if preds is not None else None), construct=preds)
    tf = fx.fn("sigma_0::Predicate::to_formula")
    v = ev.function(tf)
    ok = v[0] == "ctor" and "('place', 'self.symbol')" in repr(v) and "('place', 'self.arity')" in repr(v) and "'X{}'" in repr(v) and "GeneralTerm::Variable" in repr(v)
    ctx.add("TPL", "to_formula", ok, ctx.site(tf), "Predicate::to_formula = symbol(X1..Xarity) with distinct general variables", construct=v)
    # here/there prefixes are part of C05 (FRESH-LIT ii)


def is_union(t, leaves):
    """t denotes the union of exactly the sets in `leaves`: extend / chain / union / insert-all combinations only"""
    found = set()

    def go(x):
        if x in leaves:
            found.add(x)
            return True
        if not isinstance(x, tuple) or not x:
            return False
        if x[0] in ("acc",):
            return go(x[1])
        if x[0] == "upd" and x[2] in ("extend", "append"):
            return go(x[1]) and all(go(a) for a in x[3])
        if x[0] == "call" and x[1] in ("Iterator::chain", "IndexSet::union", "IndexSet::into_iter", "IndexSet::iter", "Iterator::cloned", "Iterator::collect", "Clone::clone", "IntoIterator::into_iter"):
            return all(go(a) for a in x[2])
        return False
    return go(t) and found == set(leaves)


def rule_gamma_shared(ctx):
    """the problems are gamma-images: the strong-equivalence claim rests on gamma being the reduction of C05, on every connective"""
    from . import c05
    sub = type(ctx)(ctx.prop, ctx.tier, ctx.facts)
    c05.rule_gamma(sub)
    # .. and on here() / there() renaming every atom to its h- / t-copy, whatever its name (Apply::apply reaches every node)
    c05.rule_apply(sub)
    c05.rule_prefix(sub)
    ctx.obls.extend(sub.obls)


def rule_symbol_order_shared(ctx):
    """the obligations are read over the standard interpretation of symbolic constants: the order axioms every problem carries must state the
    lexicographic order (C12's chain obligations), else a comparison between constants is evaluated the wrong way round"""
    from . import c12
    sub = type(ctx)(ctx.prop, ctx.tier, ctx.facts)
    c12.rule_chain(sub)
    ctx.obls.extend(sub.obls)


def rule_argument_order_shared(ctx):
    """which program is the left one and which the right one is the order of the file arguments (C20's single pass over the arguments in
    the order given, directories sorted inside): forward / backward are claims about that pair"""
    from . import c20
    sub = type(ctx)(ctx.prop, ctx.tier, ctx.facts)
    c20.rule_det3(sub)
    c20.rule_flow_roles(sub)
    ctx.obls.extend(sub.obls)


def rule_identity(ctx):
    """items kept in sets are the same element exactly when all their fields agree: see collect.check_structural_identity"""
    from .. import collect as _collect
    _collect.check_structural_identity(ctx, "IDENT", ctx.facts)


def rule_portfolios_shared(ctx):
    """the rewrites applied before gamma must be here-and-there equivalences: the members of the portfolios are checked rule by rule (C07's
    truth-table and membership obligations) - a classical-only rule such as `not not F => F` in the HT table changes the HT models"""
    from . import c07
    sub = type(ctx)(ctx.prop, ctx.tier, ctx.facts)
    c07.rule_rw1(sub)
    ctx.obls.extend(sub.obls)


RULES = [rule_route, rule_pipe, rule_transition, rule_gamma_shared, rule_symbol_order_shared, rule_argument_order_shared, rule_identity, rule_portfolios_shared]
