"""C20 — the role of each input file depends only on its extension and argument order."""
from ..facts import AnalysisGap, callee, callee_generic, ctor_of, local_of, strip, walk
from .. import hq, sym

EXPLANATION = (
    "Static rules over the typed HIR of command_line/files.rs and the Verify arm of command_line::procedures::main. "
    "TAB-EXT: Files::sort is evaluated symbolically with every write into a bucket recorded (path condition, canonical loop nest, arguments): "
    "there is exactly one, a Vec::push of the walked entry's path, conditional only on the entry being a regular file, into the bucket chosen by "
    "the decision tree over Path::extension of that same path, which must be the documented table (lp/spec/ug/po, everything else ignored). "
    "DET-3: the loop nest of that write is `every argument in order, then WalkDir::new(argument).sort_by_file_name()` (nested loops and map / "
    "flat_map chains are the same nest), it is the only pass over the arguments, and WalkDir::new occurs nowhere else. TAB-ACC: each accessor "
    "(left/right/specification/program/user_guide/proof_outline) is evaluated on every combination of bucket lengths (lists of distinct tokens) and "
    "must yield the file of the role table. FLOW-ROLE: in the Verify arm each task field is fed (possibly through named locals) by exactly the "
    "accessor of its role through the parser of the matching node type, the Either tags of specification() are preserved, and no other accessor is "
    "used. The sibling-pipeline / mirrored-routing obligations of C03 are run here too (swapping the programs swaps axioms and conjectures). Decides the structural clauses for every argument list; "
    "does not decide walkdir's own behaviour. SHARED: the transition axioms range over the predicates of both files (C03's transition obligations).")
UNDECIDED = ["file-system behaviour of the walkdir library (entry order inside a directory relies on its sort_by_file_name)",
             "that swapping programs swaps axioms/conjectures — decided as mirror symmetry under C03 (strong) and C02 (external)"]
ASSUMPTIONS = ["walkdir::WalkDir::sort_by_file_name orders directory entries by file name", "rustc name resolution and type check"]

FILES = "command_line::files::Files"
REF_EXT = {"lp": "programs", "spec": "specifications", "ug": "user_guides", "po": "proof_outlines"}


def sort_pushes(ctx):
    """Files::sort evaluated symbolically: the pushes into the buckets with their path conditions and loop nests (helpers extracted from
    Files::sort are inlined; nested loops and map / flat_map chains are one canonical nest)"""
    from .. import sym, leaves
    fx = ctx.facts
    b = fx.fn("Files::sort")
    ev = sym.Eval(fx)
    ev.effect_calls = {"Vec::push", "Vec::insert", "Vec::extend", "VecDeque::push_front", "Vec::append"}
    value = ev.function(b)
    outs = []
    for conds, loops, eff in ev.out:
        if eff[0] != "emit" or eff[1] not in ev.effect_calls:
            continue
        nest, mapping, flt = leaves.loop_nest_filtered(loops)
        cv = lambda t: leaves.strip_acc(leaves.replace(t, mapping))
        flt = [f_ for f_ in flt if not (isinstance(f_[0], tuple) and f_[0][:2] == ("call", "Option::is_some"))]     # `filter_map` keeps what `_per_arm` keeps
        outs.append(_per_arm({"conds": [(cv(c), pol) for c, pol in list(conds) + flt], "nest": [leaves.strip_acc(n) for n in nest], "raw_loops": len(loops), "callee": eff[1],
                              "args": tuple(cv(a) for a in eff[2])}))
    return b, value, outs


def _per_arm(o):
    """the pushed value taken apart by the cases of the walked element: `filter_map(|e| match e { Ok(e) if is_file => Some(Ok(path)), Ok(_) =>
    None, Err(x) => Some(Err(x)) })` followed by `path?` pushes `path` of an Ok file entry, leaves with the error, and skips the rest - the
    same as `let e = e?; if is_file { push(path) }`.  Ok-projections of the walked element are written as the element after `?`."""
    from .. import sym, leaves, comp
    if len(o["args"]) < 2 or not o["nest"]:
        return o
    raw = o["args"][1]
    ELEM = ("each", o["nest"][-1])
    try:
        lv = leaves.leaves(leaves.lift(comp.decide_literals(comp.case_of_case(leaves.lift_proj(raw)))))
    except Exception:
        return o
    if len(lv) <= 1:
        return o
    vals, errs = [], []
    for ts, x in lv:
        x = comp.decide_literals(x)
        if any(isinstance(y, tuple) and y[:1] == ("proj",) and y[1] == ("ctor", "Option::None", ()) for y in sym.subterms(x)):
            continue                    # not yielded by the filter_map
        if isinstance(x, tuple) and x[:1] == ("try",) and isinstance(x[1], tuple) and x[1][:2] == ("ctor", "Result::Err"):
            errs.append((ts, x))
            continue
        vals.append((ts, x))
    if len(vals) != 1:
        return o

    def conv(t):
        if not isinstance(t, tuple):
            return t
        if t[:1] == ("proj",) and len(t) == 3 and t[1] == ELEM and t[2][:1] == (("Result::Ok", "0"),):
            return ("proj", ("try", ELEM), t[2][1:]) if t[2][1:] else ("try", ELEM)
        return tuple(conv(x) for x in t)
    ts, x = vals[0]
    newpath = conv(x)
    o2 = dict(o)
    o2["args"] = (leaves.replace(o["args"][0], {raw: newpath}), newpath) + tuple(o["args"][2:])
    o2["facts"] = [conv(t) for t in ts if t != ("is", ELEM, "Result::Ok")]
    o2["error_exit"] = bool(errs) and all(ELEM in set(sym.subterms(e_[1])) for e_ in errs)
    return o2


def rule_ext_table(ctx):
    from .. import sym, leaves
    b, value, outs = sort_pushes(ctx)
    site = ctx.site(b)
    bucket_names = set(REF_EXT.values()) | {"other"}

    def is_bucket_write(o):
        return any(isinstance(t, tuple) and t[:1] == ("fieldof",) and t[2] in bucket_names for t in sym.subterms(o["args"][0]))
    writes = [o for o in outs if is_bucket_write(o)]
    if len(writes) != 1:
        raise AnalysisGap("Files::sort: expected exactly one write into the buckets, found %d" % len(writes))
    o = writes[0]
    recv, path = o["args"][0], o["args"][1] if len(o["args"]) > 1 else None
    from .. import comp as _comp
    _comp.use(ctx.facts)
    recv = _comp.decide_literals(_comp.case_of_case(recv))      # a table in two steps (extension -> role -> bucket) is one table
    lv = leaves.leaves(recv)
    table, default, bases, subjects = {}, [], set(), set()
    for ts, v in lv:
        if not (isinstance(v, tuple) and v[:1] == ("fieldof",)):
            ctx.bad("TAB-EXT", "arm:%s" % (ts,), site, "arm does not evaluate to a bucket field of the result")
            continue
        bases.add(v[1])
        eqs = [t for t in ts if t[0] == "eq"]
        for t in ts:
            if t[0] == "is":
                subjects.add(t[1])
            if t[0] == "or":
                for alt in t[1]:
                    for x in alt:
                        if x[0] == "is":
                            subjects.add(x[1])
        if len(eqs) == 1 and isinstance(eqs[0][2], str):
            table[eqs[0][2]] = v[2]
            subjects.add(eqs[0][1][1] if eqs[0][1][:1] == ("proj",) else eqs[0][1])
        elif not eqs:
            default.append((str(ts), v[2]))
        else:
            ctx.bad("TAB-EXT", "arm:%s" % (ts,), site, "arm tests more than the extension")
    for ext, bucket in REF_EXT.items():
        got = table.get(ext)
        ctx.add("TAB-EXT", "ext:%s" % ext, got == bucket, site,
                "extension .%s -> %s (reference: %s)" % (ext, got, bucket), construct={"ext": ext, "bucket": got})
    for ext, bucket in table.items():
        if ext not in REF_EXT:
            # an additional extension is fine only if it does not feed a role bucket
            ctx.add("TAB-EXT", "extra:%s" % ext, bucket == "other", site, "undocumented extension .%s feeds bucket %s" % (ext, bucket))
    ctx.add("TAB-EXT", "default", bool(default) and all(bk == "other" for _, bk in default), site,
            "files with other / no extension go to: %s" % sorted({bk for _, bk in default}), construct=default)
    # the scrutinee is the extension of the very path that is pushed
    want = ("call", "Option::and_then", (("call", "Path::extension", (path,)), ("fn", "OsStr::to_str")))
    ctx.add("TAB-EXT", "scrutinee", subjects == {want}, site, "the bucket is chosen by Path::extension (as str) of the path that is pushed: %s" % [sym.pretty(x)[:120] for x in subjects])
    ctx.add("TAB-EXT", "push", o["callee"] == "Vec::push" and len(bases) == 1, site,
            "the chosen bucket receives the path through Vec::push (append keeps encounter order): %s" % o["callee"])
    # only regular files are bucketed, errors are propagated
    elem = ("each", o["nest"][-1]) if o["nest"] else None
    entry = ("try", elem)
    ctx.add("TAB-EXT", "pushed-path", path == ("call", "DirEntry::into_path", (entry,)), site, "the pushed path is the path of the walked entry: %s" % sym.pretty(path)[:160])
    from .. import leaves as _lv

    def facts_of(conds):
        out = []
        for c, pol in conds:
            r = _lv.cond_tests(c, pol)
            if r is False:
                return None
            out += [t[1] if t[0] == "survived" else t for t in r]
        return sorted(set(out), key=_lv.stable_key)
    got_facts = facts_of([c_[:2] for c_ in o["conds"]])
    if "facts" in o and got_facts is not None:
        got_facts = sorted(set(got_facts) | {_lv.norm(t_) if False else t_ for t_ in o["facts"]}, key=_lv.stable_key)
    ctx.add("TAB-EXT", "files-only", got_facts == [("cond", _lv.norm(("call", "FileType::is_file", (("call", "DirEntry::file_type", (entry,)),))), True)], site,
            "the only condition on bucketing an entry is that it is a regular file: %s" % [sym.pretty(c)[:100] for c, _ in o["conds"]])
    ctx.add("FLOW-ERR", "Files::sort:walkdir-error", entry in set(sym.subterms(path)) and o.get("error_exit", True), site, "walkdir errors are propagated with `?` before the entry is used")
    ctx.count("ext_arms", len(lv))


def rule_det3(ctx):
    from .. import sym
    fx = ctx.facts
    total_new = 0
    for body in fx.body_list + [bb for bb in fx.bin["bodies"]]:
        if body["def_path"] in fx.helpers:
            continue
        total_new += len(hq.fn_refs(body["body"], "WalkDir::new"))
    b, value, outs = sort_pushes(ctx)
    site = ctx.site(b)
    if not outs:
        raise AnalysisGap("Files::sort: no write into the buckets found")
    hir_loops = len(hq.for_loops(b["body"])) + len([c for m_ in ("for_each", "fold", "try_fold", "try_for_each") for c in hq.calls(b["body"], method=m_)])
    nests = {tuple(o["nest"]) for o in outs}
    ctx.add("DET-3", "single-pass", len(nests) == 1 and all(o["raw_loops"] == hir_loops for o in outs), site,
            "the paths are bucketed in one pass over the argument list (loops in Files::sort: %d, all of them enclose the write); a second pass lets "
            "one kind of argument overtake another" % hir_loops)
    params = [("param", p.get("name")) for p in b["params"]]
    nest = list(sorted(nests, key=len)[-1])
    want = [params[0], ("call", "WalkDir::sort_by_file_name", (("call", "WalkDir::new", (("each", params[0]),)),))] if params else None
    ctx.add("DET-3", "walkdir-sorted", nest == want and total_new == 1, site,
            "the loop nest is: every argument in order, then WalkDir::new(argument).sort_by_file_name() (WalkDir::new references in the crate: %d): %s"
            % (total_new, [sym.pretty(n)[:140] for n in nest]))
    ctx.add("DET-3", "argument-order", bool(nest) and nest[0] == (params[0] if params else None), site,
            "the argument list itself is consumed in order (no sort / rev / filter on it): outermost iterable %s" % (sym.pretty(nest[0])[:100] if nest else None))


BUCKETS = ["specifications", "programs", "user_guides", "proof_outlines", "other"]


def _first(l):
    return ("Some", l[0]) if l else ("None",)


def _get(l, i):
    return ("Some", l[i]) if len(l) > i else ("None",)


def _either(tag, o):
    return ("Some", ("ctor", "Either::" + tag, (("0", o[1]),))) if o != ("None",) else o


SPEC_TAGS = {}      # tag of a two-variant result type of Files::specification other than Either -> the Either side it stands for


def _role_tag(v):
    """Files::specification may answer with a type of its own instead of Either: the variant that carries a program file stands for Left, the
    one that carries a specification file for Right (fixed at the first answer that shows it; an inconsistent use shows as a wrong tag later)"""
    if isinstance(v, tuple) and v[:1] == ("Some",) and isinstance(v[1], tuple) and v[1][:1] == ("ctor",) and not v[1][1].startswith("Either::") and len(v[1][2]) == 1:
        tag, payload = v[1][1], v[1][2][0][1]
        side = "Either::Left" if str(payload).startswith("programs[") else ("Either::Right" if str(payload).startswith("specifications[") else None)
        if side is not None and tag not in SPEC_TAGS and side not in SPEC_TAGS.values():
            SPEC_TAGS[tag] = side
        if tag in SPEC_TAGS:
            return ("Some", ("ctor", SPEC_TAGS[tag], v[1][2]))
    return v


# the role table: which file (bucket, position) each accessor yields, as a function of the bucket contents
REF_ACC = {
    "left": lambda b: _first(b["programs"]),
    "right": lambda b: _get(b["programs"], 1),
    "specification": lambda b: _either("Right", _first(b["specifications"])) if b["specifications"] else _either("Left", _first(b["programs"])),
    "program": lambda b: _get(b["programs"], 1) if not b["specifications"] else _first(b["programs"]),
    "user_guide": lambda b: _first(b["user_guides"]),
    "proof_outline": lambda b: _first(b["proof_outlines"]),
}


def rule_accessors(ctx):
    """every accessor is evaluated on every combination of bucket lengths (lists of distinct tokens) and must yield the file of the role table"""
    import itertools
    from .. import sym, absval
    fx = ctx.facts
    for name, ref in REF_ACC.items():
        b = fx.fn("Files::" + name)
        ev = sym.Eval(fx, inline_depth=4, inline=lambda dp: "::files::Files::" in dp)
        term = ev.function(b)
        lits = [x[1] for x in sym.subterms(term) if isinstance(x, tuple) and x[:1] == ("lit",) and len(x) == 2 and isinstance(x[1], int) and not isinstance(x[1], bool)]
        top = max([1] + [abs(v) for v in lits]) + 2
        bad = None
        n = 0
        try:
            for lens in itertools.product(range(0, top + 1), range(0, top + 1), (0, 1, 2), (0, 1, 2), (0, 1)):
                buckets = {bk: ["%s[%d]" % (bk, i) for i in range(l)] for bk, l in zip(BUCKETS, lens)}
                env = {}
                for bk, l in buckets.items():
                    env[("place", "self." + bk)] = l
                    env[("fieldof", ("param", "self"), bk)] = l
                got = absval.evaluate(term, env)
                n += 1
                if name == "specification":
                    got = _role_tag(got)
                if got != ref(buckets):
                    bad = (dict(zip(BUCKETS, lens)), got, ref(buckets))
                    break
        except absval.Unknown as e:
            ctx.gap("TAB-ACC", name, ctx.site(b), "accessor body outside the evaluator's model: %s" % e)
            continue
        ctx.add("TAB-ACC", name, bad is None, ctx.site(b),
                "Files::%s yields the file of the role table for all %d combinations of bucket lengths (up to %d)%s" % (
                    name, n, top, "" if bad is None else "; with lengths %s it yields %r, the role table says %r" % bad), construct=sym.pretty(term)[:400])


# task field -> (accessor, parser node type(s))
REF_FLOW = {
    ("StrongEquivalenceTask", "left"): ({"left"}, {"Program"}),
    ("StrongEquivalenceTask", "right"): ({"right"}, {"Program"}),
    ("ExternalEquivalenceTask", "specification"): ({"specification"}, {"Program", "Specification"}),
    ("ExternalEquivalenceTask", "program"): ({"program"}, {"Program"}),
    ("ExternalEquivalenceTask", "user_guide"): ({"user_guide"}, {"UserGuide"}),
    ("ExternalEquivalenceTask", "proof_outline"): ({"proof_outline"}, {"Specification"}),
}
ACCESSORS = set(REF_ACC)


def accessor_calls(e, body=None):
    out = set()
    for n in (hq.walk_through_locals(body, e) if body is not None else walk(e)):
        if n.get("k") == "MethodCall":
            c = callee(n) or ""
            if c.startswith(FILES + "::") or "::files::Files::" in c:
                out.add(hq.last(c))
    return out


def parser_types(e, body=None):
    out = set()
    for n in (hq.walk_through_locals(body, e) if body is not None else walk(e)):
        if n.get("k") == "Path" and "callee" in n and (n["callee"].endswith("Node::from_file") or n["callee"].endswith("Node::from_stdin")):
            # the function type names the node: fn(..) -> Result<T, ..>
            t = n.get("ty", "")
            for cand in ("Program", "Specification", "UserGuide", "Theory"):
                if "::%s," % cand in t or "::%s>" % cand in t or "::%s, " % cand in t:
                    out.add(cand)
    return out


def _either_tag(fx, arm):
    """the Either tag the value of a match arm carries: `Either::Left(parse(p)?)`, `parse(p).map(Either::Left)` (with or without `?`) .."""
    ev = sym.Eval(fx, inline_depth=0)
    env = {}
    ev.bind_pat(arm["pat"], ("param", "$scrutinee"), env)
    t = ev.expr(arm["body"], env, 0)
    for _ in range(4):
        if isinstance(t, tuple) and t[:1] == ("try",) and len(t) == 2:
            t = t[1]
        elif isinstance(t, tuple) and t[:2] == ("ctor", "Result::Ok") and t[2]:
            t = t[2][0][1]
        else:
            break
    if isinstance(t, tuple) and t[:1] == ("ctor",) and t[1].startswith("Either::"):
        return t[1].split("::")[1]
    if isinstance(t, tuple) and t[:2] in (("call", "Result::map"), ("call", "Option::map")) and len(t[2]) == 2:
        f = t[2][1]
        if f[:1] == ("ctorfn",) and f[1].startswith("Either::"):
            return f[1].split("::")[1]
        if f[:1] == ("closure",) and isinstance(f[2], tuple) and f[2][:1] == ("ctor",) and f[2][1].startswith("Either::"):
            return f[2][1].split("::")[1]
    return None


def rule_flow_roles(ctx):
    fx = ctx.facts
    b = fx.fn("command_line::procedures::main")
    site = ctx.site(b)
    found = 0
    for n in hq.nodes(b["body"], "Struct"):
        r = n.get("res", {})
        adt = hq.last(r.get("adt", ""))
        if adt not in ("StrongEquivalenceTask", "ExternalEquivalenceTask"):
            continue
        for f in n["fields"]:
            key = (adt, f["name"])
            if key not in REF_FLOW:
                # non-file fields must not touch the file accessors
                acc = accessor_calls(f["e"], b["body"])
                ctx.add("FLOW-ROLE", "%s.%s:no-file" % key, not acc, site, "flag field reads file accessors %s" % sorted(acc), nontrivial=False)
                continue
            found += 1
            acc, want_parsers = REF_FLOW[key]
            got_acc = accessor_calls(f["e"], b["body"])
            got_parsers = parser_types(f["e"], b["body"])
            ctx.add("FLOW-ROLE", "%s.%s" % key, got_acc == acc and got_parsers == want_parsers, ctx.site(b, f["e"]),
                    "field %s.%s is fed by Files::%s through parser(s) %s (reference: %s via %s)" % (
                        adt, f["name"], sorted(got_acc), sorted(got_parsers), sorted(acc), sorted(want_parsers)),
                    construct={"accessors": sorted(got_acc), "parsers": sorted(got_parsers)})
            if key == ("ExternalEquivalenceTask", "specification"):
                # Either tags preserved: Left(p) -> Left(Program::from_file(p)), Right(s) -> Right(Specification::from_file(s))
                ms = [m for m in hq.walk_through_locals(b["body"], f["e"]) if m.get("k") == "Match" and m.get("src") == "Normal"]
                ok = False
                detail = []
                for m in ms:
                    rows = []
                    for a in m["arms"]:
                        pk = hq.pat_key(a["pat"])
                        body = strip(a["body"])
                        if pk == "Option::None" and sym.diverges(a["body"]):
                            continue          # `match files.specification() { None => return Err(..), Some(Left(p)) => .., Some(Right(s)) => .. }`
                        if pk.startswith("Option::Some(") and pk.endswith(")"):
                            pk = pk[len("Option::Some("):-1]
                        rows.append((pk, _either_tag(fx, a), sorted(parser_types(body))))
                    detail.append(rows)
                    if not SPEC_TAGS and not any(pk_.startswith("Either::") for pk_, _, _ in rows):
                        try:
                            rule_accessors(type(ctx)(ctx.prop, ctx.tier, ctx.facts))      # fixes the tags (this rule may run embedded in another property)
                        except Exception:
                            pass
                    if SPEC_TAGS and not any(pk_.startswith("Either::") for pk_, _, _ in rows):
                        # the accessor's own result type: its tags stand for the Either sides the accessor table (TAB-ACC:specification) fixed
                        rows = [(SPEC_TAGS.get(pk_.split("(")[0], pk_.split("(")[0]) + "(_)" if pk_.endswith("(_)") else pk_, t_, ps_) for pk_, t_, ps_ in rows]
                    if sorted(rows) == sorted([("Either::Left(_)", "Left", ["Program"]), ("Either::Right(_)", "Right", ["Specification"])]):
                        ok = True
                ctx.add("FLOW-ROLE", "specification:either-tags", ok, site,
                        "Either::Left (program as specification) is parsed as a program, Either::Right as a specification: %s" % detail)
    ctx.floor("FLOW-ROLE", "task_file_fields", found, 6)
    # Files::sort feeds `files`, and nothing else constructs a Files
    sorts = hq.calls(b["body"], "Files::sort")
    ctx.add("FLOW-ROLE", "files-from-sort", len(sorts) == 1, site, "Files::sort called once in main (%d)" % len(sorts))
    if sorts:
        a = strip(sorts[0]["args"][0])
        ctx.add("FLOW-ROLE", "sort-arg", local_of(a) == "files" or local_of(a) is not None, site,
                "Files::sort receives the command-line list `%s` unmodified" % hq.render(a))


def rule_mirror_shared(ctx):
    """`swapping the two programs swaps exactly axioms and conjectures`: the two sides go through sibling pipelines and mirrored routing (C03)"""
    from . import c03
    sub = type(ctx)(ctx.prop, ctx.tier, ctx.facts)
    c03.rule_route(sub)
    c03.rule_pipe(sub)
    ctx.obls.extend(o for o in sub.obls if o["key"].startswith(("FLOW-ROUTE:mirror", "FLOW-PIPE:siblings", "FLOW-PIPE:left", "FLOW-PIPE:right", "FLOW-ROUTE:forward", "FLOW-ROUTE:backward")))


def rule_roles_reach_the_checks(ctx):
    """a file's role decides which admission checks it gets (the second .lp is the program, the first .lp - without a .spec - the specification):
    each `ensure_*` must test the item it is handed, not a fixed field (C11's ensure templates and their enforcement)"""
    from . import c11
    sub = type(ctx)(ctx.prop, ctx.tier, ctx.facts)
    c11.rule_enforcement(sub)
    c11.rule_ensure_templates(sub)
    ctx.obls.extend(sub.obls)
    # .. and in strong equivalence both files contribute alike to what every problem assumes: the transition axioms range over the
    # predicates of the left *and* the right program (C03's transition obligations), so that swapping the files swaps the claims only
    from . import c03
    sub = type(ctx)(ctx.prop, ctx.tier, ctx.facts)
    c03.rule_transition(sub)
    ctx.obls.extend(sub.obls)


RULES = [rule_ext_table, rule_det3, rule_accessors, rule_flow_roles, rule_mirror_shared, rule_roles_reach_the_checks]
