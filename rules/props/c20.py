"""C20 — the role of each input file depends only on its extension and argument order."""
from ..facts import AnalysisGap, callee, callee_generic, ctor_of, local_of, strip, walk
from .. import hq

EXPLANATION = (
    "Static rules over the typed HIR of command_line/files.rs and the Verify arm of command_line::procedures::main. "
    "TAB-EXT: the extension->bucket match of Files::sort is extracted (string-literal patterns -> field of the result the path is pushed to) "
    "and compared with the documented table (lp/spec/ug/po, everything else ignored); the push must be unconditional on the bucket chosen and "
    "append (encounter order preserved). DET-3: every WalkDir::new in the crate is followed by sort_by_file_name in the same iterator chain, which "
    "is the iterable of the bucketing loop, and the argument list is consumed in order (into_iter/map/flat_map only). TAB-ACC: each accessor "
    "(left/right/specification/program/user_guide/proof_outline) is evaluated to (bucket, index) terms and compared with the role table. "
    "FLOW-ROLE: in the Verify arm each task field is fed by exactly the accessor of its role through the parser of the matching node type, "
    "the Either tags of specification() are preserved, and no other accessor is used. Decides the structural clauses for every argument list; "
    "does not decide walkdir's own behaviour.")
UNDECIDED = ["file-system behaviour of the walkdir library (entry order inside a directory relies on its sort_by_file_name)",
             "that swapping programs swaps axioms/conjectures — decided as mirror symmetry under C03 (strong) and C02 (external)"]
ASSUMPTIONS = ["walkdir::WalkDir::sort_by_file_name orders directory entries by file name", "rustc name resolution and type check"]

FILES = "command_line::files::Files"
REF_EXT = {"lp": "programs", "spec": "specifications", "ug": "user_guides", "po": "proof_outlines"}


def rule_ext_table(ctx):
    fx = ctx.facts
    b = fx.fn("Files::sort")
    site = ctx.site(b)
    # the match whose arms are string-literal Option patterns
    cands = []
    for m in hq.nodes(b["body"], "Match"):
        rows = hq.match_table(m, value=lambda e: hq.field_path(e))
        lits = [r for r in rows if r[0].startswith('Option::Some("')]
        if lits:
            cands.append((m, rows))
    if len(cands) != 1:
        raise AnalysisGap("Files::sort: expected exactly one extension match, found %d" % len(cands))
    m, rows = cands[0]
    table = {}
    default = []
    for key, val, arm in rows:
        if val is None:
            ctx.bad("TAB-EXT", "arm:%s" % key, site, "arm does not evaluate to a bucket field of the result")
            continue
        bucket = val.split(".", 1)[1] if "." in val else val
        if key.startswith('Option::Some("'):
            table[key[len('Option::Some("'):-2]] = bucket
        else:
            default.append((key, bucket))
    for ext, bucket in REF_EXT.items():
        got = table.get(ext)
        ctx.add("TAB-EXT", "ext:%s" % ext, got == bucket, site,
                "extension .%s -> %s (reference: %s)" % (ext, got, bucket), construct={"ext": ext, "bucket": got})
    for ext, bucket in table.items():
        if ext not in REF_EXT:
            # an additional extension is fine only if it does not feed a role bucket
            ctx.add("TAB-EXT", "extra:%s" % ext, bucket == "other", site, "undocumented extension .%s feeds bucket %s" % (ext, bucket))
    ctx.add("TAB-EXT", "default", bool(default) and all(bk == "other" for _, bk in default), site,
            "files with other / no extension go to: %s" % sorted({bk for _, bk in default}), construct=default)
    # the scrutinee is the extension of the path
    sc_calls = [n.get("method") for n in walk(m["scrut"]) if n.get("k") == "MethodCall"]
    ctx.add("TAB-EXT", "scrutinee", "extension" in sc_calls, site, "match scrutinee derives from Path::extension: %s" % sc_calls)
    # the chosen bucket receives exactly one push of the path (append => encounter order kept)
    pm = hq.parent_map(b["body"])
    par = pm.get(id(m))
    ok = par is not None and par.get("k") == "MethodCall" and par.get("method") == "push" and par.get("recv") is m \
        and (callee(par) or "").endswith("Vec::<T, A>::push")
    ctx.add("TAB-EXT", "push", ok, site, "the matched bucket is the receiver of Vec::push (append keeps encounter order)")
    # only regular files are bucketed, errors are propagated
    trys = [n for n in walk(b["body"]) if n.get("k") == "Match" and str(n.get("src", "")).startswith("TryDesugar")]
    ctx.add("FLOW-ERR", "Files::sort:walkdir-error", len(trys) >= 1, site, "walkdir errors are propagated with `?` (%d sites)" % len(trys))
    ctx.count("ext_arms", len(rows))


def rule_det3(ctx):
    fx = ctx.facts
    total_new = 0
    for body in fx.body_list + [bb for bb in fx.bin["bodies"]]:
        total_new += len(hq.fn_refs(body["body"], "WalkDir::new"))
    b = fx.fn("Files::sort")
    site = ctx.site(b)
    loops = hq.for_loops(b["body"])
    bucket = [l for l in loops if any(c.get("k") == "MethodCall" and c.get("method") == "push" and any(
        x.get("k") == "Field" and x.get("name") in ("programs", "specifications", "user_guides", "proof_outlines", "other") for x in walk(l[3])) for c in walk(l[3]))]
    if len(bucket) != 1:
        raise AnalysisGap("Files::sort: expected one loop that files paths into the buckets, found %d" % len(bucket))
    ctx.add("DET-3", "single-pass", len(loops) == 1, site,
            "the paths are bucketed in one pass over the argument list (loops in Files::sort: %d); a second pass lets one kind of argument overtake another" % len(loops))
    _, iterable, pat, loop_body = bucket[0]
    root, chain = hq.method_chain(iterable)
    n_new = len(hq.fn_refs(iterable, "WalkDir::new"))
    n_sort = len(hq.fn_refs(iterable, "WalkDir::sort_by_file_name"))
    ctx.add("DET-3", "walkdir-sorted", n_new == 1 and n_sort == 1 and total_new == 1, site,
            "WalkDir::new references: %d in crate, %d in the bucketing loop's iterable, sort_by_file_name there: %d" % (total_new, n_new, n_sort))
    # order of application: new before sort_by_file_name
    order = []
    for c in chain:
        for a in c["args"]:
            for r in walk(a):
                if r.get("k") == "Path" and "callee" in r:
                    order.append(hq.last(r["callee"]))
    ctx.add("DET-3", "order", order.index("new") < order.index("sort_by_file_name") if "new" in order and "sort_by_file_name" in order else False,
            site, "adapter order in the chain: %s" % order)
    methods = [c["method"] for c in chain]
    allowed = {"into_iter", "map", "flat_map", "iter"}
    ctx.add("DET-3", "argument-order", set(methods) <= allowed and local_of(root) is not None, site,
            "argument list consumed in order through %s (no sort/rev/filter on the arguments themselves)" % methods)
    par = [p for p in b["params"] if p.get("name") == local_of(root)]
    ctx.add("DET-3", "root-is-param", bool(par), site, "iterable root is the parameter `%s`" % local_of(root))


def eval_acc(e):
    """Evaluate an accessor body to a small term: ('elem', bucket, idx) | ('or', a, b) | ('tag', T, x) | ('ife', bucket, a, b)."""
    e = strip(e)
    k = e.get("k")
    if k == "Block" and not e.get("stmts") and "expr" in e:
        return eval_acc(e["expr"])
    if k == "MethodCall":
        m = e["method"]
        recv = e["recv"]
        if m in ("first", "get", "last"):
            fp = hq.field_path(recv)
            if fp and fp.startswith("self."):
                if m == "first":
                    return ("elem", fp[5:], 0)
                if m == "get":
                    a = strip(e["args"][0])
                    if a.get("k") == "Lit":
                        return ("elem", fp[5:], a["v"])
                return ("unknown", m)
        if m == "map" and len(e["args"]) == 1:
            c = ctor_of_path(e["args"][0])
            inner = eval_acc(recv)
            if c:
                return ("tag", c, inner)
            return ("unknown", "map")
        if m in ("or_else", "or"):
            a = strip(e["args"][0])
            alt = eval_acc(a["body"]) if a.get("k") == "Closure" else eval_acc(a)
            return ("or", eval_acc(recv), alt)
    if k == "If":
        c = strip(e["cond"])
        neg = False
        if c.get("k") == "Unary" and c.get("op") == "Not":
            neg = True
            c = strip(c["e"])
        if c.get("k") == "MethodCall" and c["method"] == "is_empty":
            fp = hq.field_path(c["recv"])
            if fp and fp.startswith("self.") and "else" in e:
                t, f = eval_acc(e["then"]), eval_acc(e["else"])
                if neg:
                    t, f = f, t
                return ("ife", fp[5:], t, f)
    return ("unknown", k)


def ctor_of_path(e):
    e = strip(e)
    if e.get("k") == "Path" and e.get("res", {}).get("r") == "ctor":
        return e["res"].get("variant")
    return None


REF_ACC = {
    "left": ("elem", "programs", 0),
    "right": ("elem", "programs", 1),
    "specification": ("or", ("tag", "Right", ("elem", "specifications", 0)), ("tag", "Left", ("elem", "programs", 0))),
    "program": ("ife", "specifications", ("elem", "programs", 1), ("elem", "programs", 0)),
    "user_guide": ("elem", "user_guides", 0),
    "proof_outline": ("elem", "proof_outlines", 0),
}


def rule_accessors(ctx):
    fx = ctx.facts
    for name, ref in REF_ACC.items():
        b = fx.fn("Files::" + name)
        got = eval_acc(b["body"])
        if "unknown" in repr(got):
            ctx.gap("TAB-ACC", name, ctx.site(b), "accessor body outside the evaluator's idioms: %r" % (got,))
        else:
            ctx.add("TAB-ACC", name, got == ref, ctx.site(b), "Files::%s = %r (reference %r)" % (name, got, ref), construct=got)


# task field -> (accessor, parser node type(s))
REF_FLOW = {
    ("StrongEquivalenceTask", "left"): ({"left"}, {"Program"}),
    ("StrongEquivalenceTask", "right"): ({"right"}, {"Program"}),
    ("ExternalEquivalenceTask", "specification"): ({"specification"}, {"Program", "Specification"}),
    ("ExternalEquivalenceTask", "program"): ({"program"}, {"Program"}),
    ("ExternalEquivalenceTask", "user_guide"): ({"user_guide"}, {"UserGuide"}),
    ("ExternalEquivalenceTask", "proof_outline"): ({"proof_outline"}, {"Specification"}),
}
ACCESSORS = set(REF_ACC)


def accessor_calls(e):
    out = set()
    for n in walk(e):
        if n.get("k") == "MethodCall":
            c = callee(n) or ""
            if c.startswith(FILES + "::") or "::files::Files::" in c:
                out.add(hq.last(c))
    return out


def parser_types(e):
    out = set()
    for n in walk(e):
        if n.get("k") == "Path" and "callee" in n and (n["callee"].endswith("Node::from_file") or n["callee"].endswith("Node::from_stdin")):
            # the function type names the node: fn(..) -> Result<T, ..>
            t = n.get("ty", "")
            for cand in ("Program", "Specification", "UserGuide", "Theory"):
                if "::%s," % cand in t or "::%s>" % cand in t or "::%s, " % cand in t:
                    out.add(cand)
    return out


def rule_flow_roles(ctx):
    fx = ctx.facts
    b = fx.fn("command_line::procedures::main")
    site = ctx.site(b)
    found = 0
    for n in hq.nodes(b["body"], "Struct"):
        r = n.get("res", {})
        adt = hq.last(r.get("adt", ""))
        if adt not in ("StrongEquivalenceTask", "ExternalEquivalenceTask"):
            continue
        for f in n["fields"]:
            key = (adt, f["name"])
            if key not in REF_FLOW:
                # non-file fields must not touch the file accessors
                acc = accessor_calls(f["e"])
                ctx.add("FLOW-ROLE", "%s.%s:no-file" % key, not acc, site, "flag field reads file accessors %s" % sorted(acc), nontrivial=False)
                continue
            found += 1
            acc, want_parsers = REF_FLOW[key]
            got_acc = accessor_calls(f["e"])
            got_parsers = parser_types(f["e"])
            ctx.add("FLOW-ROLE", "%s.%s" % key, got_acc == acc and got_parsers == want_parsers, ctx.site(b, f["e"]),
                    "field %s.%s is fed by Files::%s through parser(s) %s (reference: %s via %s)" % (
                        adt, f["name"], sorted(got_acc), sorted(got_parsers), sorted(acc), sorted(want_parsers)),
                    construct={"accessors": sorted(got_acc), "parsers": sorted(got_parsers)})
            if key == ("ExternalEquivalenceTask", "specification"):
                # Either tags preserved: Left(p) -> Left(Program::from_file(p)), Right(s) -> Right(Specification::from_file(s))
                ms = [m for m in walk(f["e"]) if m.get("k") == "Match" and m.get("src") == "Normal"]
                ok = False
                detail = []
                for m in ms:
                    rows = []
                    for a in m["arms"]:
                        pk = hq.pat_key(a["pat"])
                        body = strip(a["body"])
                        c = ctor_of(body)
                        rows.append((pk, c[1] if c else None, sorted(parser_types(body))))
                    detail.append(rows)
                    if sorted(rows) == sorted([("Either::Left(_)", "Left", ["Program"]), ("Either::Right(_)", "Right", ["Specification"])]):
                        ok = True
                ctx.add("FLOW-ROLE", "specification:either-tags", ok, site,
                        "Either::Left (program as specification) is parsed as a program, Either::Right as a specification: %s" % detail)
    ctx.floor("FLOW-ROLE", "task_file_fields", found, 6)
    # Files::sort feeds `files`, and nothing else constructs a Files
    sorts = hq.calls(b["body"], "Files::sort")
    ctx.add("FLOW-ROLE", "files-from-sort", len(sorts) == 1, site, "Files::sort called once in main (%d)" % len(sorts))
    if sorts:
        a = strip(sorts[0]["args"][0])
        ctx.add("FLOW-ROLE", "sort-arg", local_of(a) == "files" or local_of(a) is not None, site,
                "Files::sort receives the command-line list `%s` unmodified" % hq.render(a))


RULES = [rule_ext_table, rule_det3, rule_accessors, rule_flow_roles]
