"""C14 — printing a parsed program and parsing it again yields the same program."""
from ..facts import AnalysisGap, strip, walk
from .. import gcov, grammar, hq, peval, prec, printers, prn, sym

EXPLANATION = (
    "PRN-K: for every token enum of the mini-gringo syntax (unary / binary operators, relations, #inf/#sup, signs, head forms) the printer's token "
    "(extracted Display table), the grammar rule that the PEG's ordered choice selects for that text, and the variant the parser builds from that "
    "rule form a round trip; no earlier alternative of the choice is a prefix of a later token. PRN-P: for every (operator, operand, position) "
    "over the term kinds the parenthesisation decision of fmt_unary / fmt_binary evaluated on the extracted precedence / associativity tables is "
    "compared with the binding powers and associativities of PRATT_PARSER: wherever the printer omits parentheses the parser groups the same "
    "way. PRN-J: juxtaposition hazards decided from the grammar: a unary minus directly before a positive numeral would lex as a negative "
    "numeral (the printer must parenthesise), `not` needs following whitespace, the interval token is printed without spaces but cannot merge "
    "with a numeral. LIST: the literal pieces of the list printers (atoms, bodies, rules, choice heads, programs) occur in the grammar rule in the "
    "same order. The parser-side pair structure is covered by PANIC-GCOV (C16).")
UNDECIDED = ["full language equivalence of printer and parser", "symbols spelled like keywords (a constant named `not` printed before a space does not re-parse)"]
ASSUMPTIONS = ["pest PEG semantics: ordered choice, greedy repetition, implicit whitespace between sequence elements outside atomic rules"]

T = "syntax_tree::asp::mini_gringo::"


def term_kinds():
    A = peval.A
    k = {
        "numeral+": (A("Term", "PrecomputedTerm", **{"0": A("PrecomputedTerm", "Numeral", **{"0": ("int", 5)})}), "leaf", None),
        "numeral+1": (A("Term", "PrecomputedTerm", **{"0": A("PrecomputedTerm", "Numeral", **{"0": ("int", 1)})}), "leaf", None),      # the smallest positive numeral: a range pattern `2..` would miss it
        "numeral+big": (A("Term", "PrecomputedTerm", **{"0": A("PrecomputedTerm", "Numeral", **{"0": ("int", 9223372036854775807)})}), "leaf", None),
        "numeral0": (A("Term", "PrecomputedTerm", **{"0": A("PrecomputedTerm", "Numeral", **{"0": ("int", 0)})}), "leaf", None),
        "numeral-": (A("Term", "PrecomputedTerm", **{"0": A("PrecomputedTerm", "Numeral", **{"0": ("int", -5)})}), "leaf", None),
        "numeral-1": (A("Term", "PrecomputedTerm", **{"0": A("PrecomputedTerm", "Numeral", **{"0": ("int", -1)})}), "leaf", None),
        "symbol": (A("Term", "PrecomputedTerm", **{"0": A("PrecomputedTerm", "Symbol", **{"0": ("str", "a")})}), "leaf", None),
        "infimum": (A("Term", "PrecomputedTerm", **{"0": A("PrecomputedTerm", "Infimum")}), "leaf", None),
        "variable": (A("Term", "Variable"), "leaf", None),
        "negative": (A("Term", "UnaryOperation", op=A("UnaryOperator", "Negative")), "prefix", "negative"),
    }
    for op, rule in (("Add", "add"), ("Subtract", "subtract"), ("Multiply", "multiply"), ("Divide", "divide"), ("Modulo", "modulo"), ("Interval", "interval")):
        k["op:" + op] = (A("Term", "BinaryOperation", op=A("BinaryOperator", op)), "infix", rule)
    return k


def rule_tokens(ctx):
    fx = ctx.facts
    g = grammar.load(fx, "asp")
    prn.token_roundtrip(ctx, "PRN-K", fx, g, "asp", T + "UnaryOperator", "UnaryOperator", "UnaryOperatorParser", "unary_operator")
    prn.token_roundtrip(ctx, "PRN-K", fx, g, "asp", T + "BinaryOperator", "BinaryOperator", "BinaryOperatorParser", "binary_operator")
    prn.token_roundtrip(ctx, "PRN-K", fx, g, "asp", T + "Relation", "Relation", "RelationParser", "relation")
    # #inf / #sup
    pb = printers.display_impl(fx, "asp", "PrecomputedTerm")
    t = printers.token_table(printers.evaluate(fx, pb).value) or {}
    q, qb = prn.parser_table(fx, "asp", "PrecomputedTermParser")
    for v, rule in (("Infimum", "infimum"), ("Supremum", "supremum")):
        s = t.get("PrecomputedTerm::" + v)
        lits = g.literal_of(rule)
        first = [l for l in lits if l is not None and (s or "").startswith(l)]
        # ordered alternatives inside the token rule: a longer alternative first must not swallow more than the printed token
        ok = s in lits and first and first[0] == s and q.get(rule) == "PrecomputedTerm::" + v
        ctx.add("PRN-K", "PrecomputedTerm:" + v, bool(ok), ctx.site(pb), "%s is printed `%s`, grammar rule `%s` accepts %s, parser builds %s" % (v, s, rule, lits, q.get(rule)))
    ctx.add("PRN-K", "PrecomputedTerm:slots", t.get("PrecomputedTerm::Numeral(_)") == "{}" and t.get("PrecomputedTerm::Symbol(_)") == "{}", ctx.site(pb), "numerals and symbols are printed verbatim")
    # the order of precomputed_term alternatives: a symbol must not be tried before `#inf`, integers before symbols is irrelevant (disjoint first characters)
    alts = [a.get("v") for a in g.alternatives("precomputed_term")]
    ctx.add("PRN-K", "PrecomputedTerm:alternatives", set(alts) == {"infimum", "integer", "symbol", "supremum"}, "src/parsing/asp/mini_gringo/grammar.pest", "precomputed_term alternatives: %s" % alts)
    # signs
    sb = printers.display_impl(fx, "asp", "Sign")
    st = printers.token_table(printers.evaluate(fx, sb).value) or {}
    ctx.add("PRN-K", "Sign:tokens", st == {"Sign::NoSign": "", "Sign::Negation": "not", "Sign::DoubleNegation": "not not"}, ctx.site(sb), "signs are printed as 0, 1, 2 copies of `not` separated by one space: %s" % st)
    sp = [b for b in fx.body_list if b["name"] == "translate_pair" and b.get("impl", {}).get("self_ty", "").endswith("mini_gringo::pest::SignParser")]
    consts = []
    for n in walk(sp[0]["body"]):
        c = hq.const_of(n) if n.get("k") == "Path" else None
        if c and c[0] == "variant" and c[1] == "Sign":
            consts.append(c[2])
    ctx.add("PRN-K", "Sign:parser", consts == ["NoSign", "Negation", "DoubleNegation"], ctx.site(sp[0]), "SignParser counts negation pairs: %s" % consts)
    neg = g.rule("negation")
    ok = neg["ty"] == "atomic" and g.literal_of("negation") == ["not"] and g.rule("sign")["expr"]["e"] == "repn" and g.rule("sign")["expr"]["max"] == 2
    ctx.add("PRN-K", "Sign:grammar", ok, "src/parsing/asp/mini_gringo/grammar.pest", "sign = negation{0,2}, negation = @{ \"not\" ~ &(WHITESPACE | EOI) }")
    lb = printers.display_impl(fx, "asp", "Literal")
    # decided per sign: what the literal printer writes for a literal of that sign (an `if`, a `match` or a helper spell the same table)
    ok = True
    for sg_ in fx.variants("syntax_tree::asp::mini_gringo::Sign"):
        ev_ = sym.Eval(fx, inline_depth=0)
        lit_ = ("ctor", "Literal", (("atom", ("param", "$a")), ("sign", ("ctor", "Sign::" + sg_, ()))))
        ev_.function(lb, [("ctor", "Format", (("0", lit_),)), ("param", "$f")])
        ws_ = [o[2] for o in ev_.out if o[2][0] == "write"]
        if sg_ == "NoSign":
            ok = ok and [w_[1] for w_ in ws_] == ["{}"] and "$a" in repr(ws_[0][2]) and "Sign::" not in repr(ws_[0][2])
        else:
            ok = ok and [w_[1] for w_ in ws_] == ["{} {}"] and "Sign::" + sg_ in repr(ws_[0][2][0]) and "$a" in repr(ws_[0][2][1])
    ctx.add("PRN-J", "sign-atom", ok, ctx.site(lb), "a signed literal is printed `sign atom` with a space (the negation token requires following whitespace); an unsigned one without")
    # heads
    hb = printers.display_impl(fx, "asp", "Head")
    ht = printers.token_table(printers.evaluate(fx, hb).value) or {}
    hq_, hqb = prn.parser_table(fx, "asp", "HeadParser")
    ctx.add("PRN-K", "Head:printer", ht == {"Head::Basic(_)": "{}", "Head::Choice(_)": "{{{}}}", "Head::Falsity": ""}, ctx.site(hb), "heads: atom, {atom}, empty: %s" % ht)
    hp = [b for b in fx.body_list if b["name"] == "translate_pair" and b.get("impl", {}).get("self_ty", "").endswith("mini_gringo::pest::HeadParser")][0]
    rows = {}
    for m in hq.nodes(hp["body"], "Match"):
        for a in m["arms"]:
            k = hq.pat_key(a["pat"])
            c = hq.ctor_of(strip(a["body"]))
            if k.startswith("Rule::") and c:
                rows[k[6:]] = c[1]
    ctx.add("PRN-K", "Head:parser", rows.get("basic_head") == "Basic" and rows.get("choice_head") == "Choice" and rows.get("falsity") == "Falsity", ctx.site(hp), "head rules map to %s" % rows)
    ch = g.rule("choice_head")["expr"]
    lits = []

    def coll(x):
        if x["e"] == "seq":
            coll(x["a"])
            coll(x["b"])
        elif x["e"] == "str":
            lits.append(x["v"])
        elif x["e"] == "ident":
            lits.append("<%s>" % x["v"])
    coll(ch)
    ctx.add("PRN-K", "Head:choice-grammar", lits == ["{", "<atom>", "}"], "src/parsing/asp/mini_gringo/grammar.pest", "choice_head = \"{\" atom \"}\": %s" % lits)
    fal = g.rule("falsity")["expr"]
    ctx.add("PRN-K", "Head:falsity-grammar", fal["e"] == "opt" and fal["x"].get("v") == "#false", "src/parsing/asp/mini_gringo/grammar.pest", "falsity = \"#false\"? accepts the empty head that the printer writes")


def leaf_hazard(pk, ck, pos):
    # `-` directly followed by a positive numeral lexes as one negative numeral
    return pk == "negative" and ck.startswith("numeral+")


def rule_precedence(ctx):
    fx = ctx.facts
    n = prn.check_precedence(ctx, "PRN-P", fx, "asp", "Term", "PRATT_PARSER", term_kinds(), None, leaf_hazard)
    ctx.floor("PRN-P", "term_cases", n, 90)
    # the grammar facts behind the numeral hazard
    g = grammar.load(fx, "asp")
    integer = g.rule("integer")
    neg = g.rule("negative")
    ok = integer["ty"] == "atomic" and "'-'" in repr(integer["expr"]).replace('"', "'") and neg["expr"]["e"] == "seq" and neg["expr"]["a"]["e"] == "neg"
    ctx.add("PRN-J", "minus-numeral:grammar", ok, "src/parsing/asp/mini_gringo/grammar.pest",
            "integer = @{ \"0\" | \"-\"? nonzero digits }, negative = { !integer ~ \"-\" }: `-5` is one numeral, so -(5) must keep its parentheses")
    # operator spacing: only the interval is printed without spaces
    ob = printers.display_impl(fx, "asp", "Term", trait="formatting::Precedence", name="fmt_operator")
    v = printers.evaluate(fx, ob).value
    r = repr(v)
    ctx.add("PRN-J", "operator-spacing", "('write', ' {} '" in r and "BinaryOperator::Interval" in r and "('write', '{}'" in r, ctx.site(ob),
            "binary operators are printed with surrounding spaces, the interval and the unary minus without")
    # `1..2`: a numeral cannot swallow the first dot
    alts = repr(g.rule("integer")["expr"])
    ctx.add("PRN-J", "interval-numeral", "'.'" not in alts, "src/parsing/asp/mini_gringo/grammar.pest", "numerals contain no `.`, so `1..2` splits as 1 .. 2")


def grammar_literals(g, name, depth=0):
    """String literals of a rule in order (through silent rules), '<rule>' for non-silent references."""
    out = []

    def coll(x, d):
        k = x["e"]
        if k in ("seq", "choice"):
            coll(x["a"], d)
            coll(x["b"], d)
        elif k == "str":
            out.append(x["v"])
        elif k in ("opt", "rep", "rep1", "repn", "push"):
            coll(x["x"], d)
        elif k == "ident":
            n = x["v"]
            if n in g.rules and g.rules[n]["ty"] == "silent" and d < 3:
                coll(g.rules[n]["expr"], d + 1)
            elif n not in ("EOI", "ANY", "NEWLINE"):
                out.append("<%s>" % n)
    coll(g.rule(name)["expr"], depth)
    return out


def printer_literals(p):
    """Literal pieces (stripped) and slots of a printer's output effects, in order."""
    out = []
    for conds, loops, item in p.out:
        if item[0] == "write":
            for piece in printers.slots(item[1]):
                if piece.startswith("{") and piece.endswith("}"):
                    out.append("<>")
                elif piece.strip():
                    out.append(piece.strip())
        elif item[0] == "emit":
            out.append("<>")
    return out


def _path_literals(T, gl):
    """the literal punctuation written on each consistent path of a printer: one boolean per condition, one arm per matched value"""
    import itertools
    bools, arms = [], {}
    for conds, _, _ in T.entries:
        for c, pol in conds:
            if isinstance(c, tuple) and c[:1] == ("arm",) and len(c) == 3:
                arms.setdefault(c[1], set()).add(c[2])
            elif c not in bools:
                bools.append(c)
    if len(bools) > 6 or len(arms) > 3:
        return None
    out = []
    arm_keys = sorted(arms, key=repr)
    for bv in itertools.product((True, False), repeat=len(bools)):
        for av in itertools.product(*[sorted(arms[k_]) + ["<other>"] for k_ in arm_keys]):
            env_b, env_a = dict(zip(bools, bv)), dict(zip(arm_keys, av))
            seq = []
            for conds, _, pieces in T.entries:
                if all((env_a.get(c[1]) == c[2]) == pol if (isinstance(c, tuple) and c[:1] == ("arm",) and len(c) == 3) else env_b.get(c) == pol for c, pol in conds):
                    for x in pieces:
                        if isinstance(x, str) and x.strip():
                            x = x.strip()
                            seq.extend([x] if x in gl else list(x) if all(ch in "(){}.,:-/" for ch in x) and x not in (":-",) else [x])
            if seq not in out:
                out.append(seq)
    return out


def subsequence(small, big):
    it = iter(big)
    return all(any(x == y for y in it) for x in small)


def rule_lists(ctx):
    fx = ctx.facts
    g = grammar.load(fx, "asp")
    for ty, rule, want in (("Atom", "atom", ["(", ",", ")"]), ("Body", "body", [","]), ("Rule", "rule", [":-", "."]), ("Predicate", "predicate", ["/"]), ("Comparison", "comparison", [])):
        pb = printers.display_impl(fx, "asp", ty)
        p = printers.evaluate(fx, pb)
        lits = [x for x in printer_literals(p) if x != "<>"]
        gl = [x for x in grammar_literals(g, rule) if not x.startswith("<")]
        lits_n = [x.rstrip(".") if x not in (".",) else x for x in lits]
        flat = []
        for x in lits:
            # a piece like `}.` or `.` is split into single punctuation tokens
            flat.extend([x] if x in gl else list(x) if all(ch in "(){}.,:-/" for ch in x) and x not in (":-",) else [x])
        ok = subsequence(flat, gl) and flat == want
        if not ok:
            # alternative paths write alternative texts (an early `return write!(f, ".")`): the literal pieces are compared path by path -
            # every path is a subsequence of the grammar's literals and the longest one is the expected list
            seqs = _path_literals(printers.flat(fx, pb), gl)
            if seqs:
                ok = all(subsequence(sq, gl) for sq in seqs) and want in seqs and all(len(sq) <= len(want) for sq in seqs)
        ctx.add("LIST", ty, ok, ctx.site(pb), "literal pieces of the %s printer %s occur in grammar rule `%s` in order (grammar literals %s)" % (ty, flat, rule, gl), construct={"printer": flat, "grammar": gl})
    # program: one rule per line, each rule ends with `.`
    pb = printers.display_impl(fx, "asp", "Program")
    p = printers.evaluate(fx, pb)
    ok = len(p.out) == 1 and p.out[0][2][:2] == ("write", "{}\n") and p.out[0][1] == (("place", "self.0.rules"),)
    ctx.add("LIST", "Program", ok, ctx.site(pb), "a program is printed as its rules in order, one per line")
    rb = printers.display_impl(fx, "asp", "Rule")
    rp = printers.evaluate(fx, rb)
    # what is written for a rule, as text, by whether the head is empty and whether the body is (an empty body prints nothing): `head.`,
    # `head :- body.`, ` :- body.` - whichever way the test is written (`||`, De Morgan, a guard clause with an early `.`)
    from .. import leaves as _lv
    RT = printers.flat(fx, rb)
    HEAD_, BODY_ = _lv.norm(("place", "self.0.head")), _lv.norm(("place", "self.0.body"))
    EMPTY_ = ("call", "Vec::is_empty", (_lv.norm(("place", "self.0.body.formulas")),))
    hole_h, hole_b = ("hole", "{}", ("ctor", "Format", (("0", HEAD_),))), ("hole", "{}", ("ctor", "Format", (("0", BODY_),)))

    def rule_text(falsity, empty):
        head_v = ("ctor", "Head::Falsity", ()) if falsity else ("ctor", "Head::Basic", (("0", ("param", "$a")),))

        def lit_eq(t):
            if not isinstance(t, tuple):
                return t
            t = tuple(lit_eq(x) for x in t)
            if t[:1] == ("bin",) and t[1] in ("Eq", "Ne") and all(isinstance(x, tuple) and x[:1] == ("ctor",) for x in t[2:4]):
                return ("lit", (t[2][1] == t[3][1]) == (t[1] == "Eq"))
            return t

        def decide(c):
            return sym.decide_bool(lit_eq(_lv.replace(c, {HEAD_: head_v, EMPTY_: ("lit", empty)})))
        try:
            segs = RT.under(decide)
        except printers.Undecided:
            return None
        pieces = [p_ for _, ps in segs for p_ in ps if not (empty and p_ == hole_b)]
        out = []
        for p_ in pieces:
            if isinstance(p_, str) and out and isinstance(out[-1], str):
                out[-1] += p_
            else:
                out.append(p_)
        return out
    want_text = {(True, True): [hole_h, " :- ."], (True, False): [hole_h, " :- ", hole_b, "."], (False, True): [hole_h, "."], (False, False): [hole_h, " :- ", hole_b, "."]}
    got_text = {k_: rule_text(*k_) for k_ in want_text}
    okr = got_text == want_text
    ctx.add("LIST", "Rule:separator", okr, ctx.site(rb), "` :- ` is printed iff the head is empty or the body is not (a fact is `head.`, a constraint `:- body.`)")
    bb = printers.display_impl(fx, "asp", "Body")
    bp = printers.evaluate(fx, bb)
    seps = [sym.anon_format(item)[1] for c, l, item in bp.out if item[0] == "write"]      # a separator kept in a constant is part of the text
    ctx.add("LIST", "Body:separator", seps in (["{}", ", {}"], [", ", "{}"]), ctx.site(bb), "body formulas are separated by `, ` (the grammar accepts `,` and `;`)")
    # variables and symbols are printed verbatim
    vb = printers.display_impl(fx, "asp", "Variable")
    v = printers.evaluate(fx, vb).value
    ctx.add("LIST", "Variable", v == ("write", "{}", (("place", "self.0.0"),)), ctx.site(vb), "variables are printed verbatim")
    ab = printers.display_impl(fx, "asp", "AtomicFormula")
    t = printers.token_table(printers.evaluate(fx, ab).value)
    ctx.add("LIST", "AtomicFormula", t == {"AtomicFormula::Literal(_)": "{}", "AtomicFormula::Comparison(_)": "{}"}, ctx.site(ab), "atomic formulas delegate to literal / comparison")
    # comparison before literal in the grammar (a literal is a prefix of a comparison `p < 1`)
    alts = [a.get("v") for a in g.alternatives("atomic_formula")]
    ctx.add("PRN-K", "atomic_formula:order", alts == ["comparison", "literal"], "src/parsing/asp/mini_gringo/grammar.pest", "atomic_formula tries comparison before literal: %s" % alts)
    cb = printers.display_impl(fx, "asp", "Comparison")
    cv = printers.evaluate(fx, cb).value
    ok = cv[:2] == ("write", "{} {} {}") and [repr(a)[-20:] for a in cv[2]] == [repr(("place", "self.0." + f))[-17:] + ")),))" if False else repr(a)[-20:] for a, f in zip(cv[2], ("lhs", "relation", "rhs"))] and \
        all(("self.0." + f) in repr(a) for a, f in zip(cv[2], ("lhs", "relation", "rhs")))
    ctx.add("LIST", "Comparison:order", ok, ctx.site(cb), "a comparison is printed lhs relation rhs")


def rule_dispatch(ctx):
    from .. import prec
    A = "syntax_tree::asp::mini_gringo::"
    n = prec.rule_dispatch(ctx, "asp", "Term", [("UnaryOperation", "op", A + "UnaryOperator", ("arg",), "fmt_unary"),
                                                ("BinaryOperation", "op", A + "BinaryOperator", ("lhs", "rhs"), "fmt_binary")], group="PRN-P")
    ctx.floor("PRN-P", "dispatch_cases", n, 5)


RULES = [rule_tokens, rule_precedence, rule_dispatch, rule_lists]
