"""C01 — the tau* theory has exactly the program's here-and-there / stable models."""
import itertools
import re

from ..facts import AnalysisGap
from .. import collect, ftpl, hq, sym

EXPLANATION = (
    "TPL: every formula constructor of tau_star.rs is evaluated symbolically (typed HIR -> term domain, constructors inlined, one specialisation per "
    "variant of asp::Term / BinaryOperator / UnaryOperator / Sign / Relation / Head) and its normal form - modulo AC of `and`, symmetry of `=`, "
    "orientation of `<`/`<=`, order of bound variables - is matched against the published definitions of val_t(Z), tau^B and tau* (arXiv:2008.02025, "
    "as quoted in DESIGN.md A.1) with metavariables for the bound names. FRESH: every bound name is a choose_fresh_variable_names / "
    "choose_fresh_global_variables result; the `taken` set each is chosen against contains every free variable of the formula it is bound in "
    "(the term's variables and Z for I, J, K; the variables of both operand formulas for Q, R; the atomic formula's variables for Z1..Zk; the "
    "program's variables for V1..Vn); the prefixes are pairwise distinct letters; the search loop of choose_fresh_variable_names tests both the taken "
    "and the already chosen names. COLLECT: the asp `variables` collectors visit every field that can contain a variable. DISPATCH: tau_b, "
    "tau_star_rule and tau_star route every rule / literal kind to its constructor. PARSE: the operator levels of the term parser are the language's (.. | + - | * / \\ | unary -, left-associative) and the printer's parentheses agree with them (C14's precedence rows).")
UNDECIDED = ["that the published val / tau^B / tau* definitions characterise the HT and stable models (literature)",
             "arithmetic corner cases of the definition itself (division by a negative divisor follows the arXiv paper)",
             "overflow of the global-variable counter (C16 known finding PANIC-OVF:global-variable-counter)"]
ASSUMPTIONS = ["the symbolic evaluation of typed HIR (rules/sym.py) is faithful for straight-line constructor code, matches, for-loops that push, closures"]

TS = "translating::formula_representation::tau_star::"
key = ftpl.key

# ------------------------------------------------------------------------------------------------ evaluation helpers


def body_of(fx, name):
    bs = [b for b in fx.body_list if b["def_path"] == TS + name]
    if len(bs) != 1:
        raise AnalysisGap("tau_star.rs: function `%s` not found" % name)
    return bs[0]


def P(n):
    return ("param", n)


def C(name, **fields):
    return ("ctor", name, tuple(sorted((k.lstrip("_"), v) for k, v in fields.items())))


def reduce(t):
    """projections / field accesses on literal constructors"""
    if not isinstance(t, tuple):
        return t
    t = tuple(reduce(x) for x in t)
    if t and t[0] == "proj" and len(t) == 3:
        base, path = t[1], t[2]
        while path and isinstance(base, tuple) and base and base[0] == "ctor":
            head, f = path[0]
            if head != "tuple" and base[1] != head:
                break
            hit = [v for k, v in base[2] if k == f]
            if not hit:
                break
            base, path = hit[0], path[1:]
        while path and isinstance(base, tuple) and base and base[0] == "list" and path[0][0] == "tuple":
            base, path = base[1][int(path[0][1])], path[1:]
        return base if not path else ("proj", base, path)
    if t and t[0] == "fieldof" and isinstance(t[1], tuple) and t[1] and t[1][0] == "ctor":
        hit = [v for k, v in t[1][2] if k == t[2]]
        if hit:
            return hit[0]
    if t and t[0] == "fieldof" and isinstance(t[1], tuple) and t[1] and t[1][0] in ("param", "place"):
        return ("place", t[1][1] + "." + t[2])
    return t


def spec(fx, name, args, inline=("construct_", "valtz"), depth=1):
    b = body_of(fx, name)
    if len(args) != len(b["params"]):
        raise AnalysisGap("%s has %d parameters, expected %d" % (name, len(b["params"]), len(args)))
    ev = sym.Eval(fx, inline_depth=depth, inline=lambda p: p.startswith(TS) and any(p[len(TS):].startswith(i) for i in inline))
    # loops that push and iterator chains are brought to one form (ftpl.canon_iter) before the template is normalised
    v = ftpl.canon_iter(reduce(ev.function(b, list(args))))
    n = ftpl.NF()
    return n.formula(v), n, b


# ------------------------------------------------------------------------------------------------ patterns and AC matching

def M(x):
    return ("?", x)


def var(name, sort):
    return ("var", name, sort)


def EX(vs, f):
    return ("Q", "Exists", tuple(vs), f)


def ALL(vs, f):
    return ("Q", "Forall", tuple(vs), f)


def AND(*xs):
    return ("and", tuple(xs))


def EQ(a, b):
    return ("eq", (a, b))


def NE(a, b):
    return ("ne", (a, b))


def LT(a, b):
    return ("lt", a, b)


def LE(a, b):
    return ("le", a, b)


def OP(o, a, b):
    return ("op", o, a, b)


def VAL(t, v):
    return ("val", t, v)


def NOT(a):
    return ("not", a)


def IMP(a, b):
    return ("imp", a, b)


def unify(p, a, b):
    """all extensions of binding b under which pattern p equals NF a (AC for and/or/Q-variables/eq/ne/iff, commutative + and *)"""
    if isinstance(p, tuple) and len(p) == 2 and p[0] == "?":
        if p[1] in b:
            if b[p[1]] == a:
                yield b
            return
        nb = dict(b)
        nb[p[1]] = a
        yield nb
        return
    if not isinstance(p, tuple) or not isinstance(a, tuple):
        if p == a:
            yield b
        return
    if p and a and p[0] == a[0] and p[0] in ("and", "or") and len(p) == 2:
        yield from multiset(list(p[1]), list(a[1]), b)
        return
    if p and a and p[0] == a[0] == "Q" and len(p) == 4:
        if p[1] != a[1]:
            return
        for b1 in multiset(list(p[2]), list(a[2]), b):
            yield from unify(p[3], a[3], b1)
        return
    if p and a and p[0] == a[0] and p[0] in ("eq", "ne", "iff") and len(p) == 2:
        yield from multiset(list(p[1]), list(a[1]), b)
        return
    if p and a and p[0] == a[0] == "op" and p[1] == a[1] and p[1] in ("Add", "Multiply"):
        yield from multiset([p[2], p[3]], [a[2], a[3]], b)
        return
    if len(p) != len(a):
        return

    def seq(i, bb):
        if i == len(p):
            yield bb
            return
        for b1 in unify(p[i], a[i], bb):
            yield from seq(i + 1, b1)
    yield from seq(0, b)


def multiset(ps, as_, b):
    if len(ps) != len(as_):
        return
    if not ps:
        yield b
        return
    p0 = ps[0]
    for i, a in enumerate(as_):
        for b1 in unify(p0, a, b):
            yield from multiset(ps[1:], as_[:i] + as_[i + 1:], b1)


def flat_pattern(p):
    """and-patterns with a single item / nested and are normalised like the NF"""
    if not isinstance(p, tuple):
        return p
    p = tuple(flat_pattern(x) for x in p)
    if p and p[0] == "and" and len(p) == 2:
        items = []
        for i in p[1]:
            if isinstance(i, tuple) and i and i[0] == "and":
                items.extend(i[1])
            elif i == ("true",):
                continue
            else:
                items.append(i)
        if len(items) == 1:
            return items[0]
        return ("and", tuple(items))
    return p


def match(pattern, actual):
    for b in unify(flat_pattern(pattern), actual, {}):
        return b
    return None


# ------------------------------------------------------------------------------------------------ rendering (messages)

def rn(n):
    try:
        return _rn(n)
    except Exception:
        return repr(n)


def _rn(n):
    if isinstance(n, tuple) and n:
        if n[0] == "?":
            return n[1]
        if n[0] == "fresh":
            sel = "" if n[3] == "last" else "[%s]" % rn(n[3][1]) if isinstance(n[3], tuple) else ""
            return "<%s%s>" % (n[1], sel)
        if n[0] == "place":
            return n[1]
        if n[0] == "param":
            return n[1]
        if n[0] == "lit":
            return str(n[1])
        if n[0] == "each":
            return "each(%s)" % rn(n[1])
        if n[0] == "nth":
            return "%s[%s]" % (rn(n[1]), rn(n[2]))
        if n[0] == "call":
            return "%s(%s)" % (n[1].split("::")[-1], ", ".join(rn(x) for x in n[2]))
        if n[0] == "proj":
            return "%s.%s" % (rn(n[1]), ".".join(f for _, f in n[2]))
        if n[0] == "ctor":
            return "%s%s" % (n[1].split("::")[-1], "(%s)" % ", ".join(rn(v) for _, v in n[2]) if n[2] else "")
        return "(" + " ".join(rn(x) for x in n) + ")"
    return str(n)


def render(f):
    try:
        return _render(f)
    except Exception:
        return repr(f)


def _render(f):
    if not isinstance(f, tuple) or not f:
        return str(f)
    k = f[0]
    if k == "?":
        return f[1]
    if k == "Q":
        return "%s %s (%s)" % (f[1].lower(), " ".join(render(v) for v in f[2]), render(f[3]))
    if k == "var":
        s = f[2]
        return rn(f[1]) + ({"General": "", "Integer": "$i", "Symbol": "$s"}.get(s, "$sort(%s)" % rn(s)) if not (isinstance(s, tuple) and s[0] == "?") else "")
    if k in ("and", "or"):
        return (" %s " % k).join(render(x) for x in f[1])
    if k == "imp":
        return "(%s) -> %s" % (render(f[1]), render(f[2]))
    if k == "not":
        return "not %s" % render(f[1])
    if k in ("eq", "ne", "iff"):
        return "%s %s %s" % (render(f[1][0]), {"eq": "=", "ne": "!=", "iff": "<->"}[k], render(f[1][1]))
    if k in ("lt", "le"):
        return "%s %s %s" % (render(f[1]), "<" if k == "lt" else "<=", render(f[2]))
    if k == "cmp":
        return "%s {%s} %s" % (render(f[2]), rn(f[1]) if not (isinstance(f[1], tuple) and f[1][0] == "map") else "rel", render(f[3]))
    if k == "op":
        return "(%s %s %s)" % (render(f[2]), {"Add": "+", "Subtract": "-", "Multiply": "*"}.get(f[1], str(f[1])), render(f[3]))
    if k == "num":
        return rn(f[1])
    if k in ("inf", "sup", "true", "false"):
        return "#" + k
    if k == "sym":
        return "sym(%s)" % rn(f[1])
    if k == "val":
        return "val[%s](%s)" % (rn(f[1]), render(f[2]))
    if k == "atom":
        return "%s(%s)" % (rn(f[1]), ", ".join(render(x) for x in f[2]))
    if k in ("bigand", "loop"):
        return "%s{%s}" % ("AND" if k == "bigand" else "...", render(f[1]))
    if k == "bigand-map":
        return "AND{%s | %s in %s}" % (render(f[3]), ",".join(f[2]), rn(f[1]))
    if k == "F":
        return "%s(%s)" % (f[1].split("::")[-1], ", ".join(rn(x) if not (isinstance(x, tuple) and x and x[0] in ("var", "Q", "and")) else render(x) for x in (f[2] if isinstance(f[2], tuple) else (f[2],))))
    if k == "match":
        return "match %s {%s}" % (rn(f[1]), "; ".join("%s => %s" % (a[0], render(a[1])) for a in f[2]))
    if k == "if":
        return "if %s {%s} else {%s}" % (rn(f[1]), render(f[2]), render(f[3]))
    return rn(f)


def check_tpl(ctx, rule, k, pattern, actual, site, what):
    b = match(pattern, actual)
    ctx.add(rule, k, b is not None, site, "%s: expected  %s ;  found  %s" % (what, render(flat_pattern(pattern)), render(actual)),
            construct={"expected": render(flat_pattern(pattern)), "found": render(actual)})
    return b


# ------------------------------------------------------------------------------------------------ val_t(Z)

Z = var(("place", "$z.name"), ("place", "$z.sort"))
ZERO = ("ctor", "Term::PrecomputedTerm", (("0", ("ctor", "PrecomputedTerm::Numeral", (("0", ("lit", 0)),))),))


def i_(m):
    return var(M(m), "Integer")


def val_reference(variant):
    """the published val_t(Z) (arXiv:2008.02025 section 5; corrected division) for one constructor of t; operands are $lhs / $rhs / $arg"""
    I, J, K, Q, R = (i_(x) for x in "IJKQR")
    L, Rh, Ar = P("$lhs"), P("$rhs"), P("$arg")
    if variant in ("Add", "Subtract", "Multiply"):
        return EX([I, J], AND(EQ(Z, OP(variant, I, J)), VAL(L, I), VAL(Rh, J)))
    if variant == "Negative":
        return EX([I, J], AND(EQ(Z, OP("Subtract", I, J)), VAL(ZERO, I), VAL(Ar, J)))
    if variant in ("Divide", "Modulo"):
        return EX([I, J, Q, R], AND(EQ(I, OP("Add", OP("Multiply", J, Q), R)), VAL(L, I), VAL(Rh, J), NE(J, ("num", 0)), LE(("num", 0), R), LT(R, J),
                                    EQ(Z, Q if variant == "Divide" else R)))
    if variant == "Interval":
        return EX([I, J, K], AND(VAL(L, I), VAL(Rh, J), LE(I, K), LE(K, J), EQ(Z, K)))
    raise AnalysisGap("no published val_t(Z) clause for operator %s" % variant)


def rule_val(ctx):
    fx = ctx.facts
    A = "syntax_tree::asp::mini_gringo::"
    zarg = P("$z")
    n = 0
    # leaves
    leaves = {
        "Infimum": (C("Term::PrecomputedTerm", _0=C("PrecomputedTerm::Infimum")), ("inf",)),
        "Supremum": (C("Term::PrecomputedTerm", _0=C("PrecomputedTerm::Supremum")), ("sup",)),
        "Numeral": (C("Term::PrecomputedTerm", _0=C("PrecomputedTerm::Numeral", _0=P("$n"))), ("num", P("$n"))),
        "Symbol": (C("Term::PrecomputedTerm", _0=C("PrecomputedTerm::Symbol", _0=P("$s"))), ("sym", P("$s"))),
    }
    pre = fx.variants(A + "PrecomputedTerm")
    for v in pre:
        if v not in leaves:
            ctx.bad("TPL", "val:PrecomputedTerm::%s" % v, "src/syntax_tree/asp/mini_gringo.rs", "precomputed term kind %s has no published val clause in the reference table" % v)
            continue
        t, ref = leaves[v]
        f, _, b = spec(fx, "val", [t, zarg])
        check_tpl(ctx, "TPL", "val:PrecomputedTerm::%s" % v, EQ(Z, ref), f, ctx.site(b), "val of a precomputed term is Z = t")
        n += 1
    f, _, b = spec(fx, "val", [C("Term::Variable", _0=P("$v")), zarg])
    check_tpl(ctx, "TPL", "val:Variable", EQ(Z, var(("place", "$v.0"), "General")), f, ctx.site(b), "val of a variable is Z = X (general sort)")
    n += 1
    fresh_seen = {}
    for u in fx.variants(A + "UnaryOperator"):
        f, nf, b = spec(fx, "val", [C("Term::UnaryOperation", op=C("UnaryOperator::" + u), arg=P("$arg")), zarg])
        bind = check_tpl(ctx, "TPL", "val:UnaryOperator::%s" % u, val_reference(u), f, ctx.site(b), "-t is 0 - t")
        fresh_seen["UnaryOperator::" + u] = (bind, nf)
        n += 1
    for o in fx.variants(A + "BinaryOperator"):
        f, nf, b = spec(fx, "val", [C("Term::BinaryOperation", op=C("BinaryOperator::" + o), lhs=P("$lhs"), rhs=P("$rhs")), zarg])
        try:
            ref = val_reference(o)
        except AnalysisGap as e:
            ctx.bad("TPL", "val:BinaryOperator::%s" % o, ctx.site(b), str(e))
            continue
        bind = check_tpl(ctx, "TPL", "val:BinaryOperator::%s" % o, ref, f, ctx.site(b), "val_{t1 %s t2}(Z)" % o)
        fresh_seen["BinaryOperator::" + o] = (bind, nf)
        n += 1
    # variants of Term itself are covered
    tv = set(fx.variants(A + "Term"))
    ctx.add("TPL", "val:Term-variants", tv == {"PrecomputedTerm", "Variable", "UnaryOperation", "BinaryOperation"}, "src/syntax_tree/asp/mini_gringo.rs",
            "the term kinds specialised above are all the variants of asp::Term: %s" % sorted(tv))
    ctx.floor("TPL", "val-clauses", n, 12)

    # FRESH: the bound names and the sets they are fresh against
    b = body_of(fx, "val")
    for vk, (bind, nf) in sorted(fresh_seen.items()):
        if bind is None:
            continue
        names = {m: v for m, v in bind.items() if m in "IJKQR"}
        prefixes = {}
        for m, v in sorted(names.items()):
            ok = isinstance(v, tuple) and v[0] == "fresh" and v[2] == 1
            ctx.add("FRESH", "val:%s:%s:origin" % (vk, m), ok, ctx.site(b), "bound variable %s of val_{%s} is a choose_fresh_variable_names result: %s" % (m, vk, rn(v)))
            if ok:
                prefixes[m] = v[1]
        ps = list(prefixes.values())
        ctx.add("FRESH", "val:%s:distinct" % vk, len(set(ps)) == len(ps) and all(re.fullmatch(r"[A-Z]", str(p)) for p in ps), ctx.site(b),
                "the bound variables use pairwise distinct single-letter prefixes (prefix + digits never collide): %s" % prefixes)
        done = set()
        for prefix, count, taken in nf.fresh:
            if (prefix, key(taken)) in done:
                continue
            done.add((prefix, key(taken)))
            tk = nf.varset(taken)
            tnames = {v[1] for v in tk if v[0] == "var"}
            if prefix in (prefixes.get("I"), prefixes.get("J"), prefixes.get("K")):
                # Z can itself be an integer variable of the same letter (val calls val with I / J as Z): it must be in the taken set.
                # The variables of t are general-sorted program variables: an integer-sorted binder of the same name is a different
                # variable, so their presence in the taken set is not required for correctness (it is reported, not demanded).
                have_t = any(isinstance(x, tuple) and x[0] in ("each", "at") and x[1][0] == "call" and x[1][1] == "Term::variables" and is_whole_term(x[1][2][0]) for x in tnames)
                have_z = ("place", "$z.name") in tnames
                ctx.add("FRESH", "val:%s:%s:taken" % (vk, prefix), have_z, ctx.site(b),
                        "%s is chosen fresh against Z (%s) [and against the variables of t: %s]; taken = {%s}" % (prefix, "yes" if have_z else "NO", "yes" if have_t else "no", ", ".join(sorted(rn(x) for x in tnames))))
            # Q, R: what they must avoid is decided by FRESH:val:*:distinct (I, J in the same scope) and FRESH:z-class:Q-R (an integer-sorted Z)


def C_gen(vk):
    return ("param", "$t")


def is_whole_term(t):
    return isinstance(t, tuple) and t[0] == "ctor" and t[1].startswith("Term::")


# ------------------------------------------------------------------------------------------------ tau^B

def paired(name, elem, terms):
    """name = fresh(Z, len(terms))[i]  and  elem = terms[i]  for the same loop over `terms`"""
    if not (isinstance(name, tuple) and name[0] == "fresh"):
        return False, "bound name is not a choose_fresh_variable_names result"
    if name[2] != ("call", "Vec::len", (terms,)):
        return False, "the number of fresh names is not terms.len()"
    sel = name[3]
    eaches_n = {s for s in sym.subterms(sel) if isinstance(s, tuple) and s and s[0] == "each"}
    eaches_e = {s for s in sym.subterms(elem) if isinstance(s, tuple) and s and s[0] == "each"}
    if len(eaches_n) != 1 or eaches_n != eaches_e:
        return False, "index and element do not come from the same iteration"
    src = next(iter(eaches_n))[1]
    if src == ("call", "Iterator::enumerate", (terms,)):
        e = next(iter(eaches_n))
        if sel == ("nth", ("proj", e, (("tuple", "0"),))) and elem == ("proj", e, (("tuple", "1"),)):
            return True, "enumerate"
    return False, "unrecognised pairing idiom"


def rule_tau_b(ctx):
    fx = ctx.facts
    A = "syntax_tree::asp::mini_gringo::"
    signs = {"NoSign": 0, "Negation": 1, "DoubleNegation": 2}
    for s in fx.variants(A + "Sign"):
        if s not in signs:
            ctx.bad("TPL", "tau_b:sign:%s" % s, "src/syntax_tree/asp/mini_gringo.rs", "sign %s has no published tau^B clause" % s)
            continue
        lit = C("Literal", sign=C("Sign::" + s), atom=C("Atom", predicate_symbol=P("$p"), terms=P("$ts")))
        # first-order literal
        f, nf, b = spec(fx, "tau_b_first_order_literal", [lit, P("$taken")])
        zv = var(M("Zi"), "General")
        atom = ("atom", P("$p"), (("loop", zv),))
        for _ in range(signs[s]):
            atom = NOT(atom)
        # ('at', L): the i-th element of list L;  ('fresh', prefix, ('len', L), 'ith'): the i-th of |L| fresh names
        bind = check_tpl(ctx, "TPL", "tau_b:fo:%s" % s, EX([zv], AND(("bigand", VAL(("at", P("$ts")), zv)), atom)), f, ctx.site(b),
                         "[not [not]] p(t1..tk) is  exists Z1..Zk (val_t1(Z1) & .. & val_tk(Zk) & [not [not]] p(Z1..Zk))")
        if bind is not None:
            zi = bind["Zi"]
            ok = isinstance(zi, tuple) and zi[0] == "fresh" and zi[2] == ("len", P("$ts")) and zi[3] == "ith"
            ctx.add("TPL", "tau_b:fo:%s:pairing" % s, ok, ctx.site(b), "the i-th term is evaluated into the i-th of k fresh variables, k = number of terms: %s" % rn(zi))
            tk = [t for p_, c_, t in nf.fresh]
            ctx.add("FRESH", "tau_b:fo:%s:taken" % s, bool(tk) and all(t == P("$taken") for t in tk), ctx.site(b), "Z1..Zk are chosen fresh against the caller's taken set")
        # propositional literal
        f, nf, b = spec(fx, "tau_b_propositional_literal", [lit])
        atom = ("atom", P("$p"), ())
        for _ in range(signs[s]):
            atom = NOT(atom)
        check_tpl(ctx, "TPL", "tau_b:prop:%s" % s, atom, f, ctx.site(b), "[not [not]] p is itself")
    # comparison: one specialisation per relation
    rels = fx.variants(A + "Relation")
    frels = set(fx.variants("syntax_tree::fol::sigma_0::Relation"))
    for r in rels:
        f, nf, b = spec(fx, "tau_b_comparison", [C("Comparison", relation=C("Relation::" + r), lhs=P("$lhs"), rhs=P("$rhs")), P("$taken")])
        z1, z2 = var(M("Z1"), "General"), var(M("Z2"), "General")
        cmp_ = ftpl.NF().cmp(r, z1, z2) if r in frels else ("cmp", r, z1, z2)
        if cmp_[0] in ("eq", "ne"):
            cmp_ = (cmp_[0], (z1, z2))
        bind = check_tpl(ctx, "TPL", "tau_b:comparison:%s" % r, EX([z1, z2], AND(VAL(P("$lhs"), z1), VAL(P("$rhs"), z2), cmp_)), f, ctx.site(b),
                         "t1 %s t2 is  exists Z1 Z2 (val_t1(Z1) & val_t2(Z2) & Z1 %s Z2)" % (r, r))
        if bind is not None:
            a, c = bind["Z1"], bind["Z2"]
            ok = all(isinstance(x, tuple) and x[0] == "fresh" and x[2] == 2 for x in (a, c)) and a[1] == c[1] and a[3] != c[3]
            ctx.add("FRESH", "tau_b:comparison:%s:names" % r, ok, ctx.site(b), "Z1, Z2 are two different results of one choose_fresh_variable_names(.., 2) call: %s, %s" % (rn(a), rn(c)))
            tk = [t for p_, c_, t in nf.fresh]
            ctx.add("FRESH", "tau_b:comparison:%s:taken" % r, bool(tk) and all(t == P("$taken") for t in tk), ctx.site(b), "Z1, Z2 are chosen fresh against the caller's taken set")
    # dispatch
    b = body_of(fx, "tau_b")
    taken_ref = {("var", ("each", ("call", "AtomicFormula::variables", (M("f"),))), "General")}
    for kind, arg, want in (("literal-fo", C("AtomicFormula::Literal", _0=C("Literal", sign=P("$sign"), atom=C("Atom", predicate_symbol=P("$p"), terms=("list", (P("$t1"),))))), "tau_b_first_order_literal"),
                            ("literal-prop", C("AtomicFormula::Literal", _0=C("Literal", sign=P("$sign"), atom=C("Atom", predicate_symbol=P("$p"), terms=("list", ())))), "tau_b_propositional_literal"),
                            ("comparison", C("AtomicFormula::Comparison", _0=P("$c")), "tau_b_comparison")):
        f, nf, _ = spec(fx, "tau_b", [arg], inline=())
        f = decide_len(f)
        ok = f[0] == "F" and f[1] == "tau_star::" + want
        ctx.add("DISPATCH", "tau_b:" + kind, ok, ctx.site(b), "tau_b routes a %s to %s: %s" % (kind, want, render(f)))
        if ok and len(f[2]) > 1:
            n2 = ftpl.NF()
            tk = n2.varset(sym_of(f[2][1]))
            names = {v[1] for v in tk if v[0] == "var"}
            good = any(isinstance(x, tuple) and x[0] in ("each", "at") and x[1][0] == "call" and x[1][1] == "AtomicFormula::variables" and x[1][2][0][0] == "ctor" for x in names)
            ctx.add("FRESH", "tau_b:%s:taken" % kind, good, ctx.site(b), "the taken set handed to %s holds every variable of the whole atomic formula: {%s}" % (want, ", ".join(rn(x) for x in names)))
    f, nf, b = spec(fx, "tau_body", [C("Body", formulas=P("$fs"))], inline=())
    check_tpl(ctx, "TPL", "tau_body", ("bigand", ("F", "tau_star::tau_b", (("at", P("$fs")),))), f, ctx.site(b), "the body is the conjunction of tau_b of each of its atomic formulas")


def sym_of(g):
    """undo NF.gen far enough for varset (gen keeps the upd / ctor structure)"""
    return g


def decide_len(f):
    """if len(list literal) > 0 { A } else { B } on a literal list"""
    if f[0] == "if":
        c = f[1]
        if c[0] == "bin" and c[1] == "Gt" and c[3] == ("lit", 0) and c[2][0] == "call" and c[2][1] == "Vec::len" and c[2][2][0][0] == "list":
            return f[2] if len(c[2][2][0][1]) > 0 else f[3]
    return f


# ------------------------------------------------------------------------------------------------ tau*

def rule_tau_star(ctx):
    fx = ctx.facts
    A = "syntax_tree::asp::mini_gringo::"
    R = P("$r")
    BODY = ("F", "tau_star::tau_body", (("place", "$r.body"),))
    GV = var(("at", ("call", "Rule::variables", (R,))), "General")
    heads = set(fx.variants(A + "Head"))
    ctx.add("TPL", "tau_star:Head-variants", heads == {"Basic", "Choice", "Falsity"}, "src/syntax_tree/asp/mini_gringo.rs", "head kinds: %s" % sorted(heads))
    # first-order heads
    for h in ("Basic", "Choice"):
        rule = C("Rule", head=C("Head::" + h, _0=P("$a")), body=P("$body"))
        f, nf, b = spec(fx, "tau_star_fo_head_rule", [P("$r"), P("$globals")], inline=())
        f = select_head(f, h)
        vv = var(M("Vi"), "General")
        pv = ("atom", M("p"), (("loop", vv),))
        lhs = [("F", "tau_star::valtz", (M("terms"), M("vs"))), BODY]
        if h == "Choice":
            lhs.append(NOT(NOT(pv)))
        bind = check_tpl(ctx, "TPL", "tau_star:fo:%s" % h, ALL([GV, var(M("Vall"), "General")], IMP(AND(*lhs), pv)), f, ctx.site(b),
                         "%s rule with a first-order head:  forall G V (val_t(V) & tau^B(Body)%s -> p(V))" % (h, " & not not p(V)" if h == "Choice" else ""))
        if bind is not None:
            G = ("nth", P("$globals"), ("ctor", "Range", (("end", ("call", "Head::arity", (("place", "$r.head"),))), ("start", ("lit", 0)))))
            HT = ("call", "Option::unwrap", (("call", "Head::terms", (("place", "$r.head"),)),))
            idx = ("idx", HT)
            # V_i is globals[0..arity][i] either by indexing with the position of the head term, or by walking globals[0..arity] itself (as many steps
            # as there are head terms: DISPATCH:Head::arity)
            walked = bind["Vi"] == ("at", G) and arity_is_term_count(fx)
            ok_v = (bind["Vi"] == ("nth", G, idx) or walked) and bind["Vall"] == ("at", G)
            ctx.add("TPL", "tau_star:fo:%s:V" % h, ok_v, ctx.site(b), "V_i = globals[0..arity][i] for the i-th head term, and all of globals[0..arity] are bound: V_i = %s, bound = %s" % (rn(bind["Vi"]), rn(bind["Vall"])))
            ok_t = bind["terms"] == HT
            vs = bind["vs"]
            velem = ftpl._comp(vs)
            ok_vs = velem == ("ctor", "Variable", (("name", bind["Vi"]), ("sort", ("ctor", "Sort::General", ())))) and ok_v
            ctx.add("TPL", "tau_star:fo:%s:valtz-args" % h, ok_t and ok_vs, ctx.site(b), "val_t(V) pairs the head terms with V in order: terms = %s, variables = %s" % (rn(bind["terms"]), rn(vs)))
            okp = bind["p"] == ("place", "$sym") or "Head::predicate" in key(bind["p"])
            ctx.add("TPL", "tau_star:fo:%s:predicate" % h, okp and key(bind["p"]).count("symbol") >= 1, ctx.site(b), "the head atom keeps the predicate symbol of the rule head: %s" % rn(bind["p"]))
    # propositional heads
    for h in ("Basic", "Choice"):
        f, nf, b = spec(fx, "tau_star_prop_head_rule", [P("$r")], inline=())
        f = select_head(f, h)
        pv = ("atom", M("p"), ())
        lhs = [BODY] + ([NOT(NOT(pv))] if h == "Choice" else [])
        bind = check_tpl(ctx, "TPL", "tau_star:prop:%s" % h, ALL([GV], IMP(AND(*lhs), pv)), f, ctx.site(b),
                         "%s rule with a propositional head:  forall G (tau^B(Body)%s -> p)" % (h, " & not not p" if h == "Choice" else ""))
        if bind is not None:
            ctx.add("TPL", "tau_star:prop:%s:predicate" % h, "Head::predicate" in key(bind["p"]) and "symbol" in key(bind["p"]), ctx.site(b), "the head atom keeps the predicate symbol of the rule head: %s" % rn(bind["p"]))
    f, nf, b = spec(fx, "tau_star_constraint_rule", [P("$r")], inline=())
    check_tpl(ctx, "TPL", "tau_star:constraint", ALL([GV], IMP(BODY, ("false",))), f, ctx.site(b), "constraint:  forall G (tau^B(Body) -> #false)")
    # valtz
    f, nf, b = spec(fx, "valtz", [P("$terms"), P("$vars")], inline=())
    want = ("bigand", VAL(("at", P("$terms")), var(("each-name", P("$vars")), ("each-sort", P("$vars")))))
    ctx.add("TPL", "valtz", f == want, ctx.site(b), "valtz(terms, variables) is the conjunction of val(t_i, v_i), the i-th term with the i-th variable: %s" % render(f))
    # dispatch of tau_star_rule
    b = body_of(fx, "tau_star_rule")
    ev = sym.Eval(fx, inline_depth=0)
    v = ev.function(b, [P("$r"), P("$globals")])
    # decided on a present / absent head predicate and on head arities 0, 1, 3 (match, if, guard clauses and `== 0` / `> 0` are the same to it)
    from .. import comp as _comp, leaves as _lv
    _comp.use(fx)
    PRED_, AR_ = ("call", "Head::predicate", (("place", "$r.head"),)), ("call", "Head::arity", (("place", "$r.head"),))
    FO_, PROP_, CONSTR_ = ("call", "tau_star::tau_star_fo_head_rule", (P("$r"), P("$globals"))), ("call", "tau_star::tau_star_prop_head_rule", (P("$r"),)), ("call", "tau_star::tau_star_constraint_rule", (P("$r"),))
    got_d, want_d = {}, {}
    for pk, pv in (("some", ("ctor", "Option::Some", (("0", P("$p")),))), ("none", ("ctor", "Option::None", ()))):
        for n_ in (0, 1, 3):
            got_d[(pk, n_)] = _comp.decide_literals(_comp.case_of_case(_lv.lift(_lv.replace(reduce(v), {PRED_: pv, AR_: ("lit", n_)}))))
            want_d[(pk, n_)] = CONSTR_ if pk == "none" else (FO_ if n_ > 0 else PROP_)
    want = want_d
    ctx.add("DISPATCH", "tau_star_rule", got_d == want, ctx.site(b),
            "a rule whose head has a predicate goes to the first-order constructor iff the head arity is > 0, to the propositional one otherwise; a rule without head predicate is a constraint")
    # Head::predicate / arity / terms agree with the head kinds
    for meth, ref in (("predicate", {"Basic": "Some", "Choice": "Some", "Falsity": "None"}), ("terms", {"Basic": "Some", "Choice": "Some", "Falsity": "None"})):
        hb = [x for x in fx.body_list if x["def_path"] == A + "Head::" + meth]
        if len(hb) != 1:
            raise AnalysisGap("Head::%s not found" % meth)
        hv = sym.Eval(fx, inline_depth=0).function(hb[0])
        got = {}
        if hv[0] == "match":
            for a in hv[2]:
                vname = a[0].split("::")[1].split("(")[0]
                r_ = a[-1]
                got[vname] = "Some" if (r_[0] == "ctor" and r_[1].endswith("Some")) else ("None" if r_[0] == "ctor" and r_[1].endswith("None") else "?")
        ctx.add("DISPATCH", "Head::" + meth, got == ref, ctx.site(hb[0]), "Head::%s is Some for basic and choice heads, None for constraints: %s" % (meth, got))
    ctx.add("DISPATCH", "Head::arity", arity_is_term_count(fx), "src/syntax_tree/asp/mini_gringo.rs", "Head::arity is the number of the terms Head::terms hands out (so walking globals[0..arity] and walking the head terms take the same number of steps)")
    # the program level
    b = body_of(fx, "tau_star")
    ev = sym.Eval(fx, inline_depth=0)
    v = ftpl.canon_iter(reduce(ev.function(b, [P("$p")])))
    elem = ("call", "tau_star::tau_star_rule", (("at", ("place", "$p.rules")), ("call", "tau_star::choose_fresh_global_variables", (P("$p"),))))
    fm = dict(v[2]).get("formulas") if v[0] == "ctor" and v[1] == "Theory" else None
    ctx.add("TPL", "tau_star:program", fm is not None and ftpl._comp(fm) == elem, ctx.site(b), "the theory has one tau_star_rule formula per rule, in order, with the globals chosen for this very program: %s" % rn(ftpl.NF().gen(v)))


def arity_is_term_count(fx):
    """Head::arity(h) == Head::terms(h).unwrap().len() for basic and choice heads: both read the same `terms` field of the head atom"""
    A = "syntax_tree::asp::mini_gringo::"
    vals = {}
    for meth in ("arity", "terms"):
        hb = [x for x in fx.body_list if x["def_path"] == A + "Head::" + meth]
        if len(hb) != 1:
            return False
        hv = sym.Eval(fx, inline_depth=0).function(hb[0])
        if hv[0] != "match" or hv[1] != ("param", "self"):
            return False
        for a in hv[2]:
            if len(a) != 2:
                return False
            for alt in a[0].split(" | "):
                vals[(meth, alt.split("(")[0])] = a[1]
    for k in ("Basic", "Choice"):
        fld = ("fieldof", ("proj", ("param", "self"), (("Head::" + k, "0"),)), "terms")
        ar, tm = vals.get(("arity", "Head::" + k)), vals.get(("terms", "Head::" + k))
        if ar != ("call", "Vec::len", (fld,)):
            return False
        while isinstance(tm, tuple) and tm and tm[0] in ("ref", "deref", "borrow"):
            tm = tm[1]
        if not (isinstance(tm, tuple) and tm[0] == "ctor" and tm[1].endswith("Some") and fld in [x[1] if isinstance(x, tuple) and len(x) == 2 and isinstance(x[0], str) else x for x in tm[2]]):
            return False
    return True


def select_head(f, h):
    """specialise every `match r.head { Basic / Choice / .. }` inside f to head kind h"""
    if not isinstance(f, tuple):
        return f
    if f and f[0] == "match" and f[1] == ("place", "$r.head"):
        for a in f[2]:
            if any(alt.startswith("Head::" + h) or alt == "_" for alt in a[0].split(" | ")):
                if len(a) > 2:
                    raise AnalysisGap("the arm `%s` for head kind %s is guarded: cannot decide which formula is built" % (a[0], h))
                return select_head(a[-1], h)
        raise AnalysisGap("no arm for head kind %s" % h)
    out = tuple(select_head(x, h) for x in f)
    if out and out[0] == "and":
        return ftpl.NF().conj(list(out[1]))
    return out


# ------------------------------------------------------------------------------------------------ the name choosers

def rule_choosers(ctx):
    fx = ctx.facts
    b = body_of(fx, "choose_fresh_variable_names")
    check_chooser(ctx, b)
    rule_globals(ctx)


def check_chooser(ctx, b, group="FRESH", tag="chooser"):
    """the name chooser `choose_fresh_variable_names(variables, variant, arity)`: candidates are the prefix (only when free) and prefix + number;
    a candidate is redrawn while it is taken OR already handed out; `taken` holds the name of every variable of the argument"""
    fx = ctx.facts
    from ..facts import walk, local_id_of, strip
    ev = sym.Eval(fx, inline_depth=0)
    ev.function(b, [P("$variables"), P("$variant"), P("$arity")])
    # the locals by their role, not by their name: `fresh` is what the function returns; `taken` is the list that receives the name of every
    # element of the first parameter
    tail = b["body"].get("expr")
    fresh_id = local_id_of(tail) if tail is not None else None
    from ..facts import pat_bindings
    id_name = {}
    for n_ in walk(b["body"]):
        if n_.get("k") == "LetStmt":
            for pb in pat_bindings(n_["pat"]):
                id_name[pb["id"]] = pb["name"]
    for p_ in b["params"]:
        for pb in pat_bindings(p_):
            id_name[pb["id"]] = pb["name"]
    fresh_name = id_name.get(fresh_id)
    taken_name = None
    for nm, vals in ev.last_env.items():
        t = vals[-1]
        if nm != fresh_name and isinstance(t, tuple) and t[:1] == ("upd",) and t[2] in ("push", "insert") and isinstance(t[1], tuple) and t[1][:1] == ("acc",) \
                and t[1][1][:1] == ("call",) and t[1][1][1].endswith("::new") and "each" in key(t[3]) and "$variables" in key(t[3]) and (".name" in key(t[3]) or "'name'" in key(t[3])):
            taken_name = nm
    if taken_name is None:
        # the same list built by an iterator chain: `variables.iter().map(|v| v.name..).collect()`
        from .. import comp as _comp
        from ..leaves import norm as _norm
        VARS_ = _norm(P("$variables"))
        for nm, vals in ev.last_env.items():
            if nm == fresh_name or not vals:
                continue
            try:
                cv_ = _comp.canon(vals[-1])
            except Exception:
                continue
            if isinstance(cv_, tuple) and cv_[:1] == ("coll",) and len(cv_[1]) == 1 and cv_[1][0][0] == (VARS_,) and len(cv_[1][0][1]) == 1 and not cv_[1][0][1][0][0] \
                    and cv_[1][0][1][0][1] in (("fieldof", ("at", VARS_), "name"), ("call", "String::as_str", (("fieldof", ("at", VARS_), "name"),))):
                taken_name = nm
    taken_pred_ids = set()
    if taken_name is None:
        # no list at all: a local predicate `|name| variables.iter().any(|v| v.name == name)` asks the first parameter itself
        first_param = {pb["id"] for pb in pat_bindings(b["params"][0])} if b["params"] else set()
        for n_ in walk(b["body"]):
            if n_.get("k") != "LetStmt" or "init" not in n_ or strip(n_["init"]).get("k") != "Closure":
                continue
            cl_ = strip(n_["init"])
            if len(cl_.get("params", [])) != 1:
                continue
            arg_ids = {pb["id"] for pb in pat_bindings(cl_["params"][0])}
            body_ = strip(cl_["body"])
            while body_.get("k") == "Block" and not body_.get("stmts") and body_.get("expr") is not None:
                body_ = strip(body_["expr"])
            if body_.get("k") != "MethodCall" or body_.get("method") != "any" or len(body_.get("args", [])) != 1:
                continue
            r_ = strip(body_["recv"])
            while r_.get("k") == "MethodCall" and r_.get("method") in ("iter", "into_iter"):
                r_ = strip(r_["recv"])
            inner_ = strip(body_["args"][0])
            if local_id_of(r_) not in first_param or inner_.get("k") != "Closure" or len(inner_.get("params", [])) != 1:
                continue
            el_ids = {pb["id"] for pb in pat_bindings(inner_["params"][0])}
            ib_ = strip(inner_["body"])
            while ib_.get("k") == "Block" and not ib_.get("stmts") and ib_.get("expr") is not None:
                ib_ = strip(ib_["expr"])
            if ib_.get("k") != "Binary" or ib_.get("op") != "Eq":
                continue

            def side(e_):
                e_ = strip(e_)
                while e_.get("k") in ("Unary", "AddrOf", "Ref") or (e_.get("k") == "MethodCall" and e_.get("method") in ("as_str", "as_ref", "deref")):
                    e_ = strip(e_["e"] if "e" in e_ else e_["recv"])
                if e_.get("k") == "Field" and e_.get("name") == "name" and local_id_of(e_["e"]) in el_ids:
                    return "elem-name"
                if local_id_of(e_) in arg_ids:
                    return "arg"
                return None
            if {side(ib_["l"]), side(ib_["r"])} == {"elem-name", "arg"}:
                for pb in pat_bindings(n_["pat"]):
                    taken_name = pb["name"]
                    taken_pred_ids.add(pb["id"])
    taken_ids = {i_ for i_, n_ in id_name.items() if n_ == taken_name} | taken_pred_ids
    fresh_ids = {i_ for i_, n_ in id_name.items() if n_ == fresh_name}
    # the search loop is left exactly when the candidate is neither taken nor already chosen: `while a || b { redraw }`, `loop { if !a && !b
    # { break c } redraw }` and De Morgan variants are the same exit condition over the two membership tests
    def truth(e, env):
        e = strip(e)
        k_ = e.get("k")
        if k_ == "Binary" and e.get("op") in ("Or", "And"):
            l_, r_ = truth(e["l"], env), truth(e["r"], env)
            if l_ is None or r_ is None:
                return None
            return (l_ or r_) if e["op"] == "Or" else (l_ and r_)
        if k_ == "Unary" and e.get("op") == "Not":
            v_ = truth(e["e"], env)
            return None if v_ is None else not v_
        if k_ == "MethodCall" and e.get("method") == "contains":
            rid = local_id_of(e["recv"])
            return env["taken"] if rid in taken_ids else (env["fresh"] if rid in fresh_ids else None)
        if k_ == "Call" and local_id_of(e["f"]) in taken_pred_ids:
            return env["taken"]
        if k_ in ("DropTemps", "Paren", "Use"):
            return truth(e["e"], env)
        return None
    in_while = []
    exits = None
    for lp in [n for n in walk(b["body"]) if n.get("k") == "Loop" and n.get("src") != "ForLoop"]:
        for c in walk(lp):
            if c.get("k") != "If" or not [x for x in walk(c["cond"]) if x.get("k") == "MethodCall" and x["method"] == "contains"]:
                continue
            brk_then = any(x.get("k") == "Break" for x in walk(c["then"]))
            brk_else = "else" in c and any(x.get("k") == "Break" for x in walk(c["else"]))
            if brk_then == brk_else:
                continue
            table = {}
            for ta in (False, True):
                for fr in (False, True):
                    v_ = truth(c["cond"], {"taken": ta, "fresh": fr})
                    table[(ta, fr)] = None if v_ is None else (v_ if brk_then else not v_)
            exits = table
            in_while = sorted("%s%s:%s" % ("taken " if ta else "", "chosen" if fr else "", "exit" if table[(ta, fr)] else ("stay" if table[(ta, fr)] is False else "?")) for ta, fr in table)
            break
        if exits is not None:
            break
    if exits is None:
        # the search as an iterator: `(n..).map(|m| format!(..)).find(|c| !taken.contains(c) && !fresh.contains(c))` stops at the first candidate
        # its closure accepts
        for fc in [n for n in walk(b["body"]) if n.get("k") == "MethodCall" and n.get("method") == "find" and len(n.get("args", [])) == 1 and strip(n["args"][0]).get("k") == "Closure"]:
            cl_ = strip(fc["args"][0])
            body_ = strip(cl_["body"])
            while body_.get("k") == "Block" and not body_.get("stmts") and body_.get("expr") is not None:
                body_ = strip(body_["expr"])
            unbounded = any(x.get("k") == "Struct" and "RangeFrom" in str(x.get("ty", "") + str(x.get("res", {}).get("adt", ""))) for x in walk(fc["recv"])) or "RangeFrom" in str(fc["recv"].get("ty", ""))
            table = {}
            for ta in (False, True):
                for fr in (False, True):
                    table[(ta, fr)] = truth(body_, {"taken": ta, "fresh": fr})
            if unbounded and all(v_ is not None for v_ in table.values()):
                exits = table
                in_while = sorted("%s%s:%s" % ("taken " if ta else "", "chosen" if fr else "", "exit" if table[(ta, fr)] else "stay") for ta, fr in table)
                break
    ok_loop = exits is not None and exits == {(False, False): True, (False, True): False, (True, False): False, (True, True): False}
    ctx.add(group, tag + ":loop", ok_loop, ctx.site(b),
            "a candidate is redrawn while it is in the taken names (`%s`) OR among the names already handed out (`%s`): %s" % (taken_name, fresh_name, in_while))
    # taken holds the name of every element of `variables`
    last = ev.last_env.get(taken_name, [None])[-1] if taken_name else None
    if taken_pred_ids:
        last = ("call", "Iterator::any", (P("$variables"), ("closure", ("v",), ("bin", "Eq", ("fieldof", ("param", "v"), "name"), ("param", "name")))))
    ctx.add(group, tag + ":taken-all", last is not None, ctx.site(b), "a list receives the name of every variable of the `variables` argument: %s" % rn(ftpl.NF().gen(last) if last else None))
    # the plain variant is only used when not taken
    m = [n for n in walk(b["body"]) if n.get("k") == "Match" and any(x.get("k") == "MethodCall" and x["method"] == "contains" for x in walk(n["scrut"]))]
    okm = False
    if m:
        arms = {hq.pat_key(a["pat"]): a for a in m[0]["arms"]}
        f_arm = arms.get("false")
        t_arm = arms.get("true")
        if f_arm and t_arm:
            pushes_f = [x for x in walk(f_arm["body"]) if x.get("k") == "MethodCall" and x["method"] == "push"]
            pushes_t = [x for x in walk(t_arm["body"]) if x.get("k") == "MethodCall" and x["method"] == "push"]
            sc_recv = [local_id_of(x["recv"]) for x in walk(m[0]["scrut"]) if x.get("k") == "MethodCall" and x["method"] == "contains"]
            okm = len(pushes_f) == 1 and not pushes_t and bool(sc_recv) and all(r_ in taken_ids for r_ in sc_recv)
    if not okm:
        # the same decision written as `if taken.contains(variant) { .. } else { fresh.push(variant); .. }` (or with the test negated)
        for n_ in walk(b["body"]):
            if n_.get("k") == "If" and "else" in n_:
                def root_id(e_):
                    e_ = strip(e_)
                    while e_.get("k") == "MethodCall" and e_.get("method") in ("iter", "into_iter", "as_slice", "as_ref"):
                        e_ = strip(e_["recv"])
                    return local_id_of(e_)
                # membership of the prefix in the taken names: `taken.contains(variant)` or `taken.iter().any(|t| t == variant)`
                cc = [x for x in walk(n_["cond"]) if x.get("k") == "MethodCall" and x["method"] in ("contains", "any")]
                pc = [x for x in walk(n_["cond"]) if x.get("k") == "Call" and local_id_of(x["f"]) in taken_pred_ids]
                if len(pc) == 1 and not cc:
                    cc = [{"method": "pred", "recv": pc[0]["f"], "args": pc[0]["args"]}]
                if len(cc) != 1 or root_id(cc[0]["recv"]) not in taken_ids:
                    continue
                if cc[0]["method"] == "any" and not [y for y in walk(cc[0]["args"][0]) if y.get("k") == "Binary" and y.get("op") == "Eq"]:
                    continue
                neg = strip(n_["cond"]).get("k") == "Unary" and strip(n_["cond"]).get("op") == "Not"
                yes, no = (n_["else"], n_["then"]) if neg else (n_["then"], n_["else"])       # yes: the prefix is taken
                p_yes = [x for x in walk(yes) if x.get("k") == "MethodCall" and x["method"] == "push"]
                p_no = [x for x in walk(no) if x.get("k") == "MethodCall" and x["method"] == "push" and local_id_of(x["recv"]) in fresh_ids]
                if not p_yes and len(p_no) == 1:
                    okm = True
    ctx.add(group, tag + ":plain-variant", okm, ctx.site(b), "the undecorated prefix itself is handed out only when the taken names do not contain it")
    # candidates are prefix + number: what is pushed into the result inside the numbered loop
    pushed = [t for vals in ev.bound.values() for t in vals] + [t for vals in ev.last_env.values() for t in vals]
    def prefix_number(c):
        # `format!("{variant}{m}")`: the prefix immediately followed by a counter
        return any(isinstance(x, tuple) and x[:2] == ("format", "{}{}") and len(x[2]) == 2 and x[2][0] == P("$variant") for x in sym.subterms(c))
    ctx.add(group, tag + ":candidate-shape", any(isinstance(c, tuple) and (("push_str" in key(c) and "$variant" in key(c)) or prefix_number(c)) for c in pushed), ctx.site(b),
            "every candidate is the prefix followed by a decimal number")


def rule_globals(ctx):
    from ..facts import walk
    fx = ctx.facts
    # globals:  V<m+1> .. V<m+n>,  m = max number of a program variable matching ^V[0-9]*$,  n = max head arity
    g = body_of(fx, "choose_fresh_global_variables")
    ev = sym.Eval(fx, inline_depth=0)
    gv = ftpl.canon_iter(reduce(ev.function(g, [P("$program")])))
    gel = ftpl._comp(gv)
    # each element: "V" followed by a number
    num = None
    if gel is not None and gel[0] == "upd" and gel[1] == ("lit", "V") and gel[2] == "push_str":
        num = gel[3][0]
    elif gel is not None and gel[0] == "format" and re.fullmatch(r"V\{\w*\}", gel[1]) and len(gel[2]) == 1:
        num = gel[2][0]
    ctx.add("FRESH", "globals:shape", num is not None, ctx.site(g), "every global variable is the letter V followed by a number, produced in order")
    maxv = maxar = rng = None
    if num is not None and num[0] == "bin" and num[1] == "Add":
        a, c = num[2], num[3]
        for x, y in ((a, c), (c, a)):
            if y[0] == "at" and y[1][0] == "ctor" and y[1][1] == "Range":
                maxv, rng = x, dict(y[1][2])
    ctx.add("FRESH", "globals:offset", bool(rng) and rng.get("start") == ("lit", 1), ctx.site(g),
            "the i-th global is V<max_taken + i> with i counting from 1, so its number is larger than every taken number")
    if rng:
        e = rng.get("end")
        if e and e[0] == "bin" and e[1] == "Add" and ("lit", 1) in (e[2], e[3]):
            maxar = e[2] if e[3] == ("lit", 1) else e[3]
    fa = maxfold(maxar) if maxar else None
    ctx.add("FRESH", "globals:count", fa is not None and fa[1] is None and fa[0] == ("call", "Head::arity", (("fieldof", ("at", ("place", "$program.rules")), "head"),)), ctx.site(g),
            "as many globals as the largest head arity over all rules of the program are produced (so globals[0..arity] never runs short): %s" % (rn(ftpl.NF().gen(fa[0])) if fa else None))
    fv = maxfold(maxv) if maxv else None
    PV = ("call", "Program::variables", (P("$program"),))
    name = ("fieldof", ("at", PV), "0")
    cap = ("call", "Regex::captures", (("const", "RE"), name))
    # the match object: either bound by `if let Some(caps) = RE.captures(name)` or produced by filter_map(|var| RE.captures(&var.0))
    caps_loop = ("proj", cap, (("Option::Some", "0"),))
    caps_iter = ("at", ("call", "Iterator::filter_map", (PV, ("closure", ("var",), ("call", "Regex::captures", (("const", "RE"), ("place", "var.0")))))))

    def elem_of(c):
        return ("call", "Result::unwrap_or", (("call", "str::parse", (("index", c, ("lit", "number")),)), ("lit", 0)))
    okmax = fv is not None and (fv == (elem_of(caps_loop), ("iflet", "Option::Some(_)", cap)) or fv == (elem_of(caps_iter), None) or
                                (fv[1] is None and fv[0][:2] == ("call", "Result::unwrap_or") and "Iterator::filter_map" in key(fv[0]) and key(fv[0]).count("Regex::captures") == 1 and
                                 key(PV) in key(fv[0]) and "('const', 'RE')" in key(fv[0]) and "('lit', 'number')" in key(fv[0])))
    ctx.add("FRESH", "globals:max", okmax, ctx.site(g),
            "max_taken is the maximum, over every variable of the whole program whose name matches RE, of the number after the V (0 when it does not parse)")
    # RE: the language is exactly V[0-9]*, the group `number` is the digit string
    from .. import regular
    lits = []
    for b2 in fx.body_list:
        if b2["def_path"].startswith("<" + TS + "RE as ") and "__static_ref_initialize" in b2["def_path"]:
            for c in hq.calls(b2["body"], "Regex::new"):
                lits += [a.get("v") for a in walk(c) if a.get("k") == "Lit" and isinstance(a.get("v"), str)]
    if len(lits) != 1:
        raise AnalysisGap("tau_star::RE: cannot find the expression literal")
    try:
        ast, a0, a1, groups = regular.parse_regex(lits[0])
        w = regular.difference_witness(ast, regular.seq(regular.lit("V"), regular.star(regular.cls(regular.DIGIT))))
        inner = re.search(r"\(\?P?<number>([^()]*)\)", lits[0])
        gok = groups == ["number"] and inner is not None and regular.difference_witness(regular.parse_regex("^" + inner.group(1) + "$")[0], regular.star(regular.cls(regular.DIGIT))) is None
        ctx.add("FRESH", "globals:regex", w is None and gok, ctx.site(g),
                "RE accepts exactly the names V<digits> (difference witness: %r) and its group `number` is the digit string: %s" % (w, lits[0]))
    except ValueError as e:
        ctx.gap("FRESH", "globals:regex", ctx.site(g), "cannot analyse the expression %r: %s" % (lits[0], e))


def maxfold(t):
    """t = the value of `m` after  for x in S { [if let P = G] { if X > m { m = X } } }  with m initially 0,  or  S.map(X).max().unwrap_or(0)
    ->  (X, guard or None)"""
    if t[:2] == ("call", "Option::unwrap_or") and len(t[2]) == 2 and t[2][1] == ("lit", 0) and t[2][0][:2] == ("call", "Iterator::max"):
        el = ftpl._comp(t[2][0][2][0])
        return (el, None) if el is not None else None
    guard = None
    if t[0] == "phi" and t[1][0] == "if" and t[1][1][0] == "iflet":
        guard = t[1][1]
        arms = dict(t[2])
        if arms.get("else") != ("acc", ("lit", 0)):
            return None
        t = arms.get("then")
    if not (t and t[0] == "phi" and t[1][0] == "if" and t[1][1][0] == "bin" and t[1][1][1] == "Gt" and t[1][1][3] == ("acc", ("lit", 0))):
        return None
    x = t[1][1][2]
    arms = dict(t[2])
    if arms.get("then") != x or arms.get("else") != ("acc", ("lit", 0)):
        return None
    return (x, guard)


def rule_zclass(ctx):
    """Q and R are chosen fresh against the variables of val_t1(I), val_t2(J) but not against Z itself: Z can only be a name whose letter
    (and sort) is not that of Q / R.  Every function of tau_star.rs that reaches `val` (directly or through valtz) is evaluated and the Z of
    every val call classified: a fresh name (by prefix and sort), one of the global variables, or - inside val - val's own Z."""
    fx = ctx.facts
    classes = {}
    qr = set()
    # the prefix of the global variables
    g = body_of(fx, "choose_fresh_global_variables")
    gv = ftpl.canon_iter(reduce(sym.Eval(fx, inline_depth=0).function(g, [P("$program")])))
    gel = ftpl._comp(gv)
    gl = None
    if gel is not None and gel[0] == "format" and gel[1][:1].isalpha():
        gl = gel[1][0]
    elif gel is not None and gel[0] == "upd" and gel[1][0] == "lit" and isinstance(gel[1][1], str) and gel[1][1][:1].isalpha():
        gl = gel[1][1][0]
    private_outside = []
    for b in fx.body_list:
        dp = b["def_path"]
        if "::tests::" in dp or b.get("kind") not in ("Fn", "AssocFn") or "{" in dp:
            continue
        refs = any(hq.fn_refs(b["body"], TS + t) or hq.calls(b["body"], TS + t) for t in ("val", "valtz"))
        if not refs:
            continue
        if not dp.startswith(TS):
            private_outside.append(dp)
            continue
        name = dp[len(TS):]
        if name == "valtz":
            continue  # inlined into its callers
        A = "syntax_tree::asp::mini_gringo::"
        argsets = [[P("$" + (p_.get("name") or "a%d" % i_)) for i_, p_ in enumerate(b["params"])]]
        if name == "val":
            argsets = [[C("Term::BinaryOperation", op=C("BinaryOperator::" + o), lhs=P("$lhs"), rhs=P("$rhs")), P("$z")] for o in fx.variants(A + "BinaryOperator")] + \
                      [[C("Term::UnaryOperation", op=C("UnaryOperator::" + u), arg=P("$arg")), P("$z")] for u in fx.variants(A + "UnaryOperator")]
        for args in argsets:
            ev = sym.Eval(fx, inline_depth=2, inline=lambda p_: p_.startswith(TS) and p_[len(TS):].startswith(("construct_", "valtz")))
            v = ftpl.canon_iter(reduce(ev.function(b, list(args))))
            nf = ftpl.NF()
            for s_ in sym.subterms(v):
                if isinstance(s_, tuple) and s_[:2] == ("call", "tau_star::val") and len(s_[2]) == 2:
                    try:
                        zv = nf.var(s_[2][1])
                    except AnalysisGap:
                        zv = ("var", ("?", s_[2][1]), "?")
                    nm, srt = zv[1], zv[2]
                    if name == "val" and nm == ("place", "$z.name"):
                        continue
                    if isinstance(nm, tuple) and nm and nm[0] == "fresh":
                        classes.setdefault(name, set()).add(name_class(nm, srt))
                    elif "$globals" in key(nm) and gl:
                        classes.setdefault(name, set()).add("globals:%s$%s" % (gl, str(srt)[0].lower()))
                    else:
                        classes.setdefault(name, set()).add("other:%s" % rn(nm))
                if name == "val" and isinstance(s_, tuple) and s_[:2] == ("ctor", "Formula::QuantifiedFormula"):
                    try:
                        q = nf.formula(s_)
                        for vv in q[2]:
                            qr.add(name_class(vv[1], vv[2]))
                    except Exception:
                        pass
    ctx.add("FRESH", "z-class:callers", not private_outside, "src/translating/formula_representation/tau_star.rs", "val / valtz are used inside tau_star.rs only: %s" % private_outside)
    flat = set()
    for v in classes.values():
        flat |= v
    letters = {c.split(":")[-1] for c in flat}
    ok = bool(flat) and all(re.fullmatch(r"(fresh|globals):[A-Z]\$[gi]", c) for c in flat) and "val" in classes and len(classes) >= 3
    ctx.add("FRESH", "z-class:origins", ok, "src/translating/formula_representation/tau_star.rs", "every Z handed to val is a fresh name or a global variable: %s" % {k_: sorted(v) for k_, v in sorted(classes.items())})
    # a variable is identified by name and sort: only a Z of the same sort as the quotient / remainder variable can be captured
    qr_letters = {c.split(":")[-1] for c in qr if c.startswith("fresh:")}
    inner = qr_letters - {c.split(":")[-1] for c in classes.get("val", ())}
    ctx.add("FRESH", "z-class:Q-R", ok and bool(inner) and not (inner & letters), "src/translating/formula_representation/tau_star.rs",
            "the quotient / remainder variables %s use letters that no Z can carry %s (a Z named like them would be captured by the division quantifier)" % (sorted(inner), sorted(letters)))


def name_class(n, sort=None):
    if isinstance(n, tuple) and n and n[0] == "fresh":
        return "fresh:%s%s" % (n[1], "" if sort is None else "$" + str(sort)[0].lower())
    return "other:%s" % rn(n)


def rule_collect(ctx):
    fx = ctx.facts
    A = "syntax_tree::asp::mini_gringo::"
    reach = collect.reachable_types(fx, {A + "Variable"})
    n = 0
    for adt in ("Term", "Atom", "Literal", "Comparison", "AtomicFormula", "Head", "Body", "Rule", "Program"):
        n += collect.check_method(ctx, "COLLECT", fx, A + adt, "variables", reach)
    ctx.floor("COLLECT", "fields", n, 12)
    # Formula::variables of the target language (used for the taken set of Q, R)
    S = "syntax_tree::fol::sigma_0::"
    reach = collect.reachable_types(fx, {S + "Variable"})
    # (Formula::variables lists the variables that occur in atoms and comparisons; a bound variable that occurs nowhere is not needed for freshness)
    for adt in ("Formula", "AtomicFormula", "Guard", "GeneralTerm", "IntegerTerm", "SymbolicTerm"):
        collect.check_method(ctx, "COLLECT", fx, S + adt, "variables", reach, exempt=("QuantifiedFormula.quantification.variables",))
    check_conjoin(ctx)


def check_conjoin(ctx):
    fx = ctx.facts
    S = "syntax_tree::fol::sigma_0::"
    cb = [b for b in fx.body_list if b["def_path"] == S + "Formula::conjoin"]
    if len(cb) != 1:
        raise AnalysisGap("Formula::conjoin not found")
    v = sym.Eval(fx, inline_depth=0).function(cb[0], [P("$fs")])
    want = ("call", "Option::unwrap_or", (("call", "Iterator::reduce", (P("$fs"), ("closure", ("acc", "e"), ("ctor", "Formula::BinaryFormula", (
        ("connective", ("ctor", "BinaryConnective::Conjunction", ())), ("lhs", ("param", "acc")), ("rhs", ("param", "e"))))))),
        ("ctor", "Formula::AtomicFormula", (("0", ("ctor", "AtomicFormula::Truth", ())),))))
    ctx.add("TPL", "conjoin", v == want, ctx.site(cb[0]), "Formula::conjoin is the left-nested conjunction of all items in order, and #true for none", construct=v)



def rule_alpha(ctx):
    """TPL-ALPHA (rules/alpha.py): the extracted templates are instantiated on every term up to a depth bound over adversarial names; an
    instance is capture-free iff code names and unique reference names resolve every occurrence to the same binder."""
    from .. import alpha
    fx = ctx.facts
    A = "syntax_tree::asp::mini_gringo::"
    zarg = P("$z")
    templates = {}

    def add(shape, term):
        f, nf, b = spec(fx, "val", [term, zarg])
        taken = {}
        for prefix, count, tk in nf.fresh:
            taken.setdefault(prefix, tk)
        templates[shape] = (f, taken)
    add("Variable", C("Term::Variable", _0=P("$v")))
    add("Numeral", C("Term::PrecomputedTerm", _0=C("PrecomputedTerm::Numeral", _0=P("$n"))))
    add("Symbol", C("Term::PrecomputedTerm", _0=C("PrecomputedTerm::Symbol", _0=P("$s"))))
    add("Infimum", C("Term::PrecomputedTerm", _0=C("PrecomputedTerm::Infimum")))
    add("Supremum", C("Term::PrecomputedTerm", _0=C("PrecomputedTerm::Supremum")))
    for u in fx.variants(A + "UnaryOperator"):
        add("UnaryOperator::" + u, C("Term::UnaryOperation", op=C("UnaryOperator::" + u), arg=P("$arg")))
    ops = fx.variants(A + "BinaryOperator")
    for o in ops:
        add("BinaryOperator::" + o, C("Term::BinaryOperation", op=C("BinaryOperator::" + o), lhs=P("$lhs"), rhs=P("$rhs")))
    # how the taken names of Q / R are spelled: `var.to_string()` on a fol::Variable prints the sort suffix
    pb = body_of(fx, "construct_partial_function_formula")
    suffix = False
    from ..facts import walk as _walk, strip as _strip
    for n in _walk(pb["body"]):
        if n.get("k") == "MethodCall" and n.get("method") == "to_string" and "fol::sigma_0::Variable" in n["recv"].get("ty", ""):
            suffix = True
    inst = alpha.Instantiator(templates, suffix)
    thorough = ctx.tier == "thorough"
    pool = ["I", "J", "K", "Q", "R", "Z", "X"]
    leaves = [("var", v) for v in pool] + [("num", 1), ("sym", "a")]
    if thorough:
        small = [("var", v) for v in ("I", "J", "Q", "X")] + [("num", 1)]
        ts = alpha.terms(1, leaves, ["Negative"], ops) + [t for t in alpha.terms(2, small, ["Negative"], ["Add", "Divide", "Interval"])]
    else:
        ts = alpha.terms(1, leaves, ["Negative"], ops)
    zs = [("Z", "General"), ("Z1", "General"), ("V1", "General"), ("I", "Integer"), ("J", "Integer"), ("I1", "Integer")]
    n = 0
    bad = []
    for t in ts:
        for zn, zsrt in zs:
            n += 1
            f = inst.val(t, ((zn, "free:z"), zsrt))
            cs = alpha.captures(f)
            if cs and len(bad) < 5:
                bad.append((alpha.show_term(t), zn + {"General": "", "Integer": "$i"}[zsrt], cs[0], alpha.render(f)[:300]))
    ctx.count("alpha_val_instances", n)
    ctx.add("TPL-ALPHA", "val", not bad, ctx.site(body_of(fx, "val")),
            "val_t(Z) is capture-free on %d instances (terms of depth <= %d over the names %s, Z in %s; taken names of Q / R %s the sort suffix): %s" % (
                n, 2 if thorough else 1, pool, [z[0] for z in zs], "carry" if suffix else "do not carry", "ok" if not bad else bad[0]), construct=bad or None)
    # tau^B: exists Z1..Zk (val_t1(Z1) & .. & p(Z1..Zk)),  Z fresh against the variables of the atomic formula  (structure: TPL:tau_b:*)
    f_lit, nf_lit, _ = spec(fx, "tau_b_first_order_literal", [C("Literal", sign=C("Sign::NoSign"), atom=C("Atom", predicate_symbol=P("$p"), terms=P("$ts"))), P("$taken")])
    zp = sorted({p_ for p_, c_, t_ in nf_lit.fresh})
    if len(zp) != 1:
        raise AnalysisGap("tau_b_first_order_literal: expected one fresh prefix, found %s" % zp)
    zp = zp[0]
    pool2 = ["Z", "Z1", "Z2", "I", "J", "X"]
    leaves2 = [("var", v) for v in pool2] + [("num", 1)]
    t1s = alpha.terms(1, leaves2, ["Negative"], ["Add", "Divide", "Interval"] if not thorough else ops)
    n2 = 0
    bad2 = []
    import itertools as _it
    pairs = list(_it.product(leaves2, t1s)) + list(_it.product(t1s, leaves2))
    for a, b_ in pairs:
        n2 += 1
        uv = set(alpha.term_vars(a) + alpha.term_vars(b_))
        names = alpha.chooser(uv, zp, 2)
        bz = [((nm, inst.fresh_ref(zp)), "General") for nm in names]
        body = ("and", [inst.val(a, bz[0]), inst.val(b_, bz[1]), ("atom", "p", [("v", bz[0][0], "General"), ("v", bz[1][0], "General")])])
        f = ("Q", "Exists", bz, body)
        # the user variables are bound by the rule's universal prefix
        g = ("Q", "Forall", [((v, "free:" + v), "General") for v in sorted(uv)], f)
        cs = alpha.captures(g)
        if cs and len(bad2) < 5:
            bad2.append((alpha.show_term(a), alpha.show_term(b_), cs[0], alpha.render(g)[:300]))
    ctx.count("alpha_tau_b_instances", n2)
    ctx.add("TPL-ALPHA", "tau_b", not bad2, ctx.site(body_of(fx, "tau_b_first_order_literal")),
            "exists %s.. (val & p(..)) is capture-free on %d two-argument atoms over the names %s: %s" % (zp, n2, pool2, "ok" if not bad2 else bad2[0]), construct=bad2 or None)


def _shared(ctx, rule, keep=lambda key: True):
    """run a rule of another property and take its obligations: the clause it decides is a necessary condition of this property as well"""
    sub = type(ctx)(ctx.prop, ctx.tier, ctx.facts)
    rule(sub)
    ctx.obls.extend(o for o in sub.obls if keep(o["key"]))


def rule_parser_precedence(ctx):
    """The program whose models are meant is the one the parser reads: `-X/2` is `(-X)/2`, `1..2*3` is `1..(2*3)`.  The operator levels of the
    term parser are the language's (interval < + - < * / \\ < unary minus, all left-associative), and the printer agrees with them (C14)."""
    from .. import gcov
    from . import c14
    fx = ctx.facts
    pt = gcov.pratt_tables(fx, "asp").get("PRATT_PARSER")
    want = [[("infix", "interval", "Left")], [("infix", "add", "Left"), ("infix", "subtract", "Left")],
            [("infix", "multiply", "Left"), ("infix", "divide", "Left"), ("infix", "modulo", "Left")], [("prefix", "negative", None)]]
    got = [sorted(l_, key=repr) for l_ in pt["levels"]] if pt else None
    ctx.add("PARSE", "term-operator-levels", got == [sorted(l_, key=repr) for l_ in want], "src/parsing/asp/mini_gringo/pest.rs",
            "term operators by binding strength: .. | + - | * / \\ | unary -  (all binary ones left-associative)", construct=got)
    _shared(ctx, c14.rule_precedence, lambda k: k.startswith("PRN-P:"))


RULES = [rule_val, rule_tau_b, rule_tau_star, rule_choosers, rule_zclass, rule_collect, rule_alpha, rule_parser_precedence]
