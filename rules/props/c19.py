"""C19 — simplify, eq-break and decomposition flags never change the claim verified."""
from ..facts import AnalysisGap, callee, callee_generic, ctor_of, local_id_of, local_of, pat_bindings, strip, walk
from .. import flow, hq, sym

EXPLANATION = (
    "TPL: break_equivalences_formula is evaluated on one concrete node of every kind (a theory and the list of its formulas are the same thing): F <-> G gives [F -> G, F <- G] (same operands, same order), a universally quantified "
    "formula gives the broken body re-quantified with the same variable list, anything else is returned unchanged (one formula); the annotated "
    "version keeps role and direction and only extends the name; the theory version flat-maps. decompose_independent = axioms + c_k per conjecture, "
    "decompose_sequential = axioms + c_0..c_{k-1} re-labelled axiom + c_k, conjectures taken in order, names from the enumerate index (a map closure with captured state and an explicit loop are the same "
    "comprehension). FLOW-READ: every read of the fields simplify / break_equivalences / decomposition of the three task structs (directly or through a named local copy) is a branch condition, a Decomposition "
    "dispatch, a pass-through into the next task stage under the same field name, or the argument of Problem::decompose - nothing else depends on "
    "the flags. The simplifiers themselves are C07. SHARED: the relation tables of the TPTP printer (C06) and the order of the simplification passes around gamma (C03) run here too: both flag settings must state the same claim. CLI: --no-simplify / --no-eq-break are plain presence flags.")
UNDECIDED = ["the model-level statement (same refuting interpretations); it follows from these structural facts together with C07's undecided part"]
ASSUMPTIONS = ["C07: simplification preserves meaning", "F <-> G is equivalent to (F -> G) and (F <- G); a conjunction of conjectures is refuted iff one of them is"]

S = ("call", "Unbox::unbox", (("param", "formula"),))
UB, UQ = "UnboxedFormula::BinaryFormula", "UnboxedFormula::QuantifiedFormula"


def P(*path):
    return ("proj", S, tuple(path))


def rule_break(ctx):
    fx = ctx.facts
    b = fx.fn("ht::break_equivalences_formula")
    site = ctx.site(b)
    # decided per node kind on concrete constructors; a Theory and the list of its formulas are the same thing here
    def C(n, **f):
        return ("ctor", n, tuple(sorted(f.items())))

    def content(t):
        """the formulas of a theory-valued term: Theory { formulas: X } = X, T.formulas = T, collected iterators of formulas = the iterator"""
        if isinstance(t, tuple) and t[:2] == ("ctor", "Theory"):
            return content(dict(t[2]).get("formulas"))
        if isinstance(t, tuple) and t[:1] == ("fieldof",) and t[2] == "formulas":
            return content(t[1])
        if isinstance(t, tuple):
            return tuple(content(x) for x in t)
        return t
    L, R, VS, FB, Q = ("param", "$l"), ("param", "$r"), ("param", "$vs"), ("param", "$f"), ("param", "$q")

    def run(node):
        return content(sym.Eval(fx, inline_depth=0).function(b, [node]))

    def bin_(conn, l=L, r=R):
        return C("Formula::BinaryFormula", connective=C("BinaryConnective::" + conn), lhs=l, rhs=r)
    eq = run(bin_("Equivalence"))
    ctx.add("TPL", "break:equivalence", eq == ("list", (bin_("Implication"), bin_("ReverseImplication"))), site, "F <-> G  =>  [F -> G, F <- G]", construct=eq)
    qn = C("Formula::QuantifiedFormula", quantification=C("Quantification", quantifier=C("Quantifier::Forall"), variables=VS), formula=FB)
    q = run(qn)
    refq = ("call", "Iterator::map", (("call", "ht::break_equivalences_formula", (FB,)), ("closure", ("f",), ("call", "Formula::quantify", (("param", "f"), C("Quantifier::Forall"), VS)))))
    from .. import comp as _comp
    _comp.use(fx)
    ctx.add("TPL", "break:forall", q == refq or _comp.canon(q) == _comp.canon(refq), site, "forall V F  =>  forall V F_i for every part F_i of F (same variables)", construct=q)
    others = {"exists": C("Formula::QuantifiedFormula", quantification=C("Quantification", quantifier=C("Quantifier::Exists"), variables=VS), formula=FB),
              "atomic": C("Formula::AtomicFormula", **{"0": ("param", "$a")}), "negation": C("Formula::UnaryFormula", connective=Q, formula=FB)}
    for conn in fx.variants("syntax_tree::fol::sigma_0::BinaryConnective"):
        if conn != "Equivalence":
            others[conn] = bin_(conn)
    bad = {k_: sym.pretty(run(n_))[:100] for k_, n_ in others.items() if run(n_) != ("list", (n_,))}
    ctx.add("TPL", "break:other", not bad, site, "every other formula is returned unchanged as a single formula", construct=bad or None)
    a = fx.fn("ht::break_equivalences_annotated_formula")
    from ..leaves import norm as _norm
    AF = ("param", "$af")
    va = _norm(sym.Eval(fx, inline_depth=0).function(a, [AF]))
    # the parts are collected into a Specification: through a struct literal, or through FromIterator
    f = dict(va[2]).get("formulas") if va[:2] == ("ctor", "Specification") else va
    parts = ("call", "ht::break_equivalences_formula", (("fieldof", AF, "formula"),))
    ok = isinstance(f, tuple) and f[:2] == ("call", "Iterator::map") and f[2][0] in (("call", "Iterator::enumerate", (("fieldof", parts, "formulas"),)), ("call", "Iterator::enumerate", (parts,)))
    if ok:
        cl = f[2][1]
        if cl[0] == "closure" and len(cl[1]) == 1:
            # the closure applied to the pair (index, part): whichever way its parameter is destructured
            one = _norm(sym.subst(cl[2], {cl[1][0]: ("list", (("param", "$i"), ("param", "$part")))}))
            g = dict(one[2]) if one[:2] == ("ctor", "AnnotatedFormula") else {}
            ok = g.get("role") == ("fieldof", AF, "role") and g.get("direction") == ("fieldof", AF, "direction") and g.get("formula") == ("param", "$part") \
                and g.get("name") == ("format", "{}_{}", (("fieldof", AF, "name"), ("param", "$i")))
        else:
            ok = False
    ctx.add("TPL", "break:annotated", ok, ctx.site(a), "the annotated version keeps role and direction of the original for every part", construct=va)
    t = fx.fn("ht::break_equivalences_theory")
    vt = sym.Eval(fx, inline_depth=0).function(t)
    ctx.add("TPL", "break:theory", vt == ("call", "Iterator::flat_map", (("param", "theory"), ("fn", "ht::break_equivalences_formula"))), ctx.site(t), "the theory version flat-maps over every formula", construct=vt)


def rule_decompose(ctx):
    fx = ctx.facts
    ev = sym.Eval(fx, inline_depth=0)
    from .. import ftpl, leaves
    SELF = ("param", "self")
    CONJ = ("call", "Problem::conjectures", (SELF,))
    AX = ("call", "Problem::axioms", (SELF,))

    def raw(b_):
        e_ = sym.Eval(fx, inline_depth=0)
        e_.stateful_map_as_loop = True
        return sym.anon_format(ftpl.canon_iter(e_.function(b_)))

    def canon(b_):
        return leaves.strip_acc(raw(b_))

    def problem(formulas):
        return ("ctor", "Problem", (("formulas", formulas), ("interpretation", ("place", "self.interpretation")),
                                    ("name", ("format", "{}_{}", (("place", "self.name"), ("idx", CONJ))))))
    ind = fx.fn("Problem::decompose_independent")
    v = canon(ind)
    ref = ("upd", ("call", "Vec::new", ()), "push", (problem(("upd", AX, "push", (("at", CONJ),))),))
    ctx.add("TPL", "decompose:independent", v == ref, ctx.site(ind), "independent: one problem per conjecture c_k = all axioms + c_k, named <name>_<k>", construct=v)
    seq = fx.fn("Problem::decompose_sequential")
    v = canon(seq)
    ok = v[:1] == ("upd",) and v[1] == ("call", "Vec::new", ()) and v[2] == "push" and len(v[3]) == 1 and v[3][0][:2] == ("ctor", "Problem")
    g = dict(v[3][0][2]) if ok else {}
    ctx.add("TPL", "decompose:sequential-order", ok and g.get("name") == ("format", "{}_{}", (("place", "self.name"), ("idx", CONJ))) and g.get("interpretation") == ("place", "self.interpretation"),
            ctx.site(seq), "sequential: one problem per conjecture, in order, named <name>_<k> with its enumerate index", construct=None if ok else v)
    # the formulas of the k-th problem: the running list (axioms, then every earlier conjecture) after (1) re-labelling its last element as
    # axiom and (2) appending the k-th conjecture
    f = g.get("formulas")
    relabel = ("upd", ("proj", ("call", "slice::last_mut", (AX,)), (("Option::Some", "0"),)), "assign-field:last.role", (("ctor", "Role::Axiom", ()),))
    good = False
    detail = sym.pretty(f)[:400] if f is not None else "no formulas field"
    if isinstance(f, tuple) and f[:1] == ("upd",) and f[2] == "push" and f[3] == (("at", CONJ),):
        base = f[1]
        # base: the accumulator (started from self.axioms()) with its last element's role set to Axiom when there is a last element
        if isinstance(base, tuple) and base[:1] == ("phi",) and base[1][:1] == ("if",) and base[1][1] == ("iflet", "Option::Some(_)", ("call", "slice::last_mut", (AX,))):
            arms_ = dict(base[2])
            then = arms_.get("then")
            assigns = [x for x in sym.subterms(then) if isinstance(x, tuple) and x[:1] == ("upd",) and str(x[2]).startswith("assign-field:")]
            good = len(assigns) == 1 and assigns[0][2].endswith(".role") and assigns[0][3] == (("ctor", "Role::Axiom", ()),) and \
                assigns[0][1] == ("proj", ("call", "slice::last_mut", (AX,)), (("Option::Some", "0"),))
    carried = any(isinstance(x, tuple) and x[:1] == ("acc",) for x in sym.subterms(raw(seq)))
    ctx.add("TPL", "decompose:sequential-body", good and carried, ctx.site(seq),
            "sequential: the previous conjecture is re-labelled axiom, the next conjecture is appended to the running list (started from self.axioms()), the problem is a copy of the list so far: " + detail)
    # axioms()/conjectures() filter by role, preserving order
    for name, role in (("axioms", "Axiom"), ("conjectures", "Conjecture")):
        b = fx.fn("Problem::" + name)
        t = ev.function(b)
        ok = t[:2] == ("call", "Iterator::filter") and t[2][0] == ("place", "self.formulas") and \
            t[2][1] == ("closure", ("f",), ("bin", "Eq", ("place", "f.role"), ("ctor", "Role::" + role, ())))
        ctx.add("TPL", "decompose:" + name, ok, ctx.site(b), "Problem::%s = formulas with role %s, in order" % (name, role), construct=t)
    d = fx.fn("Problem::decompose")
    rows = sorted((k, flow.callees_in(flow.summ(a["body"]))) for m in hq.matches_over(d["body"], "command_line::arguments::Decomposition") for k, _, a in hq.match_table(m))
    ctx.add("TAB-MAP", "decompose:dispatch", rows == [("Decomposition::Independent", ["Problem::decompose_independent"]), ("Decomposition::Sequential", ["Problem::decompose_sequential"])],
            ctx.site(d), "strategy dispatch %s" % rows)


TASKS = ("StrongEquivalenceTask", "ExternalEquivalenceTask", "ValidatedExternalEquivalenceTask", "AssembledExternalEquivalenceTask")
FLAGS = ("simplify", "break_equivalences", "decomposition")


def rule_flag_reads(ctx):
    fx = ctx.facts
    _FX[0] = fx
    n_reads = 0
    for b in fx.body_list:
        if b["body"].get("mac", "").startswith("#"):
            continue
        pm = None
        for n in walk(b["body"]):
            if n.get("k") != "Field" or n.get("name") not in FLAGS:
                continue
            owner = hq.last(n["e"].get("ty", "").lstrip("&").replace("mut ", ""))
            if owner not in TASKS:
                continue
            n_reads += 1
            if pm is None:
                pm = hq.parent_map(b["body"])
            kind = classify_read(b, pm, n, n["name"])
            ctx.add("FLOW-READ", "%s.%s@%s#%d" % (owner, n["name"], hq.last(b["def_path"], 2), n_reads), kind is not None, ctx.site(b, n),
                    "read of %s.%s is a %s" % (owner, n["name"], kind or "use outside the documented gates: %s" % hq.render(pm.get(id(n)) or n)[:80]))
    ctx.floor("FLOW-READ", "flag_reads", n_reads, 6)
    rule_main_flags(ctx)


_FX = [None]
ITER_GLUE = {"Vec::push", "Vec::extend", "AnnotatedFormula::into_problem_formula", "Iterator::map", "Iterator::collect", "IntoIterator::into_iter", "Iterator::flat_map",
             "slice::into_vec", "Iterator::chain", "iter::once"}


def classify_read(b, pm, n, flag, depth=0):
    """what a read of a flag (or of a local that holds a copy of it) is used for; None = outside the documented gates"""
    if True:
        if True:
            p = pm.get(id(n))
            # look through wrappers
            cur = n
            while p is not None and p.get("k") in ("DropTemps", "Use", "Ref", "Unary") and (p.get("e") is cur):
                cur, p = p, pm.get(id(p))
            kind = None
            if p is None:
                kind = None
            elif p.get("k") == "LetStmt" and p.get("init") is cur and p["pat"].get("p") == "Bind" and "sub" not in p["pat"] and depth < 2:
                # a named copy of the flag: every use of the copy must itself be a documented use
                uses = hq.uses_of(b["body"], p["pat"]["id"])
                kinds = [classify_read(b, pm, u, flag, depth + 1) for u in uses]
                kind = ("copy `%s`: %s" % (p["pat"].get("name"), sorted(set(kinds)))) if uses and all(k_ is not None for k_ in kinds) else None
            elif p.get("k") == "If" and p.get("cond") is cur:
                then_c = set(flow.expand_helpers(_FX[0], flow.callees_in(flow.summ(p["then"]))))
                else_c = set(flow.expand_helpers(_FX[0], flow.callees_in(flow.summ(p["else"])))) if "else" in p else set()
                if flag == "simplify":
                    ok_g = then_c <= {"Iterator::map", "Apply::apply_fixpoint", "Apply::apply", "Compose::compose", "slice::concat"} and "Apply::apply_fixpoint" in then_c and not else_c \
                        and p.get("ty") == "()"
                    kind = "gate(simplification only)" if ok_g else None
                elif flag == "break_equivalences":
                    brk = {c for c in then_c if "break_equivalences" in c}
                    rest = {c for c in then_c if "break_equivalences" not in c}
                    ok_g = bool(brk) and rest <= else_c | ITER_GLUE
                    kind = "gate(equivalence breaking only)" if ok_g else None
                else:
                    kind = None
            elif p.get("k") == "Match" and p.get("scrut") is cur and flag == "decomposition":
                kind = "dispatch"
            elif "k" not in p and p.get("e") is cur and "name" in p:
                st = pm.get(id(p))
                if st is not None and st.get("k") == "Struct" and p["name"] == flag and hq.last(st["res"].get("adt", "")) in TASKS:
                    kind = "pass-through"
            elif p.get("k") == "MethodCall" and (callee(p) or "").endswith("Problem::decompose") and cur in p["args"]:
                kind = "decompose-arg"
            elif p.get("k") in ("Call", "MethodCall") and "inlined" in p and any(a_ is cur for a_ in p.get("args", [])):
                # handed to a later-extracted helper: the helper's body is attached to this call with the argument written in place of the
                # parameter, so every use the helper makes of the flag is classified on its own, right there
                kind = "argument of an extracted helper (its uses are classified where they occur)"
            elif p.get("k") == "Match" and p.get("mac") == "matches":
                kind = None
            return kind


def rule_main_flags(ctx):
    fx = ctx.facts
    # main: the flags are the negated command-line switches and nothing else
    m = fx.fn("command_line::procedures::main")
    for st in hq.nodes(m["body"], "Struct"):
        adt = hq.last(st["res"].get("adt", ""))
        if adt not in ("StrongEquivalenceTask", "ExternalEquivalenceTask"):
            continue
        f = {ff["name"]: ff["e"] for ff in st["fields"]}
        for flag, src in (("simplify", "no_simplify"), ("break_equivalences", "no_eq_break")):
            e = strip(f[flag])
            ok = e.get("k") == "Unary" and e.get("op") == "Not" and local_of(e["e"]) == src
            ctx.add("FLOW-READ", "main:%s.%s" % (adt, flag), ok, ctx.site(m, f[flag]), "%s.%s = !%s" % (adt, flag, src))
        ctx.add("FLOW-READ", "main:%s.decomposition" % adt, local_of(f["decomposition"]) == "decomposition", ctx.site(m), "decomposition is the command-line value")


def rule_simplify_shared(ctx):
    """`--no-simplify` does not change the claim exactly when every rewrite of the portfolios preserves meaning: the soundness obligations of
    C07 (schemas on truth tables, the side conditions of the quantifier / comparison / substitution rewrites, fresh names) are run here too"""
    from . import c07
    sub = type(ctx)(ctx.prop, ctx.tier, ctx.facts)
    for r in (c07.rule_rw1, c07.rule_rw4, c07.rule_rw5, c07.rule_comparisons, c07.rule_equality_predicate, c07.rule_fresh_names):
        try:
            r(sub)
        except AnalysisGap as e:
            sub.gap(r.__name__, "anchor", why=str(e))
    ctx.obls.extend(sub.obls)


def rule_relation_tables_shared(ctx):
    """simplification moves a comparison between the general and the integer relation tables of the TPTP printer: both tables must print
    the relation itself (C06's comparison obligations), else the flag changes the claim"""
    from . import c06
    sub = type(ctx)(ctx.prop, ctx.tier, ctx.facts)
    c06.rule_comparison(sub)
    ctx.obls.extend(sub.obls)
    sub = type(ctx)(ctx.prop, ctx.tier, ctx.facts)
    c06.rule_tokens(sub)
    ctx.obls.extend(o for o in sub.obls if o["key"].startswith("TAB-MAP:repr_"))


def rule_simplification_order_shared(ctx):
    """`--no-simplify` must not change the claim: the simplification that is switched off has to be meaning-preserving where it runs - the
    HT-sound portfolio before gamma, the classical one only after it (C03's pipeline obligations); swapped, `not not F` is rewritten to `F`
    at the here-and-there level and the two flag settings state different claims"""
    from . import c03
    sub = type(ctx)(ctx.prop, ctx.tier, ctx.facts)
    c03.rule_pipe(sub)
    ctx.obls.extend(sub.obls)


def rule_cli_flags(ctx):
    """the flags whose settings are compared are plain presence flags: none of them is switched on or off by another option"""
    from .. import collect as _collect
    _collect.check_cli_flags(ctx, "CLI", ctx.facts, ["no_simplify", "no_eq_break"])


RULES = [rule_break, rule_decompose, rule_flag_reads, rule_simplify_shared, rule_relation_tables_shared, rule_simplification_order_shared, rule_cli_flags]
